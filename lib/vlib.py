"""Shared machinery of the /verif checks: build the harness from /repo's working tree, run the
real-code explorer / function drivers, run TLC (model check + trace validation), classify what TLC
printed into verdicts, replay counterexamples on the real code, match known findings, write evidence.

Verdict policy (DESIGN.md 2.4):
  VIOLATION      a property predicate is false on a transition the REAL code performed, the path
                 replays deterministically and no entry of known_findings.json matches     -> exit 1
  KNOWN-FINDING  same, but an open entry of known_findings.json matches                     -> exit 0
  DRIFT          the model does not explain a real step but no property is violated         -> exit 0
  INCONCLUSIVE   tool failure / unreproducible counterexample / timeout                     -> exit 2
"""
import hashlib
import json
import os
import re
import shutil
import subprocess
import sys
import time

VERIF = os.path.dirname(os.path.dirname(os.path.abspath(__file__)))
REPO = os.environ.get("VERIF_REPO", "/repo")
BUILD = os.path.join(VERIF, ".build")
SPEC = os.path.join(VERIF, "spec")
HARNESS = os.path.join(VERIF, "harness")
EVIDENCE = os.path.join(VERIF, "evidence")
REPLAY = os.path.join(VERIF, "replay")

GOENV = dict(os.environ, GOFLAGS="-mod=mod", GOPROXY="off", GOSUMDB="off", GOTOOLCHAIN="local", CGO_ENABLED="0")


class Inconclusive(Exception):
    pass


def log(*a):
    print(*a, flush=True)


def sh(cmd, cwd=None, env=None, timeout=None, check=True, capture=True):
    r = subprocess.run(cmd, cwd=cwd, env=env, timeout=timeout, stdout=subprocess.PIPE if capture else None,
                       stderr=subprocess.STDOUT if capture else None, text=True)
    if check and r.returncode != 0:
        raise Inconclusive("command failed (%d): %s\n%s" % (r.returncode, " ".join(cmd), (r.stdout or "")[-4000:]))
    return r


def seed():
    try:
        return int(os.environ.get("VERIF_SEED", "1"))
    except ValueError:
        return 1


_hash_cache = {}


def _hash_paths(paths):
    h = hashlib.sha256()
    for p in paths:
        if os.path.isfile(p):
            h.update(p.encode())
            h.update(open(p, "rb").read())
            continue
        for d, dirs, files in os.walk(p):
            dirs.sort()
            if "/.build" in d or "/.git" in d:
                continue
            for f in sorted(files):
                if f.endswith((".go", ".lua", ".tla", ".cfg", ".json", ".py", ".mod", ".yaml")) or "/bin" in d:
                    fp = os.path.join(d, f)
                    h.update(fp.encode())
                    try:
                        h.update(open(fp, "rb").read())
                    except OSError:
                        pass
    return h.hexdigest()[:20]


def tree_hash(scope="closed"):
    """Hash of everything a check of the given scope depends on: /repo's working tree sources plus the
    parts of /verif that scope uses (so unrelated edits do not invalidate cached explorations)."""
    if scope in _hash_cache:
        return _hash_cache[scope]
    repo = [os.path.join(REPO, x) for x in ("pkg", "api", "lua_configuration", "go.mod", "main.go")]
    if scope == "closed":
        ver = [os.path.join(HARNESS, "sim"), os.path.join(HARNESS, "cmd", "explore"), os.path.join(HARNESS, "go.mod"),
               os.path.join(SPEC, "configs")] + sorted(
            os.path.join(SPEC, f) for f in os.listdir(SPEC) if f.startswith(("Rollouts", "Arith", "MC_Rollouts", "MC_closed", "MC_C")))
    else:  # a function-level driver: scope = driver name
        ver = [os.path.join(HARNESS, "sim"), os.path.join(HARNESS, "fnlib"), os.path.join(HARNESS, "cmd", scope), os.path.join(HARNESS, "go.mod"), SPEC]
    ver += [os.path.join(VERIF, "lib", "vlib.py")]
    _hash_cache[scope] = _hash_paths(repo + ver)
    return _hash_cache[scope]


_built = {}


def build_harness():
    """(Re)build the harness binaries against /repo's current working tree with the verif tag."""
    os.makedirs(BUILD, exist_ok=True)
    if "bin" in _built:
        return _built["bin"]
    import fcntl
    out = os.path.join(BUILD, "explore")
    t0 = time.time()
    with open(os.path.join(BUILD, "build.lock"), "w") as lk:
        fcntl.flock(lk, fcntl.LOCK_EX)  # concurrent checks share one harness directory
        stamp = os.path.join(BUILD, "explore.hash")
        th = tree_hash()
        if not (os.path.exists(out) and os.path.exists(stamp) and open(stamp).read() == th):
            src, dst = os.path.join(REPO, "go.sum"), os.path.join(HARNESS, "go.sum")
            if not os.path.exists(dst) or open(src, "rb").read() != open(dst, "rb").read():
                shutil.copyfile(src, dst)
            r = sh(["go", "build", "-tags", "verif", "-o", out + ".tmp", "./cmd/explore"], cwd=HARNESS, env=GOENV, timeout=900, check=False)
            if r.returncode != 0:
                raise Inconclusive("harness build failed against /repo working tree:\n" + r.stdout[-6000:])
            os.replace(out + ".tmp", out)
            open(stamp, "w").write(th)
    _built["bin"] = out
    _built["build_s"] = time.time() - t0
    return out


def scratch(name):
    d = os.path.join(BUILD, "run", name)
    shutil.rmtree(d, ignore_errors=True)
    os.makedirs(d)
    return d


def load_cfg(name):
    p = os.path.join(SPEC, "configs", name + ".json")
    return json.load(open(p)), p


def explore(cfgname, faults="", max_states=200000, timeout=3000, cache=True, depth=0, order=""):
    """Run the real-code explorer for one configuration; returns (prefix, meta).
    Results are cached under a key that covers /repo's working tree, the harness, the specs and the
    configuration, so a changed tree is always re-explored; concurrent checks serialise per key."""
    import fcntl
    exe = build_harness()
    cfg, cfgpath = load_cfg(cfgname)
    key = "%s-%s-f%s-m%d-d%d%s" % (tree_hash(), cfgname, faults or "none", max_states, depth, ("-" + order) if order else "")
    os.makedirs(os.path.join(BUILD, "cache"), exist_ok=True)
    cdir = os.path.join(BUILD, "cache", key)
    prefix = os.path.join(cdir, "x")
    with open(cdir + ".lock", "w") as lk:
        fcntl.flock(lk, fcntl.LOCK_EX)
        if cache and os.path.exists(prefix + ".meta"):
            return prefix, json.load(open(prefix + ".meta"))
        shutil.rmtree(cdir, ignore_errors=True)
        tmp = cdir + ".tmp"
        shutil.rmtree(tmp, ignore_errors=True)
        os.makedirs(tmp)
        env = dict(os.environ, VERIF_FAULTS=faults, VERIF_ORDER=order)
        cmd = [exe, "-mode", "explore", "-cfg", cfgpath, "-out", os.path.join(tmp, "x"), "-max-states", str(max_states), "-depth", str(depth)]
        try:
            r = subprocess.run(cmd, cwd=REPO, env=env, stdout=subprocess.PIPE, stderr=subprocess.DEVNULL, text=True, timeout=timeout)
        except subprocess.TimeoutExpired:
            shutil.rmtree(tmp, ignore_errors=True)
            raise Inconclusive("explorer timeout for %s" % cfgname)
        if r.returncode != 0 or not os.path.exists(os.path.join(tmp, "x.meta")):
            shutil.rmtree(tmp, ignore_errors=True)
            raise Inconclusive("explorer failed for %s: rc=%d %s" % (cfgname, r.returncode, r.stdout[-2000:]))
        os.rename(tmp, cdir)
        return prefix, json.load(open(prefix + ".meta"))


TLC_JAR = "/opt/veriftools/tla/tla2tools.jar:/opt/veriftools/tla/CommunityModules-deps.jar"


def tlc(module, cfgfile, workdir, env=None, workers=1, timeout=1800, extra=None, heap="4g"):
    """Run TLC in a scratch copy of the spec directory. Returns stdout."""
    for f in os.listdir(SPEC):
        if f.endswith((".tla", ".cfg")):
            shutil.copyfile(os.path.join(SPEC, f), os.path.join(workdir, f))
    md = os.path.join(workdir, "md")
    cmd = ["java", "-XX:+UseParallelGC", "-Xmx" + heap, "-Xss64m", "-cp", TLC_JAR, "tlc2.TLC",
           "-workers", str(workers), "-metadir", md, "-config", cfgfile] + (extra or []) + [module]
    e = dict(os.environ)
    e.update(env or {})
    try:
        r = subprocess.run(cmd, cwd=workdir, env=e, stdout=subprocess.PIPE, stderr=subprocess.STDOUT, text=True, timeout=timeout)
    except subprocess.TimeoutExpired:
        raise Inconclusive("TLC timeout on %s" % module)
    shutil.rmtree(md, ignore_errors=True)
    return r.returncode, r.stdout


def tlc_tuples(out):
    """Yield the <<"TAG", ...>> tuples TLC printed. TLC's pretty printer wraps long values over several
    lines, so physical lines are joined until the closing >> of the tuple is seen."""
    cur = None
    for line in out.splitlines():
        st = line.strip()
        if cur is None:
            if st.startswith('<<"') and re.match(r'<<"(BAD|DRIFT|UNMODELLED|TRACE-DONE|ST)"', st):
                cur = st
            else:
                continue
        else:
            cur += " " + st
        if cur.endswith(">>") and cur.count("<<") == cur.count(">>"):
            yield cur
            cur = None
    if cur is not None:
        raise Inconclusive("unterminated tuple in TLC output: %s" % cur[:200])


TUPLE_RE = re.compile(r'^<<"(BAD|DRIFT|UNMODELLED|TRACE-DONE)", (.*)>>$')


import threading
_TLC_SLOTS = threading.BoundedSemaphore(int(os.environ.get("VERIF_TLC_PARALLEL", "6")))


def validate_trace(prefix, conform=True, timeout=3000, chunk=40000):
    """TLC trace validation of one exploration (chunked, chunks run in parallel).
    Returns dict(bad=[(line, [names])], drift=[(line, base, [fields])], unmodelled=n, counts={}, n=…)."""
    import fcntl
    cached = prefix + ".tlc.json"
    lk = open(prefix + ".tlc.lock", "w")
    fcntl.flock(lk, fcntl.LOCK_EX)
    if os.path.exists(cached):
        return json.load(open(cached))
    trans = open(prefix + ".trans").read().splitlines()
    chunks = [trans[i:i + chunk] for i in range(0, len(trans), chunk)] or [[]]
    # every chunk gets only the states its transitions refer to (renumbered), so that a TLC process never has to hold
    # the whole exploration in memory; at most TLC_PARALLEL TLC processes run at a time in this process
    state_lines = None
    if len(chunks) > 1:
        state_lines = {}
        for l in open(prefix + ".states"):
            state_lines[int(l[6:l.index(",", 6)])] = l   # {"id":N,"s":...}
    def run_chunk(arg):
        ci, ch = arg
        wd = scratch("tlc-%s-%d-%d" % (os.path.basename(os.path.dirname(prefix)), ci, os.getpid()))
        tf = os.path.join(wd, "chunk.trans")
        sf = prefix + ".states"
        if state_lines is None:
            open(tf, "w").write("\n".join(ch) + ("\n" if ch else ""))
        else:
            recs = [json.loads(x) for x in ch]
            ids = sorted({r["pre"] for r in recs} | {r["post"] for r in recs} | {m for r in recs for m in r["mids"]})
            remap = {old: k + 1 for k, old in enumerate(ids)}
            sf = os.path.join(wd, "chunk.states")
            with open(sf, "w") as f:
                for old in ids:
                    l = state_lines[old]
                    f.write('{"id":%d,' % remap[old] + l[l.index(",", 6) + 1:])
            with open(tf, "w") as f:
                for r in recs:
                    r["pre"], r["post"], r["mids"] = remap[r["pre"]], remap[r["post"]], [remap[m] for m in r["mids"]]
                    f.write(json.dumps(r) + "\n")
        env = {"VERIF_STATES": sf, "VERIF_TRANS": tf, "VERIF_CONFORM": "1" if conform else "0"}
        for f in os.listdir(SPEC):
            if f.endswith((".tla", ".cfg")):
                shutil.copyfile(os.path.join(SPEC, f), os.path.join(wd, f))
        cmd = ["java", "-XX:+UseParallelGC", "-Xmx5g", "-Xss64m", "-cp", TLC_JAR, "tlc2.TLC", "-workers", "1",
               "-metadir", os.path.join(wd, "md"), "-config", "RolloutsTrace.cfg", "RolloutsTrace.tla"]
        e = dict(os.environ)
        e.update(env)
        with _TLC_SLOTS:
            try:
                r = subprocess.run(cmd, cwd=wd, env=e, stdout=subprocess.PIPE, stderr=subprocess.STDOUT, text=True, timeout=timeout)
            except subprocess.TimeoutExpired:
                shutil.rmtree(wd, ignore_errors=True)
                raise Inconclusive("TLC trace validation timeout")
        shutil.rmtree(wd, ignore_errors=True)
        return ci, r.stdout

    import concurrent.futures
    res = {"bad": [], "drift": [], "unmodelled": [], "counts": {}, "n": len(trans), "states": 0}
    with concurrent.futures.ThreadPoolExecutor(max_workers=4) as ex:
        outs = list(ex.map(run_chunk, list(enumerate(chunks))))
    for ci, out in outs:
        done = False
        for line in tlc_tuples(out):
            m = TUPLE_RE.match(line.strip())
            if not m:
                raise Inconclusive("unparsable TLC tuple: %s" % line[:300])
            kind, rest = m.group(1), m.group(2)
            if kind == "TRACE-DONE":
                done = True
                mm = re.match(r'(\d+), (\d+), "(.*)"$', rest)
                res["states"] = int(mm.group(2))
                cnt = json.loads(mm.group(3).replace('\\"', '"'))
                for k, v in cnt.items():
                    res["counts"][k] = res["counts"].get(k, 0) + v
            elif kind == "BAD":
                mm = re.match(r'(\d+), \{(.*)\}$', rest)
                res["bad"].append((ci * chunk + int(mm.group(1)), re.findall(r'"([^"]+)"', mm.group(2))))
            elif kind == "DRIFT":
                mm = re.match(r'(\d+), "([^"]+)", \{(.*)\}$', rest)
                res["drift"].append((ci * chunk + int(mm.group(1)), mm.group(2), re.findall(r'"([^"]+)"', mm.group(3))))
            elif kind == "UNMODELLED":
                mm = re.match(r'(\d+), "([^"]+)"$', rest)
                res["unmodelled"].append((ci * chunk + int(mm.group(1)), mm.group(2)))
        if not done:
            raise Inconclusive("TLC did not consume the whole trace (chunk %d):\n%s" % (ci, out[-3000:]))
    json.dump(res, open(cached + ".tmp", "w"))
    os.replace(cached + ".tmp", cached)
    return res


class Run:
    """State tables of one exploration, for building replays and samples."""

    def __init__(self, prefix):
        self.prefix = prefix
        self.trans = [json.loads(l) for l in open(prefix + ".trans")]
        self.parents = {}
        for l in open(prefix + ".parents"):
            d = json.loads(l)
            self.parents[d["id"]] = (d["parent"], d["act"])
        self._states = None

    def state(self, i):
        if self._states is None:
            self._states = {}
            for l in open(self.prefix + ".states"):
                d = json.loads(l)
                self._states[d["id"]] = d["s"]
        return self._states[i]

    def path_to(self, i):
        p = []
        while i in self.parents:
            par, act = self.parents[i]
            p.append(act)
            i = par
        return list(reversed(p))


def replay_check(cfgname, path, want_post):
    """Re-execute an action path on the real code in a fresh process; True iff the final abstract
    state equals want_post (determinism of the counterexample)."""
    exe = build_harness()
    _, cfgpath = load_cfg(cfgname)
    r = subprocess.run([exe, "-mode", "replayjson", "-cfg", cfgpath, "-path", ",".join(path)], cwd=REPO,
                       stdout=subprocess.PIPE, stderr=subprocess.DEVNULL, text=True, timeout=600)
    if r.returncode != 0:
        return False, "replay process failed"
    try:
        got = json.loads(r.stdout.strip().splitlines()[-1])
    except Exception as ex:  # noqa
        return False, "replay output unreadable"
    a = json.dumps(got.get("post"), sort_keys=True)
    b = json.dumps(want_post, sort_keys=True)
    return a == b, got


def load_known():
    p = os.path.join(VERIF, "known_findings.json")
    if not os.path.exists(p):
        return []
    return json.load(open(p)).get("findings", [])


def match_known(prop, signature_fields):
    """An open finding matches if every key of its `match` dict equals the violation's signature."""
    for f in load_known():
        if f.get("property") != prop or f.get("status") != "open":
            continue
        m = f.get("match", {})
        if m and all(signature_fields.get(k) == v for k, v in m.items()):
            return f
    return None


def write_evidence(prop, tier, level, coverage, wall_s, violations, assumptions):
    os.makedirs(EVIDENCE, exist_ok=True)
    ev = {"property_id": prop, "tier": tier, "seed": seed(), "level": level, "coverage": coverage,
          "assumptions": assumptions, "wall_s": round(wall_s, 2), "violations": violations}
    json.dump(ev, open(os.path.join(EVIDENCE, prop + ".json"), "w"), indent=1, sort_keys=True)
    return ev


def write_replay(prop, payload):
    os.makedirs(REPLAY, exist_ok=True)
    h = hashlib.sha256(json.dumps(payload, sort_keys=True).encode()).hexdigest()[:12]
    p = os.path.join(REPLAY, "%s-%s.json" % (prop, h))
    json.dump(payload, open(p, "w"), indent=1, sort_keys=True)
    return p
