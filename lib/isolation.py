"""C19 (isolation part): the pair graph recorded from the real controllers must project exactly onto the
two solo graphs recorded from the real controllers (spec/RolloutsIsolation.tla decides; this module
explores, renames abstract states to digests, runs TLC, replays counterexamples and writes evidence)."""
import hashlib
import json
import os
import re
import shutil
import time

import vlib
from vlib import Inconclusive, log

ASSUMPTIONS = [
    "bounded: only the pair scenarios listed in coverage.configs (two Rollouts, different namespaces, SAME object names, one reconciler instance each, "
    "one process-wide grace map / expectation store / Lua runtime) were explored; a truncated pair exploration covers the breadth-first prefix only",
    "atomic reconciles: interleaving is explored at the granularity of whole Reconcile calls (plus every single API write as a frame point), not of goroutine preemption; "
    "the data-race clause of C19 (Go race detector) is outside what a TLA+ model of the abstract state can decide and is NOT covered (DESIGN.md 11.6)",
    "the solo graphs are the specification of 'as when it runs alone'; they are themselves validated against RolloutsModel / RolloutsProps by the closed-loop checks",
    "abstract states are compared by a digest of their canonical JSON (injective renaming done by lib/isolation.py)",
    "the simulated API server and native workload controllers are trusted; TLC, the JVM and the Go toolchain are trusted",
]


def digest(obj):
    return hashlib.sha256(json.dumps(obj, sort_keys=True, separators=(",", ":")).encode()).hexdigest()[:20]


def _states(prefix):
    out = {}
    for line in open(prefix + ".states"):
        d = json.loads(line)
        out[d["id"]] = d["s"]
    return out


def _solo_tables(prefix, wd, tag):
    st = _states(prefix)
    h = {i: digest(s) for i, s in st.items()}
    acts = {}
    with open(os.path.join(wd, "solo%s.trans" % tag), "w") as f:
        for line in open(prefix + ".trans"):
            t = json.loads(line)
            if t["fault"]:
                continue
            f.write(json.dumps({"pre": h[t["pre"]], "base": t["base"], "post": h[t["post"]]}) + "\n")
            acts.setdefault(t["pre"], set()).add(t["base"])
    with open(os.path.join(wd, "solo%s.states" % tag), "w") as f:
        for i in sorted(st):
            f.write(json.dumps({"h": h[i], "acts": sorted(acts.get(i, [])), "init": i == 1}) + "\n")
    return st, h


def _pair_tables(prefix, wd):
    st = _states(prefix)
    ha = {i: digest(s["a"]) for i, s in st.items()}
    hb = {i: digest(s["b"]) for i, s in st.items()}
    en = {}
    lines = []
    with open(os.path.join(wd, "pair.trans"), "w") as f:
        for line in open(prefix + ".trans"):
            t = json.loads(line)
            lines.append(t)
            f.write(json.dumps({"comp": t.get("comp", ""), "cbase": t.get("cbase", ""), "preA": ha[t["pre"]], "postA": ha[t["post"]],
                                "preB": hb[t["pre"]], "postB": hb[t["post"]], "midsA": [ha[m] for m in t["mids"]], "midsB": [hb[m] for m in t["mids"]]}) + "\n")
            e = en.setdefault(t["pre"], {"a": set(), "b": set(), "tick": False})
            if t.get("comp"):
                e[t["comp"]].add(t["cbase"])
            elif t["base"] == "tick":
                e["tick"] = True
    expanded = sorted(en)
    with open(os.path.join(wd, "pair.states"), "w") as f:
        for i in expanded:
            f.write(json.dumps({"id": i, "hA": ha[i], "hB": hb[i], "actsA": sorted(en[i]["a"]), "actsB": sorted(en[i]["b"]), "tick": en[i]["tick"]}) + "\n")
    return st, ha, hb, lines, expanded


def check_pair(item, violations, cov):
    cfgname = item["cfg"]
    cfg, _ = vlib.load_cfg(cfgname)
    an, bn = cfg["pairOf"]
    pa, ma = vlib.explore(an)
    pb, mb = vlib.explore(bn)
    if ma["truncated"] or mb["truncated"]:
        raise Inconclusive("solo exploration truncated for %s" % cfgname)
    pp, mp = vlib.explore(cfgname, max_states=item.get("max_states", 200000), order=item.get("order", ""))
    wd = vlib.scratch("iso-%s-%d" % (cfgname, os.getpid()))
    sa, hA = _solo_tables(pa, wd, "A")
    sb, hB = _solo_tables(pb, wd, "B")
    sp, pha, phb, lines, expanded = _pair_tables(pp, wd)
    env = {"VERIF_PAIR_TRANS": os.path.join(wd, "pair.trans"), "VERIF_PAIR_STATES": os.path.join(wd, "pair.states"),
           "VERIF_SOLO_A_TRANS": os.path.join(wd, "soloA.trans"), "VERIF_SOLO_B_TRANS": os.path.join(wd, "soloB.trans"),
           "VERIF_SOLO_A_STATES": os.path.join(wd, "soloA.states"), "VERIF_SOLO_B_STATES": os.path.join(wd, "soloB.states")}
    t0 = time.time()
    rc, out = vlib.tlc("RolloutsIsolation.tla", "RolloutsIsolation.cfg", wd, env=env, workers=1, timeout=3000, heap="8g")
    bad, counts, done = [], {}, False
    for line in vlib.tlc_tuples(out):
        m = vlib.TUPLE_RE.match(line.strip())
        if not m:
            continue
        kind, rest = m.group(1), m.group(2)
        if kind == "TRACE-DONE":
            done = True
            mm = re.match(r'(\d+), (\d+), "(.*)"$', rest)
            counts = json.loads(mm.group(3).replace('\\"', '"'))
        elif kind == "BAD":
            mm = re.match(r'(\d+), \{(.*)\}$', rest)
            bad.append((int(mm.group(1)), re.findall(r'"([^"]+)"', mm.group(2))))
    shutil.rmtree(wd, ignore_errors=True)
    if not done:
        raise Inconclusive("TLC did not consume the pair graph of %s:\n%s" % (cfgname, out[-3000:]))
    run = vlib.Run(pp)
    solo_by_h = {"a": ({h: i for i, h in hA.items()}, pa, an), "b": ({h: i for i, h in hB.items()}, pb, bn)}
    seen = set()
    for ln, names in bad:
        if ln <= len(lines):
            t = lines[ln - 1]
            pre_id, act = t["pre"], t["act"]
        else:
            pre_id, act, t = expanded[ln - len(lines) - 1], None, None
        for n in names:
            sig = {"name": n, "cfg": cfgname, "base": (t.get("cbase") or t["base"]) if t else "", "comp": t.get("comp", "") if t else ""}
            key = json.dumps(sig, sort_keys=True)
            if key in seen:
                continue
            seen.add(key)
            path = run.path_to(pre_id) + ([act] if act else [])
            want = run.state(t["post"]) if t else run.state(pre_id)
            ok, got = vlib.replay_check(cfgname, path, want)
            if not ok:
                raise Inconclusive("isolation counterexample did not replay deterministically (cfg %s, path %s)" % (cfgname, path))
            payload = {"property": "C19", "predicate": n, "cfg": cfgname, "path": path, "signature": sig}
            if t and n == "IsoStep" and t.get("comp"):
                # what the scenario does ALONE from the same abstract state, re-executed on the real code
                idx, sprefix, sname = solo_by_h[t["comp"]]
                side_pre = (pha if t["comp"] == "a" else phb)[t["pre"]]
                side_post = (pha if t["comp"] == "a" else phb)[t["post"]]
                if side_pre in idx:
                    srun = vlib.Run(sprefix)
                    spath = srun.path_to(idx[side_pre]) + [t["cbase"]]
                    ok2, got2 = vlib.replay_check(sname, spath, None)
                    alone = digest(got2.get("post")) if isinstance(got2, dict) and got2.get("post") is not None else None
                    payload["alone"] = {"cfg": sname, "path": spath, "post_digest": alone, "pair_side_post_digest": side_post}
                    if alone == side_post:
                        raise Inconclusive("the solo run reproduces the pair's successor: the solo graph aliases two concrete behaviours (cfg %s, %s)" % (cfgname, spath))
            kf = vlib.match_known("C19", sig)
            if kf:
                violations.append(("known", kf, payload))
            else:
                violations.append(("violation", None, payload))
    cov.append({"cfg": cfgname, "order": item.get("order", "bfs"), "solo": [an, bn], "solo_states": [ma["states"], mb["states"]], "solo_transitions": [ma["transitions"], mb["transitions"]],
                "pair_states": mp["states"], "pair_transitions": mp["transitions"], "pair_expanded_states": len(expanded), "truncated": mp["truncated"],
                "tlc_wall_s": round(time.time() - t0, 1), "predicate_hits": counts})
    return mp, counts, run


def check(prop, tier):
    t0 = time.time()
    vlib.build_harness()
    items = json.load(open(os.path.join(vlib.SPEC, "configs", "families.json")))["C19"][tier]
    found, cov = [], []
    total = {}
    ntrans = nstates = 0
    samples = []
    for it in items:
        mp, counts, run = check_pair(it, found, cov)
        ntrans += mp["transitions"]
        nstates += mp["states"]
        for k, v in counts.items():
            total[k] = total.get(k, 0) + v
        if len(samples) < 3 and run.trans:
            t = run.trans[min(len(run.trans) - 1, 500)]
            samples.append({"cfg": it["cfg"], "path": run.path_to(t["pre"]), "act": t["act"], "writes": t["writes"]})
    rc = 0
    nviol = 0
    for kind, kf, payload in found:
        if kind == "known":
            log("KNOWN-FINDING: property=C19 %s [%s]" % (kf["what"], kf["id"]))
            continue
        rc = 1
        nviol += 1
        if nviol > 5:
            continue
        p = vlib.write_replay("C19", payload)
        log("VIOLATION property=C19 replay=%s" % p)
        log("  predicate %s cfg %s after %s : %s" % (payload["predicate"], payload["cfg"], ",".join(payload["path"][-6:]), json.dumps(payload["signature"])))
    coverage = {
        "states": max(1, nstates), "transitions": max(1, ntrans), "traces_validated_against_impl": ntrans,
        "samples": samples or [{"note": "no transitions"}],
        "impl_distinct_states": nstates, "impl_transitions": ntrans, "evaluations": ntrans, "distinct_nontrivial": sum(total.values()),
        "rule": "one evaluation = one transition of the real controllers in a cluster with two Rollouts, checked by TLC against the graphs the same code produced for each Rollout alone",
        "predicate_hits": total, "predicates_exercised": sum(1 for v in total.values() if v > 0), "configs": cov,
        "exhaustive": all(not c["truncated"] for c in cov),
    }
    vlib.write_evidence("C19", tier, "model_checking", coverage, time.time() - t0, nviol, ASSUMPTIONS)
    log("property C19: %d real pair transitions validated against the solo graphs, predicate hits %s" % (ntrans, json.dumps(total)))
    return rc
