"""Function-level properties (C08, C12-C15, C17, C20): bounded input domains enumerated by Go drivers
against the real functions, validated by TLC against the function-level TLA+ modules."""
PROPS = set()


def check(prop, tier):
    return 2


def replay(prop, path):
    return 2
