"""Function-level properties (C08, C12-C15, C17, C20 and the arithmetic parts of C01/C07): bounded
input domains enumerated by Go drivers against the REAL functions, every recorded input/output pair
validated by TLC against the function-level TLA+ module (property predicates = verdicts, equality
with the reference definitions = drift), plus an exhaustive TLC model check of the module itself.

A driver is described by lib/fn/<name>.json:
  {"property": "C13", "driver": "fn-gateway", "trace_module": "GatewayTrace",
   "mc": [{"module": "MC_Gateway", "cfg": "MC_Gateway.cfg"}],
   "names": ["G1", ...] | null, "assumptions": [...], "what": "..."}
"""
import concurrent.futures
import glob
import json
import os
import re
import shutil
import subprocess
import time

import vlib
from vlib import Inconclusive, log

FN_DIR = os.path.join(vlib.VERIF, "lib", "fn")


def descriptors():
    out = {}
    for f in sorted(glob.glob(os.path.join(FN_DIR, "*.json"))):
        d = json.load(open(f))
        d["name"] = os.path.basename(f)[:-5]
        out[d["name"]] = d
    return out


def by_property():
    m = {}
    for d in descriptors().values():
        if d.get("standalone", True):
            m.setdefault(d["property"], []).append(d)
    return m


PROPS = set(by_property().keys())


def build_driver(driver):
    import fcntl
    os.makedirs(vlib.BUILD, exist_ok=True)
    out = os.path.join(vlib.BUILD, driver)
    with open(os.path.join(vlib.BUILD, "build.lock"), "w") as lk:
        fcntl.flock(lk, fcntl.LOCK_EX)
        stamp = out + ".hash"
        th = vlib.tree_hash(driver)
        if os.path.exists(out) and os.path.exists(stamp) and open(stamp).read() == th:
            return out
        src, dst = os.path.join(vlib.REPO, "go.sum"), os.path.join(vlib.HARNESS, "go.sum")
        if not os.path.exists(dst) or open(src, "rb").read() != open(dst, "rb").read():
            shutil.copyfile(src, dst)
        r = vlib.sh(["go", "build", "-tags", "verif", "-o", out + ".tmp", "./cmd/" + driver], cwd=vlib.HARNESS, env=vlib.GOENV, timeout=900, check=False)
        if r.returncode != 0:
            raise Inconclusive("driver build failed against /repo working tree:\n" + r.stdout[-6000:])
        os.replace(out + ".tmp", out)
        open(stamp, "w").write(th)
    return out


def run_driver(d, tier, only=0):
    import fcntl
    exe = build_driver(d["driver"])
    key = "%s-fn-%s-%s-s%d" % (vlib.tree_hash(d["driver"]), d["name"], tier, vlib.seed())
    os.makedirs(os.path.join(vlib.BUILD, "cache"), exist_ok=True)
    cdir = os.path.join(vlib.BUILD, "cache", key)
    prefix = os.path.join(cdir, "x")
    if only:
        cdir = vlib.scratch("fnreplay-%s-%d" % (d["name"], os.getpid()))
        prefix = os.path.join(cdir, "x")
    with open(os.path.join(vlib.BUILD, "cache", key + ".lock"), "w") as lk:
        fcntl.flock(lk, fcntl.LOCK_EX)
        if not only and os.path.exists(prefix + ".meta"):
            return prefix, json.load(open(prefix + ".meta"))
        if not only:
            shutil.rmtree(cdir, ignore_errors=True)
            os.makedirs(cdir)
        cmd = [exe, "-tier", tier, "-seed", str(vlib.seed()), "-out", prefix]
        if only:
            cmd += ["-only", str(only)]
        try:
            r = subprocess.run(cmd, cwd=vlib.REPO, stdout=subprocess.PIPE, stderr=subprocess.DEVNULL, text=True, timeout=3000)
        except subprocess.TimeoutExpired:
            raise Inconclusive("driver %s timeout" % d["driver"])
        if r.returncode != 0 or not os.path.exists(prefix + ".meta"):
            raise Inconclusive("driver %s failed rc=%d: %s" % (d["driver"], r.returncode, r.stdout[-2000:]))
        return prefix, json.load(open(prefix + ".meta"))


TUP = re.compile(r'^<<"(BAD|DRIFT|TRACE-DONE)", (.*)>>$')


def validate_cases(d, prefix, chunk=25000):
    cached = prefix + ".tlc.json"
    if os.path.exists(cached):
        return json.load(open(cached))
    lines = open(prefix + ".cases").read().splitlines()
    chunks = [lines[i:i + chunk] for i in range(0, len(lines), chunk)] or [[]]
    res = {"bad": [], "drift": [], "counts": {}, "n": len(lines)}

    def one(args):
        ci, ch = args
        wd = vlib.scratch("fntlc-%s-%d-%d" % (d["name"], ci, os.getpid()))
        cf = os.path.join(wd, "chunk.cases")
        open(cf, "w").write("\n".join(ch) + ("\n" if ch else ""))
        rc, out = vlib.tlc(d["trace_module"] + ".tla", d["trace_module"] + ".cfg", wd, env={"VERIF_CASES": cf}, workers=1, timeout=3000, heap="6g")
        shutil.rmtree(wd, ignore_errors=True)
        return ci, out

    with concurrent.futures.ThreadPoolExecutor(max_workers=8) as ex:
        outs = list(ex.map(one, enumerate(chunks)))
    for ci, out in outs:
        done = False
        for line in vlib.tlc_tuples(out):
            m = TUP.match(line.strip())
            if not m:
                raise Inconclusive("unparsable TLC tuple: %s" % line[:300])
            kind, rest = m.group(1), m.group(2)
            if kind == "TRACE-DONE":
                done = True
                mm = re.match(r'(\d+), (\d+), "(.*)"$', rest)
                for k, v in json.loads(mm.group(3).replace('\\"', '"')).items():
                    res["counts"][k] = res["counts"].get(k, 0) + v
            elif kind == "BAD":
                mm = re.match(r'(\d+), \{(.*)\}$', rest)
                res["bad"].append((int(mm.group(1)), re.findall(r'"([^"]+)"', mm.group(2))))
            elif kind == "DRIFT":
                mm = re.match(r'(\d+), "([^"]*)", \{(.*)\}$', rest)
                res["drift"].append((int(mm.group(1)), re.findall(r'"([^"]+)"', mm.group(3))))
        if not done:
            raise Inconclusive("TLC did not consume all cases of %s (chunk %d):\n%s" % (d["name"], ci, out[-3000:]))
    json.dump(res, open(cached + ".tmp", "w"))
    os.replace(cached + ".tmp", cached)
    return res


def model_check(d, tier):
    out = []
    for mc in d.get("mc", []):
        cfg = mc["cfg"] if tier == "quick" or "cfg_thorough" not in mc else mc["cfg_thorough"]
        key = os.path.join(vlib.BUILD, "cache", "%s-mc-%s-%s.json" % (vlib.tree_hash(d["driver"]), mc["module"], cfg))
        if os.path.exists(key):
            out.append(json.load(open(key)))
            continue
        wd = vlib.scratch("fnmc-%s-%d" % (mc["module"], os.getpid()))
        rc, txt = vlib.tlc(mc["module"] + ".tla", cfg, wd, workers=8, timeout=3000, heap="12g")
        shutil.rmtree(wd, ignore_errors=True)
        m = re.search(r"(\d+) states generated, (\d+) distinct states found", txt)
        r = {"module": mc["module"], "cfg": cfg, "rc": rc}
        if m:
            r["transitions"], r["states"] = int(m.group(1)), int(m.group(2))
        if rc != 0 or "Error:" in txt:
            raise Inconclusive("model check of %s failed (a model-only counterexample is never a verdict; fix the model):\n%s" % (mc["module"], txt[-3000:]))
        json.dump(r, open(key, "w"))
        out.append(r)
    return out


def case_by_id(prefix, cid):
    for l in open(prefix + ".cases"):
        if l.startswith('{"id":%d,' % cid):
            return json.loads(l)
    return None


def run_descriptor(d, tier, prop):
    """Returns (violations, known, coverage) for one driver."""
    prefix, meta = run_driver(d, tier)
    res = validate_cases(d, prefix)
    mcs = model_check(d, tier)
    names = d.get("names")
    violations, known = [], []
    seen = set()
    badids = set(cid for cid, bad in res["bad"])
    badcases = {}
    if badids:
        for l in open(prefix + ".cases"):
            m = re.match(r'\{"id":(\d+),', l)
            if m and int(m.group(1)) in badids:
                badcases[int(m.group(1))] = json.loads(l)
    for cid, bad in res["bad"]:
        mine = [n for n in bad if names is None or n in names]
        if not mine:
            continue
        c = badcases.get(cid) or case_by_id(prefix, cid)
        for n in mine:
            sig = {"name": n, "driver": d["name"]}
            for k in d.get("signature_fields", []):
                sig[k] = c["in"].get(k) if isinstance(c["in"], dict) else None
            key = json.dumps(sig, sort_keys=True)
            if key in seen:
                continue
            seen.add(key)
            # replay: re-run exactly this case in a fresh process and require the same output
            rp, _ = run_driver(d, tier, only=cid)
            again = case_by_id(rp, cid)
            shutil.rmtree(os.path.dirname(rp), ignore_errors=True)
            if again is None or json.dumps(again["out"], sort_keys=True) != json.dumps(c["out"], sort_keys=True) or again["panic"] != c["panic"]:
                raise Inconclusive("case %d of %s did not replay deterministically" % (cid, d["name"]))
            payload = {"property": prop, "predicate": n, "driver": d["name"], "tier": tier, "seed": vlib.seed(), "case": c, "signature": sig}
            kf = vlib.match_known(prop, sig)
            (known if kf else violations).append((kf, payload) if kf else payload)
    hits = {k: v for k, v in res["counts"].items() if names is None or k in names}
    samples = []
    for l in open(prefix + ".cases"):
        samples.append(json.loads(l))
        if len(samples) >= 2:
            break
    cov = {"driver": d["name"], "cases": meta["cases"], "distinct_inputs": meta["distinct"], "exhaustive": meta.get("exhaustive", False),
           "real_panics": meta.get("panics", 0), "predicate_hits": hits, "drift": len(res["drift"]), "model_check": mcs,
           "samples": samples, "meta": meta}
    return violations, known, cov


FN_ASSUMPTIONS = [
    "bounded: the input domain enumerated by the driver (coverage.drivers[*].meta) — exhaustive inside the bounds when coverage.exhaustive is true, seeded sampling otherwise",
    "the driver's construction of concrete Kubernetes objects from abstract inputs and its projection of outputs back are trusted",
    "TLC, the JVM, the Go toolchain and gopher-lua are trusted",
]


def check(prop, tier):
    t0 = time.time()
    ds = by_property()[prop]
    violations, known, covs = [], [], []
    for d in ds:
        v, k, c = run_descriptor(d, tier, prop)
        violations += v
        known += k
        covs.append(c)
    return finish(prop, tier, violations, known, covs, t0)


def finish(prop, tier, violations, known, covs, t0):
    seen_kf = {}
    for kf, payload in known:
        seen_kf.setdefault(kf["id"], [kf, 0])[1] += 1
    for kid, (kf, n) in seen_kf.items():
        log("KNOWN-FINDING: property=%s %s [%s, %d distinct signatures]" % (prop, kf["what"], kid, n))
    rc = 0
    shown = {}
    for payload in violations:
        rc = 1
        shown[payload["predicate"]] = shown.get(payload["predicate"], 0) + 1
        if shown[payload["predicate"]] > 5:
            continue
        p = vlib.write_replay(prop, payload)
        log("VIOLATION property=%s replay=%s" % (prop, p))
        log("  predicate %s driver %s input %s" % (payload["predicate"], payload["driver"], json.dumps(payload["case"]["in"])[:600]))
    for n, c in shown.items():
        if c > 5:
            log("  … %d further distinct signatures of predicate %s not printed" % (c - 5, n))
    cases = sum(c["cases"] for c in covs)
    hits = {}
    for c in covs:
        for k, v in c["predicate_hits"].items():
            hits[k] = hits.get(k, 0) + v
    mstates = sum(m.get("states", 0) for c in covs for m in c["model_check"])
    mtrans = sum(m.get("transitions", 0) for c in covs for m in c["model_check"])
    cov = {"states": max(1, mstates), "transitions": max(1, mtrans), "traces_validated_against_impl": cases,
           "samples": [s for c in covs for s in c["samples"]][:4] or [{"note": "none"}],
           "evaluations": max(1, cases), "distinct_nontrivial": max(2, sum(c["distinct_inputs"] for c in covs)),
           "rule": "one evaluation = one execution of the real function on one input of the bounded domain, validated by TLC; distinct = distinct abstract inputs (counted by the driver); predicate_hits counts, per predicate, the cases on which its antecedent held",
           "predicate_hits": hits, "drivers": [{k: v for k, v in c.items() if k != "samples"} for c in covs],
           "drift": sum(c["drift"] for c in covs), "exhaustive": all(c["exhaustive"] for c in covs),
           "known_findings_reported": list(seen_kf.keys())}
    vlib.write_evidence(prop, tier, "model_checking", cov, time.time() - t0, len(violations), FN_ASSUMPTIONS)
    if cov["drift"]:
        log("DRIFT property=%s: %d real outputs differ from the reference definitions (no property violated by those)" % (prop, cov["drift"]))
    log("property %s: %d real executions validated, predicate hits %s" % (prop, cases, json.dumps(hits)))
    return rc


def replay(prop, path):
    payload = json.load(open(path))
    d = descriptors()[payload["driver"]]
    rp, _ = run_driver(d, payload.get("tier", "quick"), only=payload["case"]["id"])
    c = case_by_id(rp, payload["case"]["id"])
    log("replayed case %d of %s on the current tree: %s" % (payload["case"]["id"], d["name"], json.dumps(c)[:3000]))
    same = c is not None and json.dumps(c["out"], sort_keys=True) == json.dumps(payload["case"]["out"], sort_keys=True)
    log("same output as recorded: %s" % same)
    shutil.rmtree(os.path.dirname(rp), ignore_errors=True)
    return 0
