"""Closed-loop properties (C01-C07, C09-C11, C18, C19): the real Rollout / BatchRelease / TrafficRouting
reconcilers run against the simulated API server; the harness explorer enumerates schedules, user
actions, time, crashes and API faults; TLC evaluates the TLA+ property predicates on every recorded
real transition and model-checks the closed-loop specification."""
import concurrent.futures
import json
import os
import time

import vlib
from vlib import Inconclusive, log

# predicate names of RolloutsProps.tla that decide each listed property
NAMES = {
    "C01": ["C01a", "C01ro", "C01b", "C01c"],
    "C02": ["C02", "C02pause", "C02promote", "C02edit", "C02adv"],
    "C03": ["C03a", "C03b", "C03c"],
    "C04": ["C04a", "C04b", "C04c"],
    "C05": ["C05", "C05tr"],
    "C06": None,  # every predicate, on fault transitions and on everything reachable after a fault
    "C07": ["C07"],
    "C09": ["C09"],
    "C10": ["C10a", "C10b", "C10bg"],
    "C11": ["C11a", "C11b", "C11c", "C11d"],
    "C18": ["C18a", "C18br", "C18b", "C18tr"],
}

# configurations explored per property and tier: (config name, fault mode, max states)
CONFIGS = {}


def _cfgs(prop, tier):
    table = json.load(open(os.path.join(vlib.SPEC, "configs", "families.json")))
    return table[prop][tier]


PROPS = set(NAMES.keys())

# function-level drivers that decide a part of a closed-loop property (lib/fn/<name>.json)
EXTRA_FN = {"C01": ["arith"], "C07": ["arith", "gateway", "ingress", "custom"], "C09": ["validate"]}
# predicates of those drivers that belong to the closed-loop property (None = the descriptor's own list)
EXTRA_FN_NAMES = {("C07", "arith"): ["A_sufficient"], ("C07", "gateway"): ["G5"], ("C07", "ingress"): ["I5"], ("C07", "custom"): ["N4"]}

ASSUMPTIONS = [
    "bounded: only the configurations, plans, replica counts, action alphabets and budgets listed in coverage.configs were explored",
    "the simulated API server (harness/sim/store.go) and the simulated native workload controllers (harness/sim/*env*.go) are trusted and hand-written",
    "a reconcile is atomic between its API writes and reads are fresh (no informer-cache staleness); every prefix of its write sequence is explored as a crash point when faults are enabled",
    "timestamps are abstracted to fresh/expired: every grace and pause period is 100000 s and the explicit tick action ages all timestamps by 200000 s",
    "de-duplication on the abstract projection; a sampled audit re-expands duplicates and reports projection aliasing (coverage.aliasing)",
    "TLC, the JVM, the Go toolchain and gopher-lua are trusted",
]


def signature(name, t, pre, post):
    return {
        "name": name, "base": t["base"], "fault": t["fault"].split(":")[0] if t["fault"] else "",
        "pre_reason": pre["ro"].get("reason", ""), "pre_state": pre["ro"].get("state", ""),
        "post_reason": post["ro"].get("reason", ""), "post_state": post["ro"].get("state", ""),
        "pre_phase": pre["ro"].get("phase", ""), "kind": pre["wl"].get("kind", ""), "style": pre["wl"].get("style", ""),
        "brEver": post["ghost"].get("brEver"), "jumpBack": post["ghost"].get("jumpBack"), "lateChange": post["ghost"].get("lateChange"), "disSup": post["ghost"].get("disSup"), "supBack": post["ghost"].get("supBack"), "midSwitch": post["ghost"].get("midSwitch"),
        "planEdited": bool(pre["used"].get("user.editplan")), "pre_hashOk": pre["ro"].get("hashOk"),
        "workloadObserved": pre["wl"].get("genOk"), "post_inprog": bool(post["wl"].get("inprog")), "pre_fstep": pre["ro"].get("fstep", ""),
        "rev": post["user"].get("rev"),
    }


def run_cfg(item):
    cfgname, faults, max_states = item["cfg"], item.get("faults", ""), item.get("max_states", 200000)
    t0 = time.time()
    prefix, meta = vlib.explore(cfgname, faults=faults, max_states=max_states, depth=item.get("depth", 0))
    res = vlib.validate_trace(prefix)
    return cfgname, prefix, meta, res, time.time() - t0


def check(prop, tier):
    t0 = time.time()
    vlib.build_harness()
    items = _cfgs(prop, tier)
    names = NAMES[prop]
    results = []
    with concurrent.futures.ThreadPoolExecutor(max_workers=min(8, max(1, len(items)))) as ex:
        for r in ex.map(run_cfg, items):
            results.append(r)
    violations, known, drift, unmodelled = [], [], 0, 0
    total_states = total_trans = 0
    counts = {}
    samples = []
    cfg_cov = []
    aliasing = 0
    panics = 0
    seen_sig = set()
    for cfgname, prefix, meta, res, wall in results:
        total_states += meta["states"]
        total_trans += meta["transitions"]
        aliasing += meta.get("aliasing", 0)
        panics += meta.get("panics", 0)
        drift += len(res["drift"])
        unmodelled += len(res["unmodelled"])
        for k, v in res["counts"].items():
            if names is None or k in names:
                counts[k] = counts.get(k, 0) + v
        cfg_cov.append({"cfg": cfgname, "states": meta["states"], "transitions": meta["transitions"], "truncated": meta["truncated"],
                        "actions": meta["actions"], "aliasing": meta.get("aliasing", 0), "drift": len(res["drift"]),
                        "unmodelled": len(res["unmodelled"]), "wall_s": round(wall, 1)})
        run = None
        for line, bad in res["bad"]:
            mine = [n for n in bad if names is None or n in names]
            if not mine:
                continue
            if run is None:
                run = vlib.Run(prefix)
            t = run.trans[line - 1]
            if prop == "C06" and not t["fault"] and not run.state(t["pre"])["used"].get("fault"):
                continue  # C06 speaks about disturbed histories only
            pre, post = run.state(t["pre"]), run.state(t["post"])
            for n in mine:
                sig = signature(n, t, pre, post)
                key = json.dumps(sig, sort_keys=True)
                if key in seen_sig:
                    continue
                seen_sig.add(key)
                path = run.path_to(t["pre"]) + [t["act"]]
                ok, got = vlib.replay_check(cfgname, path, post)
                if not ok:
                    raise Inconclusive("counterexample for %s did not replay deterministically (cfg %s, path %s)" % (n, cfgname, path))
                payload = {"property": prop, "predicate": n, "cfg": cfgname, "path": path, "signature": sig,
                           "pre": {k: pre[k] for k in ("ro", "br", "wl", "net", "user", "plan")},
                           "post": {k: post[k] for k in ("ro", "br", "wl", "net", "user", "plan")}, "writes": t["writes"], "panic": t["panic"]}
                kf = vlib.match_known(prop, sig)
                if not kf and prop == "C06":
                    # C06 evaluates every predicate on disturbed histories: a finding listed under the predicate's own
                    # property is the same finding here
                    for owner, ns in NAMES.items():
                        if ns and n in ns:
                            kf = vlib.match_known(owner, sig)
                            break
                if kf:
                    known.append((kf, payload))
                else:
                    violations.append(payload)
        if run is None and len(samples) < 3:
            run = vlib.Run(prefix)
        if run is not None and len(samples) < 3 and run.trans:
            t = run.trans[min(len(run.trans) - 1, 50)]
            samples.append({"cfg": cfgname, "path": run.path_to(t["pre"]), "act": t["act"], "writes": t["writes"]})
    model = closed_model_check(prop, tier)
    c06 = {}
    if prop == "C06":
        c06 = c06_finals(results, violations, known)
    live = []
    if prop == "C07":
        live = c07_liveness(results, violations, known)
    fn_cov = []
    import fnlevel
    for dn in EXTRA_FN.get(prop, []):
        d = dict(fnlevel.descriptors()[dn])
        if (prop, dn) in EXTRA_FN_NAMES:
            d["names"] = EXTRA_FN_NAMES[(prop, dn)]
        v, k, c = fnlevel.run_descriptor(d, tier, prop)
        for payload in v:
            violations.append({"property": prop, "predicate": payload["predicate"], "cfg": "fn:" + dn, "path": ["case %d" % payload["case"]["id"]],
                               "signature": payload["signature"], "case": payload["case"]})
        known += k
        fn_cov.append({x: c[x] for x in c if x != "samples"})
    seen_kf = {}
    for kf, payload in known:
        seen_kf.setdefault(kf["id"], [kf, 0])[1] += 1
    for kid, (kf, n) in seen_kf.items():
        log("KNOWN-FINDING: property=%s %s [%s, %d distinct signatures]" % (prop, kf["what"], kid, n))
    rc = 0
    shown = {}
    for payload in violations:
        rc = 1
        shown[payload["predicate"]] = shown.get(payload["predicate"], 0) + 1
        if shown[payload["predicate"]] > 5:
            continue  # at most five distinct signatures per predicate are printed; the count is in the evidence
        p = vlib.write_replay(prop, payload)
        log("VIOLATION property=%s replay=%s" % (prop, p))
        log("  predicate %s cfg %s after %s : %s" % (payload["predicate"], payload["cfg"], ",".join(payload["path"][-6:]), json.dumps(payload["signature"])))
    for n, c in shown.items():
        if c > 5:
            log("  … %d further distinct signatures of predicate %s not printed" % (c - 5, n))
    exercised = sum(1 for v in counts.values() if v > 0)
    cov = {
        "states": max(1, model.get("states", 0)), "transitions": max(1, model.get("transitions", 0)),
        "traces_validated_against_impl": total_trans,
        "samples": samples or [{"note": "no transitions"}],
        "impl_distinct_states": total_states, "impl_transitions": total_trans,
        "evaluations": total_trans, "distinct_nontrivial": sum(counts.values()),
        "rule": "one evaluation = one transition of the real controllers recorded by the explorer and validated by TLC; "
                "non-trivial = the antecedent of one of this property's predicates held on it (counted by TLC, per predicate in predicate_hits)",
        "predicate_hits": counts, "predicates_exercised": exercised, "configs": cfg_cov,
        "drift": drift, "unmodelled": unmodelled, "aliasing": aliasing, "real_panics": panics,
        "model_check": model, "function_level": fn_cov, "final_state_equality": c06, "liveness_on_impl_graph": live, "known_findings_reported": [k["id"] for k, _ in known],
        "exhaustive": all(not c["truncated"] for c in cfg_cov),
    }
    vlib.write_evidence(prop, tier, "model_checking", cov, time.time() - t0, len(violations), ASSUMPTIONS)
    if drift or unmodelled:
        log("DRIFT property=%s: %d real transitions not explained by the model, %d not modelled (no property violated)" % (prop, drift, unmodelled))
    log("property %s: %d real transitions validated, %d distinct real states, predicate hits %s" % (prop, total_trans, total_states, json.dumps(counts)))
    return rc


def final_view(st):
    """What 'the same final cluster state' compares: everything but history, budgets and in-memory state."""
    return json.dumps({"ro": {k: st["ro"][k] for k in ("exists", "phase", "reason", "succeeded", "step", "state")},
                       "br": st["br"]["exists"], "wl": {k: v for k, v in st["wl"].items() if k not in ("lab", "labelled")},
                       "net": st["net"], "user": st["user"]}, sort_keys=True)


def is_terminal_quiet(st):
    ro = st["ro"]
    term = (not ro["exists"]) or ro["phase"] == "Disabled" or (ro["phase"] == "Healthy" and ro["reason"] == "Completed")
    return term and st["quiet"] and st["user"]["rev"] >= 2 and not st["mem"]["gf"]


def c06_finals(results, violations, known):
    """C06: every terminal quiescent state reached after an injected crash / API fault equals a terminal
    quiescent state of the undisturbed exploration of the same configuration."""
    base, faulty = {}, {}
    for cfgname, prefix, meta, res, wall in results:
        run = vlib.Run(prefix)
        run.state(1)
        fin = {}
        for sid, st in run._states.items():
            if is_terminal_quiet(st):
                fin.setdefault(final_view(st), sid)
        (faulty if any(t["fault"] for t in run.trans[:2000]) or "f%s" % "all" in prefix or "fcrash" in prefix else base)[cfgname] = (fin, run)
    out = {}
    for cfgname, (fin, run) in faulty.items():
        if cfgname not in base:
            continue
        ok = set(base[cfgname][0].keys())
        extra = [v for v in fin if v not in ok]
        out[cfgname] = {"finals_undisturbed": len(ok), "finals_after_fault": len(fin), "not_in_undisturbed": len(extra)}
        # C06reach: re-running from any state reached under fault injection can still END in one of the undisturbed
        # final states (backward reachability from them over the recorded real graph): a fault must not leave the
        # controllers in a loop or a dead end from which no final state of the fault-free runs is reachable.
        meta = next((m for c, _, m, _, _ in results if c == cfgname and m is not None and _ is not None), None)
        truncated = any(m.get("truncated") for c, pfx, m, _, _ in results if c == cfgname and pfx == run.prefix)
        if not truncated:
            good = {sid for sid, st in run._states.items() if is_terminal_quiet(st) and final_view(st) in ok}
            rev = {}
            for t in run.trans:
                rev.setdefault(t["post"], set()).add(t["pre"])
            seen, todo = set(good), list(good)
            while todo:
                x = todo.pop()
                for y in rev.get(x, ()):
                    if y not in seen:
                        seen.add(y)
                        todo.append(y)
            nodes = {t["pre"] for t in run.trans} | {t["post"] for t in run.trans}
            lost = sorted(n for n in nodes if n not in seen)
            out[cfgname]["states_that_cannot_reach_an_undisturbed_final"] = len(lost)
            if lost:
                sid = lost[0]
                sig = {"name": "C06reach", "cfg": cfgname}
                payload = {"property": "C06", "predicate": "C06reach", "cfg": cfgname, "path": run.path_to(sid), "signature": sig,
                           "lost_states": len(lost)}
                kf = vlib.match_known("C06", sig)
                if kf:
                    known.append((kf, payload))
                else:
                    violations.append(payload)
        for v in extra[:5]:
            sid = fin[v]
            path = run.path_to(sid)
            sig = {"name": "C06final", "cfg": cfgname}
            payload = {"property": "C06", "predicate": "C06final", "cfg": cfgname, "path": path, "signature": sig, "final": json.loads(v)}
            kf = vlib.match_known("C06", sig)
            if kf:
                known.append((kf, payload))
            else:
                violations.append(payload)
    return out


def c07_liveness(results, violations, known):
    """C07: TLC checks Termination (under weak fairness of controllers, environment, time, release and
    approvals) on the transition graph recorded from the REAL code under queue discipline."""
    import re
    import shutil
    out = []
    for cfgname, prefix, meta, res, wall in results:
        cfg, _ = vlib.load_cfg(cfgname)
        if not cfg.get("queue") or meta["truncated"]:
            continue
        cached = prefix + ".live.json"
        if os.path.exists(cached):
            r = json.load(open(cached))
        else:
            wd = vlib.scratch("live-%s-%d" % (cfgname, os.getpid()))
            t0 = time.time()
            nstates = sum(1 for _ in open(prefix + ".states"))
            outs = {}
            for line in open(prefix + ".trans"):
                t = json.loads(line)
                if not t["fault"]:
                    outs.setdefault(t["pre"], []).append({"a": t["base"], "p": t["post"]})
            adj = os.path.join(wd, "adj.ndjson")
            with open(adj, "w") as f:
                for i in range(1, nstates + 1):
                    f.write(json.dumps({"id": i, "out": outs.get(i, [])}) + "\n")
            rc, txt = vlib.tlc("RolloutsImplGraph.tla", "RolloutsImplGraph.cfg", wd, env={"VERIF_STATES": prefix + ".states", "VERIF_ADJ": adj},
                               workers=4, timeout=3000, heap="10g")
            shutil.rmtree(wd, ignore_errors=True)
            m = re.search(r"(\d+) states generated, (\d+) distinct states found", txt)
            r = {"cfg": cfgname, "rc": rc, "wall_s": round(time.time() - t0, 1), "violated": "Temporal property Termination was violated" in txt}
            if m:
                r["transitions"], r["states"] = int(m.group(1)), int(m.group(2))
            if r["violated"]:
                curs = [int(x) for x in re.findall(r"/\\ cur = (\d+)", txt)]
                acts = re.findall(r'/\\ act = "([^"]*)"', txt)
                r["lasso_states"], r["lasso_acts"] = curs, acts
            elif rc != 0 or "Error:" in txt or not m:
                raise Inconclusive("TLC liveness run failed for %s:\n%s" % (cfgname, txt[-3000:]))
            json.dump(r, open(cached, "w"))
        out.append({k: v for k, v in r.items() if k not in ("lasso_states",)})
        if r.get("violated"):
            run = vlib.Run(prefix)
            first = r["lasso_states"][0] if r.get("lasso_states") else 1
            acts = [a for a in r.get("lasso_acts", []) if a != "init"]
            sig = {"name": "C07live", "cfg": cfgname}
            payload = {"property": "C07", "predicate": "C07live", "cfg": cfgname, "path": acts, "signature": sig,
                       "note": "fair non-terminating behaviour of the real controllers (TLC lasso over the recorded implementation graph)"}
            kf = vlib.match_known("C07", sig)
            (known if kf else violations).append((kf, payload) if kf else payload)
    return out


def _mc_one(cfgname):
    """Exhaustive TLC run of the closed-loop model from the configuration's own initial state."""
    import re
    import shutil
    import subprocess
    exe = vlib.build_harness()
    _, cfgpath = vlib.load_cfg(cfgname)
    key = os.path.join(vlib.BUILD, "cache", "%s-mc-%s.json" % (vlib.tree_hash(), cfgname))
    if os.path.exists(key):
        return json.load(open(key))
    wd = vlib.scratch("mc-%s-%d" % (cfgname, os.getpid()))
    r = subprocess.run([exe, "-mode", "init", "-cfg", cfgpath], cwd=vlib.REPO, stdout=subprocess.PIPE, stderr=subprocess.DEVNULL, text=True, timeout=300)
    if r.returncode != 0:
        raise Inconclusive("explore -mode init failed for %s" % cfgname)
    open(os.path.join(wd, "init.json"), "w").write(r.stdout.strip().splitlines()[-1] + "\n")
    t0 = time.time()
    rc, out = vlib.tlc("MC_Rollouts.tla", "MC_closed.cfg", wd, env={"VERIF_INIT": os.path.join(wd, "init.json"), "VERIF_DUMP": "0"},
                       workers=4, timeout=3000, heap="8g")
    m = re.search(r"(\d+) states generated, (\d+) distinct states found", out)
    res = {"cfg": cfgname, "rc": rc, "wall_s": round(time.time() - t0, 1)}
    if m:
        res["transitions"], res["states"] = int(m.group(1)), int(m.group(2))
    shutil.rmtree(wd, ignore_errors=True)
    if rc != 0 or "Error:" in out or not m:
        raise Inconclusive("model check of the closed-loop specification failed for %s (a model-only counterexample is never a verdict; "
                           "the model or the property formulation must be corrected):\n%s" % (cfgname, out[-4000:]))
    json.dump(res, open(key + ".tmp", "w"))
    os.replace(key + ".tmp", key)
    return res


def closed_model_check(prop, tier, items=None):
    """TLC explores the closed-loop model exhaustively for every configuration of the property (same initial
    state, alphabet and budgets as the real-code exploration) with all invariants and action properties."""
    items = items or _cfgs(prop, tier)
    names = sorted(set(i["cfg"] for i in items if not i.get("nomodel")))
    out = []
    with concurrent.futures.ThreadPoolExecutor(max_workers=4) as ex:
        for r in ex.map(_mc_one, names):
            out.append(r)
    return {"module": "MC_Rollouts.tla", "cfg": "MC_closed.cfg", "runs": out,
            "states": sum(r.get("states", 0) for r in out), "transitions": sum(r.get("transitions", 0) for r in out)}


def replay(prop, path):
    payload = json.load(open(path))
    ok, got = vlib.replay_check(payload["cfg"], payload["path"], None)
    log("replayed %s on the current tree: final state %s" % (path, json.dumps(got)[:2000]))
    return 0
