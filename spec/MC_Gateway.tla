----------------------------- MODULE MC_Gateway -----------------------------
(* Exhaustive check of the reference definitions of Gateway.tla against the property predicates
   G1-G5: every user route of up to MaxRules rules over the rule alphabet below, every sequence of
   up to MaxSteps steps (weights 0/50/100, match lists of 1-2 matches over the kinds Kinds (path / header / query /
   path+header) in every order, values depending on the position), followed by Finalise. One TLC state per
   (route, history); `pre` is the route before the last operation `op`. *)
EXTENDS Gateway, TLC
CONSTANTS MaxRules, MaxSteps, Kinds   \* Kinds \subseteq {"P", "H", "Q", "PH"}
VARIABLES orig, pre, cur, op, n
vars == <<orig, pre, cur, op, n>>

R(kind, name, w) == [kind |-> kind, name |-> name, weight |-> w, rest |-> ""]
M(path, hs, qs)  == [path |-> path, headers |-> hs, queries |-> qs, rest |-> ""]

MatchShapes ==
  { <<M("PathPrefix:/", <<>>, <<>>)>>,
    <<M("PathPrefix:/a", <<"own=1">>, <<>>)>>,
    <<M("Exact:/b", <<>>, <<>>), M("PathPrefix:/c", <<>>, <<"own=1">>)>> }

\* <<backends, filters>>
BackendShapes ==
  { <<<<R("Service", "stable", 1)>>, <<>>>>,
    <<<<R("Service", "stable", 50)>>, <<"tag">>>>,
    <<<<R("Service", "other", 50), R("Service", "stable", 50)>>, <<>>>>,
    <<<<R("Service", "stable", 1), R("ServiceImport", "stable", 1)>>, <<"tag">>>>,
    <<<<R("Service", "other", 1)>>, <<"tag">>>>,
    <<<<R("ServiceImport", "stable", 1)>>, <<>>>>,
    <<<<>>, <<"redirect">>>> }

Rules == {[matches |-> m, filters |-> b[2], backends |-> b[1]] : m \in MatchShapes, b \in BackendShapes}

Routes == UNION {[1..k -> Rules] : k \in 1..MaxRules}

PathAt  == <<"Exact:/canary1", "Exact:/canary2">>
HdrAt   == <<"x-canary=1", "x-canary=2">>
QueryAt == <<"canary=1", "canary=2">>
UM(kind, p) ==
  CASE kind = "P" -> M(PathAt[p], <<>>, <<>>)
    [] kind = "H" -> M("", <<HdrAt[p]>>, <<>>)
    [] kind = "Q" -> M("", <<>>, <<QueryAt[p]>>)
    [] kind = "PH" -> M(PathAt[p], <<HdrAt[p]>>, <<>>)
MatchLists == {<<UM(a, 1)>> : a \in Kinds} \cup {<<UM(a, 1), UM(b, 2)>> : a \in Kinds, b \in Kinds}

Steps == {[kind |-> "W", w |-> w, matches |-> <<>>] : w \in {0, 50, 100}}
           \cup {[kind |-> "M", w |-> -1, matches |-> l] : l \in MatchLists}
NoOp == [kind |-> "I", w |-> -1, matches |-> <<>>]
FOp  == [kind |-> "F", w |-> -1, matches |-> <<>>]

Init == orig \in Routes /\ pre = orig /\ cur = orig /\ op = NoOp /\ n = 0
Next ==
  \/ /\ op.kind # "F" /\ n < MaxSteps
     /\ \E s \in Steps : pre' = cur /\ cur' = RefStep(cur, s) /\ op' = s
     /\ n' = n + 1 /\ UNCHANGED orig
  \/ /\ op.kind # "F"
     /\ pre' = cur /\ cur' = RefFinalise(cur, orig) /\ op' = FOp
     /\ UNCHANGED <<orig, n>>
Spec == Init /\ [][Next]_vars

InvG1 == op.kind = "W" => G1(pre, cur, op.w)
InvG2 == op.kind = "M" => G2(pre, cur, op.matches)
InvG3 == G3(orig, cur)
InvG4 == op.kind = "F" => G4clean(orig, cur) /\ G4kept(orig, cur) /\ G4split(orig, cur)
\* fixed point: applying the same operation again changes nothing
InvG5 == /\ op.kind \in {"W", "M"} => RefStep(cur, op) = cur
         /\ op.kind = "F" => RefFinalise(cur, orig) = cur
=============================================================================
