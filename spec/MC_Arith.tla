------------------------------ MODULE MC_Arith ------------------------------
(* Exhaustive check of the arithmetic lemmas of Arith.tla on the reference definitions:
   one TLC state per (R, step) of the bounded domain. *)
EXTENDS Arith, TLC
CONSTANT RMax
VARIABLES R, st
StepDomain(r) == [rep : {-1}, pct : 0..100, is100 : {FALSE}] \cup [rep : 0..(r + 2), pct : {-1}, is100 : {FALSE}]
Fix(s) == [s EXCEPT !.is100 = (s.pct = 100)]
Init == R \in 1..RMax /\ st \in {Fix(s) : s \in StepDomain(RMax)}
Next == UNCHANGED <<R, st>>
Spec == Init /\ [][Next]_<<R, st>>
Lemma == (st.rep <= R + 2) => LemmaCloneSetKnob(st, R)
=============================================================================
