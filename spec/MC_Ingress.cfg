SPECIFICATION Spec
INVARIANT MI1
INVARIANT MI2
INVARIANT MI5
INVARIANT MIkeys
PROPERTY MI3
PROPERTY MI4
CHECK_DEADLOCK FALSE
