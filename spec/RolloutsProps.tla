---------------------------- MODULE RolloutsProps ----------------------------
(***************************************************************************)
(* The listed properties C01-C07, C09-C11, C18 of Kruise Rollouts, written *)
(* once, over the abstract state record `s` and over transitions           *)
(* (p, t, q): p = state before, q = state after, t = what happened         *)
(* (t.base: acting party, t.fault: injected fault, t.panic, t.crashed).    *)
(*                                                                         *)
(* Exactly the same operators are                                          *)
(*   - invariants / action properties of the closed-loop model             *)
(*     (Rollouts.tla, checked exhaustively by TLC), and                    *)
(*   - the oracle evaluated by TLC on every transition recorded from the   *)
(*     REAL controllers (RolloutsTrace.tla).                               *)
(*                                                                         *)
(* Abstract state (computed from the Kubernetes objects by the harness     *)
(* projection, harness/sim/project.go, or produced by the model):          *)
(*   s.user  what the user asked for (rev, paused, disabled, deleted)      *)
(*   s.plan  steps of the Rollout: [rep, pct, traffic, match, pause,is100] *)
(*   s.ro    Rollout status cursor and conditions                          *)
(*   s.br    BatchRelease spec/status                                      *)
(*   s.wl    workload: size, revisions, pods n/rd per revision, knob       *)
(*   s.net   Services and gateway objects (what they configure)            *)
(*   s.mem   in-memory grace expectations                                  *)
(*   s.ghost history: readySteps, origOk, created                          *)
(***************************************************************************)
EXTENDS Arith

NPlan(s) == Len(s.plan)

Ctrl(t) == t.base \in {"ro", "br", "tr", "dp"}

InProgress(s) ==
  /\ s.ro.exists
  /\ s.ro.phase = "Progressing"
  /\ s.ro.reason \in {"Initializing", "InRolling", "Paused"}

Rolling(s) == s.ro.exists /\ s.ro.phase = "Progressing" /\ s.ro.reason \in {"InRolling", "Paused"}

HasTraffic(st) == st.traffic >= 0 \/ st.match # ""

\* the natural successor index of step k (util.NextBatchIndex)
NextIdx(s, k) == IF k >= NPlan(s) THEN -1 ELSE k + 1

(***************************************************************************)
(* Exposure: how many new-revision pods the workload controller is allowed *)
(* to run, derived from the knob with the workload's own rounding.         *)
(***************************************************************************)
Asked(wl) ==
  IF ~wl.exists THEN 0
  ELSE CASE wl.style = "partition" /\ wl.kind \in {"CloneSet", "StatefulSet", "AdvStatefulSet", "DaemonSet"} ->
              IF wl.paused /\ wl.ktype # "none" THEN wl.n[wl.updRev] \* paused: nothing more than what runs already
              ELSE AskedCloneSet(wl.ktype, wl.kval, wl.R)
         [] OTHER -> wl.asked          \* other kinds: computed by the kind-specific projection

UpdatedPods(s)      == IF s.wl.updRev \in 1..3 THEN s.wl.n[s.wl.updRev] ELSE 0
UpdatedReadyPods(s) == IF s.wl.updRev \in 1..3 THEN s.wl.rd[s.wl.updRev] ELSE 0
PodsAt(s, r)        == IF r \in 1..3 THEN s.wl.n[r] ELSE 0

RollbackSeen(s)   == s.user.rolledBack
Superseded(s)     == s.ro.exists /\ s.ro.canaryRev # 0 /\ s.wl.exists /\ s.wl.specRev # s.ro.canaryRev /\ ~s.user.rolledBack
RevisionMoved(p, q) == p.ro.canaryRev # q.ro.canaryRev \/ p.wl.specRev # q.wl.specRev \/ p.wl.updRev # q.wl.updRev

(***************************************************************************)
(* C01 - pod exposure never exceeds what the current step allows           *)
(***************************************************************************)
\* a BatchRelease reconcile that raises the exposure stays within the batch its partition authorises
C01a_A(p, t, q) ==
  (/\ t.base = "br" /\ p.wl.exists /\ q.wl.exists
   /\ q.br.exists /\ q.br.partition >= 0
   /\ Asked(q.wl) > Asked(p.wl))
C01a(p, t, q) ==
  C01a_A(p, t, q)
  => LET b == Min(q.br.partition, Len(q.br.plan) - 1) + 1
     IN  /\ b \in 1..Len(q.br.plan)
         /\ WithinSlack(Asked(q.wl), q.br.plan[b], q.wl.R)

\* the Rollout controller itself never touches the knob
C01ro_A(p, t, q) == t.base = "ro" /\ p.wl.exists /\ q.wl.exists
C01ro(p, t, q) == C01ro_A(p, t, q) => Asked(q.wl) = Asked(p.wl)

\* the knob never moves back toward the old revision while the release moves forward
C01b_A(p, t, q) ==
  (/\ t.base = "br" /\ Rolling(p) /\ Rolling(q)
   /\ p.wl.exists /\ q.wl.exists
   /\ p.br.exists /\ q.br.exists /\ p.br.phase = "Progressing" /\ q.br.phase = "Progressing"
   /\ ~RollbackSeen(p) /\ ~Superseded(p) /\ ~p.br.rollbackAnno)
C01b(p, t, q) ==
  C01b_A(p, t, q)
  => Asked(q.wl) >= Asked(p.wl)

\* the Rollout authorises exactly step-1 and gives the BatchRelease its own plan
C01c_A(p, t, q) ==
  (/\ t.base = "ro" /\ q.br.exists /\ q.br.partition >= 0
   /\ (~p.br.exists \/ p.br.partition # q.br.partition))
C01c(p, t, q) ==
  C01c_A(p, t, q)
  => /\ q.ro.hasSub
     /\ q.br.partition = q.ro.step - 1 \/ q.br.partition = p.ro.step - 1

(***************************************************************************)
(* C02 - steps are gated                                                   *)
(***************************************************************************)
BRReadyFor(s, k) ==
  /\ s.br.exists /\ ~s.br.deleting
  /\ s.br.planOk
  /\ s.br.partition = k - 1
  /\ s.br.obsGenOk /\ s.br.hashOk
  /\ s.br.phase = "Progressing"
  /\ s.br.bstate = "Ready"
  /\ s.br.batch + 1 >= k

\* a partition-style step that replaces every stable pod (ingress-nginx 9635 bypass)
FullPartitionStep(s, k) ==
  /\ k \in 1..NPlan(s)
  /\ s.wl.exists /\ s.wl.style = "partition"
  /\ (IF IsPct(s.plan[k]) THEN ScaledUp(s.plan[k].pct, s.wl.R) ELSE s.plan[k].rep) >= s.wl.R

CanaryServiceGenerated(s) == s.net.hasSvc /\ ~s.net.noCanarySvc

ShareIs(net, st) ==
  /\ (net.provIngress =>
        \* no canary Ingress at all is a canary share of exactly 0
        \/ (st.traffic = 0 /\ st.match = "" /\ ~net.ing)
        \/ /\ net.ing
           /\ (st.traffic >= 0 => net.ingWeight = st.traffic)
           /\ (st.match # "" => net.ingMatch # ""))
  /\ (net.provGateway =>
        /\ net.route
        /\ (st.traffic >= 0 /\ st.match = "" => net.rtCanaryW = st.traffic /\ net.rtStableW = 100 - st.traffic)
        /\ (st.match # "" => (net.rtGenRules > 0 /\ net.rtMatch = st.match)))

RoutedFor(s, k) ==
  /\ ShareIs(s.net, s.plan[k])
  /\ (CanaryServiceGenerated(s) =>
        /\ s.net.canarySvc /\ s.net.canarySel = s.ro.podHash /\ s.ro.podHash # 0
        /\ s.net.stableSel = s.ro.stableRev /\ s.ro.stableRev # 0)

PauseSatisfied(s, k) ==
  \/ (k = NPlan(s) /\ s.plan[k].is100 /\ s.wl.style # "bluegreen")
  \/ (s.plan[k].pause = 0)
  \/ (s.plan[k].pause = 1 /\ ~s.ro.fresh)

UserJump(s) == s.ro.next > 0 /\ s.ro.next # NextIdx(s, s.ro.step)
PlanEdited(s) == s.ro.hashSet /\ ~s.ro.hashOk

Sigma(s) == <<s.ro.step, s.ro.state>>

\* the persisted step cursor changes only along the gated edges
C02_A(p, t, q) ==
  (/\ t.base = "ro" /\ p.ro.exists /\ q.ro.exists
   /\ p.ro.phase = "Progressing" /\ q.ro.phase = "Progressing"
   /\ p.ro.reason = "InRolling" /\ q.ro.reason \in {"InRolling", "Paused", "Finalising"}
   /\ p.ro.hasSub /\ q.ro.hasSub
   /\ Sigma(p) # Sigma(q))
C02(p, t, q) ==
  C02_A(p, t, q)
  => LET k == p.ro.step  a == p.ro.state  j == q.ro.step  b == q.ro.state IN
     \/ UserJump(p) /\ j = p.ro.next /\ b \in {"BeforeStepUpgrade", "StepTrafficRouting"}
     \/ PlanEdited(p)
     \/ RollbackSeen(p) /\ j = 1 /\ b = "BeforeStepUpgrade"
     \/ /\ j = k /\ k \in 1..NPlan(p)
        /\ \/ a = "BeforeStepUpgrade" /\ b = "StepUpgrade"
           \/ a \in {"BeforeStepUpgrade", "StepUpgrade"} /\ b = "StepTrafficRouting" /\ BRReadyFor(p, k)
           \/ a \in {"BeforeStepUpgrade", "StepUpgrade"} /\ b = "StepMetricsAnalysis" /\ BRReadyFor(p, k) /\ FullPartitionStep(p, k)
           \/ a = "StepTrafficRouting" /\ b = "StepMetricsAnalysis"
           \/ a = "StepMetricsAnalysis" /\ b = "StepPaused"
           \/ a = "StepPaused" /\ b = "StepReady" /\ PauseSatisfied(p, k)
           \/ a = "StepReady" /\ b = "Completed" /\ k = NPlan(p)
     \/ a = "StepReady" /\ j = k + 1 /\ k < NPlan(p) /\ b = "BeforeStepUpgrade"

\* a plan edit that leaves the current step able to cover what has been released does not request a step change:
\* the controller re-runs the current step (so its pause still has to be satisfied), it never moves on
RawReplicas(st, R) == IF IsPct(st) THEN ScaledUp(st.pct, R) ELSE st.rep
C02edit_A(p, t, q) ==
  (/\ t.base = "ro" /\ p.ro.exists /\ q.ro.exists /\ p.ro.hasSub /\ q.ro.hasSub
   /\ p.ro.phase = "Progressing" /\ p.ro.reason = "InRolling" /\ q.ro.reason = "InRolling"
   /\ PlanEdited(p) /\ ~UserJump(p) /\ ~p.user.paused /\ ~RollbackSeen(p) /\ ~Superseded(p)
   /\ p.wl.exists /\ p.wl.genOk /\ p.ro.state # "Completed"
   /\ p.br.exists /\ p.br.partition >= 0 /\ p.br.partition + 1 <= Len(p.br.plan)
   /\ p.ro.step \in 1..NPlan(p)
   /\ RawReplicas(p.br.plan[p.br.partition + 1], p.wl.R) <= RawReplicas(p.plan[p.ro.step], p.wl.R))
C02edit(p, t, q) ==
  C02edit_A(p, t, q) => (q.ro.step = p.ro.step /\ q.ro.state \in {"BeforeStepUpgrade", "StepUpgrade", "StepTrafficRouting"})

\* the natural advance from step k to k+1 happens only after step k's batch, under the CURRENT plan and revision, has been
\* reported ready by the BatchRelease: some batch reported Ready called for at least as many new-revision pods as step k of
\* the current plan does (ghost.readyRepl, reset when the revision or the workload size changes)
C02adv_A(p, t, q) ==
  (/\ t.base = "ro" /\ p.ro.exists /\ q.ro.exists /\ p.ro.hasSub /\ q.ro.hasSub
   /\ p.ro.phase = "Progressing" /\ p.ro.reason = "InRolling" /\ q.ro.reason = "InRolling"
   /\ p.ro.state = "StepReady"
   /\ \/ q.ro.step = p.ro.step + 1 /\ q.ro.state = "BeforeStepUpgrade"
      \/ q.ro.step = p.ro.step /\ q.ro.state = "Completed"            \* the last step is left the same way
   /\ ~UserJump(p) /\ ~PlanEdited(p) /\ ~RollbackSeen(p) /\ ~Superseded(p)
   /\ p.wl.exists /\ p.wl.R > 0)
C02adv(p, t, q) ==
  C02adv_A(p, t, q) => p.ghost.readyRepl >= PlannedOf(p.plan[p.ro.step], p.wl.R)

\* while the rollout is marked paused the Rollout controller makes no forward progress
C02pause_A(p, t, q) ==
  (/\ t.base = "ro" /\ p.user.paused /\ Rolling(p) /\ q.ro.exists
   /\ ~(RollbackSeen(p) /\ p.ro.reason = "InRolling"))
C02pause(p, t, q) ==
  C02pause_A(p, t, q)
  => /\ (q.ro.hasSub /\ p.ro.hasSub => Sigma(q) = Sigma(p))
     /\ q.ro.reason \in {"InRolling", "Paused"}
     /\ q.br.exists = p.br.exists /\ q.br.partition = p.br.partition
     /\ q.net = p.net

\* promotion of the remaining pods only after the last step completed (or on the exit paths)
C02promote_A1(p, t, q) == t.base = "ro" /\ p.br.exists /\ q.br.exists /\ p.br.partition >= 0 /\ q.br.partition = -1
C02promote_A2(p, t, q) == t.base = "ro" /\ q.ro.exists /\ q.ro.reason = "Finalising" /\ p.ro.reason # "Finalising"
C02promote_A(p, t, q) == C02promote_A1(p, t, q) \/ C02promote_A2(p, t, q)
C02promote(p, t, q) ==
  /\ C02promote_A1(p, t, q)
       => (p.ro.reason \in {"Finalising", "Cancelling"} \/ p.ro.phase \in {"Disabling", "Terminating"})
  /\ C02promote_A2(p, t, q)
       => (p.ro.reason = "InRolling" /\ p.ro.state = "Completed")

(***************************************************************************)
(* C03 - traffic follows pods                                              *)
(***************************************************************************)
CanaryShare(net) ==     \* "none" when nothing is routed to the canary
  IF net.ing /\ (net.ingWeight > 0 \/ net.ingMatch # "") THEN <<"ing", net.ingWeight, net.ingMatch>>
  ELSE IF net.route /\ (net.rtCanaryW > 0 \/ net.rtGenRules > 0) THEN <<"route", net.rtCanaryW, net.rtGenRules>>
  ELSE <<"none">>

SameReplicas(a, b) == a.rep = b.rep /\ a.pct = b.pct

\* a canary share is written only after that step's pods were reported ready
C03a_A(p, t, q) ==
  (/\ t.base \in {"ro", "tr"} /\ q.ro.exists /\ q.ro.hasSub
   /\ q.ro.phase = "Progressing" /\ q.ro.reason = "InRolling"
   /\ CanaryShare(q.net) # CanaryShare(p.net) /\ CanaryShare(q.net) # <<"none">>)
C03a(p, t, q) ==
  C03a_A(p, t, q)
  => LET k == q.ro.step IN
     /\ k \in 1..NPlan(q)
     /\ \E j \in 1..NPlan(q) :
          /\ \E i \in 1..Len(p.ghost.readySteps) : p.ghost.readySteps[i] = j
          /\ (j >= k \/ SameReplicas(q.plan[j], q.plan[k]))

\* when the step is reported as routed, the gateway share equals exactly the step's value
C03b_A(p, t, q) ==
  (/\ t.base = "ro" /\ p.ro.exists /\ q.ro.exists /\ p.ro.hasSub /\ q.ro.hasSub
   /\ p.ro.reason = "InRolling"
   /\ p.ro.state = "StepTrafficRouting" /\ q.ro.state = "StepMetricsAnalysis" /\ p.ro.step = q.ro.step
   /\ q.ro.step \in 1..NPlan(q) /\ HasTraffic(q.plan[q.ro.step]) /\ q.net.hasSvc
   \* a partition-style step that replaces every stable pod is not routed at all (the documented ingress-nginx
   \* bypass; since FX-C04-traffic-routing-at-full-replacement-step also when entered by a jump / plan change)
   /\ ~FullPartitionStep(q, q.ro.step))
C03b(p, t, q) ==
  C03b_A(p, t, q)
  => RoutedFor(q, q.ro.step)

\* the stable Service is pinned before the first step's pods are created
C03c_A(p, t, q) ==
  (/\ Ctrl(t) /\ InProgress(q) /\ q.ro.hasSub /\ q.ro.step = 1 /\ NPlan(q) >= 1
   /\ HasTraffic(q.plan[1]) /\ CanaryServiceGenerated(q)
   /\ p.wl.exists /\ q.wl.exists /\ Asked(p.wl) = 0 /\ Asked(q.wl) > 0)
C03c(p, t, q) ==
  C03c_A(p, t, q)
  => (p.net.stableSel = p.ro.stableRev /\ p.ro.stableRev # 0)

(***************************************************************************)
(* C04 - no request is routed into a void (state invariants, evaluated     *)
(* after every single write: on every post state and every mid state)     *)
(***************************************************************************)
RoutesToCanary(net) == CanaryShare(net) # <<"none">>

\* a gateway rule that sends traffic to the canary Service implies the canary Service exists and
\* selects the revision being released
C04a_A(s) == RoutesToCanary(s.net) /\ CanaryServiceGenerated(s) /\ s.wl.exists
C04a(s) == C04a_A(s)
             => (s.net.canarySvc /\ s.net.canarySel # 0
                 /\ (s.ro.exists /\ s.ro.hasSub => s.net.canarySel \in {s.ro.podHash, s.ro.canaryRev}))

\* a stable Service pinned to one revision still has pods of that revision. A rollback or a newer
\* revision requested by the user lets the native controller replace pods before the rollout
\* controller can react; those user-induced windows are outside what the controllers can guarantee.
UserMovedOn(s) == s.user.rolledBack \/ s.user.rev >= 3
C04b_A(s) == s.net.hasSvc /\ s.net.stableSel # 0 /\ s.wl.exists /\ ~UserMovedOn(s)
C04b(s) == C04b_A(s) => PodsAt(s, s.net.stableSel) > 0

C04c(s) == /\ (s.net.ing => (s.net.canarySvc \/ ~CanaryServiceGenerated(s)))
           /\ (s.net.route /\ (s.net.rtCanaryW >= 0 \/ s.net.rtGenRules > 0) => (s.net.canarySvc \/ ~CanaryServiceGenerated(s)))

C04(s) == C04a(s) /\ C04b(s) /\ C04c(s)

(***************************************************************************)
(* C05 - every exit path leaves the cluster as the user configured it      *)
(***************************************************************************)
Residue(s) ==
  {x \in {"canarySvc", "canaryIng", "batchRelease", "inprog", "ctrl", "knob", "paused", "routeCanary", "stablePin", "grace"} :
     CASE x = "canarySvc"    -> s.net.canarySvc
       \* with a stand-alone TrafficRouting object the routes are that object's: it withdraws them on its own schedule (C18tr)
       [] x = "canaryIng"    -> s.net.ing /\ ~s.tr.used
       [] x = "batchRelease" -> s.br.exists
       [] x = "inprog"       -> s.wl.exists /\ s.wl.inprog
       [] x = "ctrl"         -> s.wl.exists /\ s.wl.ctrl
       [] x = "knob"         -> s.wl.exists /\
                                  (CASE s.wl.ktype = "canary" -> s.wl.cd.n > 0 /\ s.quiet   \* the canary Deployment is owned by the BatchRelease: garbage collected
                                     [] s.wl.style = "bluegreen" -> s.wl.origAnno           \* saved settings still on the workload
                                     [] OTHER -> s.wl.ktype # "none")
       [] x = "paused"       -> s.wl.exists /\ s.wl.paused
       [] x = "routeCanary"  -> s.net.route /\ (s.net.rtCanaryW >= 0 \/ s.net.rtGenRules > 0) /\ ~s.tr.used
       [] x = "stablePin"    -> s.net.stableSel # 0
       [] OTHER              -> FALSE}

Terminal(s) ==
  /\ s.ghost.created
  /\ (s.user.rev >= 2 \/ s.user.rolledBack)            \* a release was requested
  /\ \/ ~s.ro.exists
     \/ s.ro.phase = "Disabled"
     \/ s.ro.phase = "Healthy" /\ s.ro.reason = "Completed" /\ ~Superseded(s)   \* completed for the revision the user asked for last

C05(s) ==
  Terminal(s) =>
    /\ Residue(s) = {}
    /\ (s.tr.used \/ s.ghost.origOk)      \* with a stand-alone TrafficRouting object the routes are restored by it: C05tr
    /\ (s.quiet /\ s.wl.exists => (s.wl.n[s.user.rev] = s.wl.R /\ s.wl.rd[s.user.rev] = s.wl.R))

RoutesWithdrawn(net) ==
  /\ (net.provIngress => ~net.ing)
  /\ (net.provGateway /\ net.route => (net.rtCanaryW = -1 /\ net.rtGenRules = 0 /\ net.rtStableW = 1))
\* a stand-alone TrafficRouting object that reports Healthy has withdrawn its routes and given the user's back
C05tr_A(s) == s.tr.used /\ s.tr.exists /\ s.tr.phase = "Healthy" /\ ~s.tr.deleting
C05tr(s) == C05tr_A(s) => (RoutesWithdrawn(s.net) /\ s.ghost.origOk)

(***************************************************************************)
(* C07 - nothing waits on a wake-up that will not come                     *)
(* s.q is the wake-up state of the two work queues, maintained by the      *)
(* harness from the REAL event handlers and the real reconcile results;    *)
(* s.q.stuck: no key pending, no timer, environment quiescent, time cannot *)
(* change anything.  Then the rollout must be finished or waiting for the  *)
(* user.                                                                   *)
(***************************************************************************)
WaitingForUser(s) ==
  \/ s.user.rev = 1 /\ ~s.user.rolledBack                         \* no release requested yet
  \/ s.user.paused
  \/ s.user.disabled
  \/ /\ s.ro.exists /\ s.ro.phase = "Progressing" /\ s.ro.reason = "InRolling" /\ s.ro.hasSub
     /\ s.ro.state = "StepPaused" /\ s.ro.step \in 1..NPlan(s) /\ s.plan[s.ro.step].pause = -1
  \/ s.ro.exists /\ s.ro.phase = "Progressing" /\ s.ro.reason = "Paused"

C07_A(s) == s.q.on /\ s.q.stuck
C07(s) == C07_A(s) => (Terminal(s) \/ WaitingForUser(s))

(***************************************************************************)
(* C09 - no API-reachable object state crashes the controllers             *)
(***************************************************************************)
C09_A(p, t, q) == Ctrl(t)
C09(p, t, q) == t.panic = ""

(***************************************************************************)
(* C10 - rollback / supersession put traffic back on stable first          *)
(***************************************************************************)
AllTrafficStable(net) == ~RoutesToCanary(net)

HandsBack(p, q) ==
  \/ p.br.exists /\ p.br.partition >= 0 /\ q.br.exists /\ q.br.partition = -1
  \/ p.br.exists /\ ~p.br.deleting /\ (~q.br.exists \/ q.br.deleting)
  \/ p.wl.exists /\ q.wl.exists /\ p.wl.ctrl /\ ~q.wl.ctrl
  \/ p.wl.exists /\ q.wl.exists /\ p.wl.ktype # "none" /\ q.wl.ktype = "none"

C10a_A(p, t, q) ==
  (/\ Ctrl(t) /\ p.ro.exists /\ p.ro.phase = "Progressing"
   \* a release that already succeeded and is being finalised hands the workload back with the traffic on the NEW version
   \* by design; a template change arriving that late is the subject of KF-C05-late-template-change-clobbered
   /\ p.ro.reason \notin {"Finalising", "Completed"}
   /\ (RollbackSeen(p) \/ Superseded(p))
   /\ HandsBack(p, q))
C10a(p, t, q) ==
  C10a_A(p, t, q)
  => AllTrafficStable(p.net)

\* a blue-green release refuses supersession instead of mixing three versions: while it is rolling (not yet finalising)
\* pods of at most two revisions exist
C10bg_A(s) == s.wl.exists /\ s.wl.style = "bluegreen" /\ s.ro.exists /\ s.ro.phase = "Progressing" /\ s.ro.reason \in {"InRolling", "Paused"}
C10bg(s) == C10bg_A(s) => Cardinality({r \in 1..3 : s.wl.n[r] > 0}) <= 2

C10b(s) ==
  (s.ro.exists /\ s.user.rolledBack /\ s.ro.phase = "Healthy" /\ s.ro.reason = "Completed" /\ s.user.rev = 1)
  => s.ro.succeeded = "False"

(***************************************************************************)
(* C11 - BatchRelease status means what it says                            *)
(***************************************************************************)
BatchReadyReally(s) ==
  LET b == s.br.batch + 1 IN
  /\ b \in 1..Len(s.br.plan)
  /\ s.wl.exists
  /\ (s.wl.R = 0 \/
      ReadyPred(PodsAt(s, s.br.updRev), IF s.br.updRev \in 1..3 THEN s.wl.rd[s.br.updRev] ELSE 0,
                PlannedOf(s.br.plan[b], s.wl.R), s.br.thrKind, s.br.thrVal))

\* Ready is reported only if the workload really satisfies the batch
C11a_A(p, t, q) ==
  (/\ t.base = "br" /\ q.br.exists /\ p.br.exists
   /\ q.br.phase = "Progressing" /\ q.br.bstate = "Ready"
   \* Ready is newly reported, or it is kept while the status starts to refer to a changed plan (observed hash)
   /\ (p.br.bstate # "Ready" \/ (~p.br.hashOk /\ q.br.hashOk))
   /\ q.br.noNeed = -1)
C11a(p, t, q) ==
  C11a_A(p, t, q)
  => BatchReadyReally([p EXCEPT !.br = q.br])

\* never works on a batch beyond its partition
C11b_A(p, t, q) ==
  (/\ t.base = "br" /\ q.br.exists /\ q.br.phase = "Progressing" /\ q.br.partition >= 0 /\ q.br.hashOk)
C11b(p, t, q) ==
  C11b_A(p, t, q)
  => q.br.batch <= q.br.partition

\* "every pod is updated and ready" as the waiting control planes define it: every created pod is of the new
\* revision and the available ones are within the workload's own maxUnavailable
MaxUnavailableOf(wl) == CASE wl.unavT = "int" -> wl.unavV [] wl.unavT = "pct" -> ScaledDown(wl.unavV, wl.R) [] OTHER -> 0
AllUpdatedAndReady(wl) ==
  IF wl.kind = "Deployment"
  THEN wl.stUpdated = wl.stRepl /\ wl.stAvail + MaxUnavailableOf(wl) >= wl.stRepl
  ELSE wl.n[wl.updRev] = wl.R /\ wl.rd[wl.updRev] = wl.R

\* Completed only after the workload was released (and, when waiting, fully updated and ready)
C11c_A(p, t, q) ==
  (/\ t.base = "br" /\ p.br.exists /\ q.br.exists
   /\ q.br.phase = "Completed" /\ p.br.phase # "Completed")
C11c(p, t, q) ==
  C11c_A(p, t, q)
  => /\ (q.wl.exists => ~q.wl.ctrl)
     \* the wait-for-resume policy is honoured by the canary-style and blue-green control planes only
     \* (rollout_releaseManager.go: "finalizingPolicy field is respected only when it is canary-style")
     /\ (q.br.policy = "WaitResume" /\ q.wl.exists /\ q.wl.style # "partition" /\ q.br.partition = -1 /\ ~q.br.deleting
           => AllUpdatedAndReady(q.wl))

\* a Ready batch whose workload degraded falls back
C11d_A(p, t, q) ==
  (/\ t.base = "br" /\ t.fault = "" /\ p.br.exists /\ q.br.exists
   /\ p.br.phase = "Progressing" /\ p.br.bstate = "Ready" /\ p.br.partition >= 0 /\ ~p.br.deleting
   /\ p.br.hashOk /\ p.br.obsGenOk /\ p.wl.exists /\ p.wl.genOk /\ p.br.obsR = p.wl.R
   /\ p.br.stUpd = p.wl.stUpdated /\ p.br.stUpdRdy = p.wl.stUpdRdy
   /\ p.br.updRev = p.wl.updRev /\ p.br.noNeed = -1 /\ p.br.rid = p.br.obsRid
   /\ ~BatchReadyReally(p))
C11d(p, t, q) ==
  C11d_A(p, t, q)
  => q.br.bstate # "Ready"

(***************************************************************************)
(* C18 - deletion waits for cleanup                                        *)
(***************************************************************************)
CleanupCompleteRollout(s) == Residue(s) \subseteq {"batchRelease"} /\ (s.br.exists => s.br.deleting) /\ (s.tr.used \/ s.ghost.origOk)
  \* (a BatchRelease that is already deleting and released the workload is tolerated below)

C18a_A(p, t, q) ==
  (t.base = "ro" /\ p.ro.exists /\ p.ro.finalizer /\ (~q.ro.exists \/ ~q.ro.finalizer))
C18a(p, t, q) ==
  C18a_A(p, t, q)
  => (Residue(p) = {} /\ (p.tr.used \/ p.ghost.origOk))   \* routes of a stand-alone TrafficRouting object: C18tr

C18br_A(p, t, q) ==
  (t.base = "br" /\ p.br.exists /\ p.br.finalizer /\ (~q.br.exists \/ ~q.br.finalizer))
C18br(p, t, q) ==
  C18br_A(p, t, q)
  => (p.wl.exists => ~p.wl.ctrl)

C18b(s) ==
  (s.ghost.created /\ ~s.ro.exists /\ (s.user.rev >= 2 \/ s.user.rolledBack)) => (Residue(s) \subseteq {"canarySvc", "canaryIng", "batchRelease"} /\ (s.tr.used \/ s.ghost.origOk))
  \* with a stand-alone TrafficRouting object the routes are that object's own: C18tr / C05tr
  \* objects owned through ownerReferences are collected by the garbage collector (env.gc); everything else must be clean

\* the stand-alone TrafficRouting object: its own finalizer goes (or the object vanishes) only when the routes it
\* wrote have been withdrawn
C18tr_A(p, t, q) == p.tr.used /\ p.tr.exists /\ p.tr.finalizer /\ (~q.tr.exists \/ ~q.tr.finalizer)
C18tr(p, t, q) == C18tr_A(p, t, q) => RoutesWithdrawn(q.net)

(***************************************************************************)
(* evaluation of everything on one transition                              *)
(***************************************************************************)
ActionProps == {"C01a", "C01ro", "C01b", "C01c", "C02", "C02pause", "C02promote", "C02edit", "C02adv",
                "C03a", "C03b", "C03c", "C09", "C10a", "C11a", "C11b", "C11c", "C11d", "C18a", "C18br", "C18tr"}
StateProps  == {"C04a", "C04b", "C04c", "C05", "C05tr", "C07", "C10b", "C10bg", "C18b"}
MidProps    == {"C04a", "C04b", "C04c"}   \* also evaluated after every single API write (crash points)

\* predicates about routes written by the Rollout's own traffic routing do not apply to scenarios in which a stand-alone
\* TrafficRouting object routes (only-traffic-routing mode: no canary Service, weights independent of the batches)
RolloutRouteProps == {"C03a", "C03b", "C03c", "C04a", "C04c", "C10a"}
ActHolds(name, p, t, q) ==
  IF p.tr.used /\ name \in RolloutRouteProps THEN TRUE ELSE
  CASE name = "C01a" -> C01a(p, t, q)    [] name = "C01ro" -> C01ro(p, t, q)
    [] name = "C01b" -> C01b(p, t, q)    [] name = "C01c" -> C01c(p, t, q)
    [] name = "C02" -> C02(p, t, q)      [] name = "C02pause" -> C02pause(p, t, q)
    [] name = "C02promote" -> C02promote(p, t, q)
    [] name = "C02edit" -> C02edit(p, t, q)
    [] name = "C02adv" -> C02adv(p, t, q)
    [] name = "C03a" -> C03a(p, t, q)    [] name = "C03b" -> C03b(p, t, q)
    [] name = "C03c" -> C03c(p, t, q)    [] name = "C09" -> C09(p, t, q)
    [] name = "C10a" -> C10a(p, t, q)
    [] name = "C11a" -> C11a(p, t, q)    [] name = "C11b" -> C11b(p, t, q)
    [] name = "C11c" -> C11c(p, t, q)    [] name = "C11d" -> C11d(p, t, q)
    [] name = "C18a" -> C18a(p, t, q)    [] name = "C18br" -> C18br(p, t, q)
    [] name = "C18tr" -> C18tr(p, t, q)

ActAnte(name, p, t, q) ==
  IF p.tr.used /\ name \in RolloutRouteProps THEN FALSE ELSE
  CASE name = "C01a" -> C01a_A(p, t, q)    [] name = "C01ro" -> C01ro_A(p, t, q)
    [] name = "C01b" -> C01b_A(p, t, q)    [] name = "C01c" -> C01c_A(p, t, q)
    [] name = "C02" -> C02_A(p, t, q)      [] name = "C02pause" -> C02pause_A(p, t, q)
    [] name = "C02promote" -> C02promote_A(p, t, q)
    [] name = "C02edit" -> C02edit_A(p, t, q)
    [] name = "C02adv" -> C02adv_A(p, t, q)
    [] name = "C03a" -> C03a_A(p, t, q)    [] name = "C03b" -> C03b_A(p, t, q)
    [] name = "C03c" -> C03c_A(p, t, q)    [] name = "C09" -> C09_A(p, t, q)
    [] name = "C10a" -> C10a_A(p, t, q)
    [] name = "C11a" -> C11a_A(p, t, q)    [] name = "C11b" -> C11b_A(p, t, q)
    [] name = "C11c" -> C11c_A(p, t, q)    [] name = "C11d" -> C11d_A(p, t, q)
    [] name = "C18a" -> C18a_A(p, t, q)    [] name = "C18br" -> C18br_A(p, t, q)
    [] name = "C18tr" -> C18tr_A(p, t, q)

StateAnte(name, s) ==
  IF s.tr.used /\ name \in RolloutRouteProps THEN FALSE ELSE
  CASE name = "C04a" -> C04a_A(s)
    [] name = "C04b" -> C04b_A(s)
    [] name = "C04c" -> s.net.ing \/ (s.net.route /\ (s.net.rtCanaryW >= 0 \/ s.net.rtGenRules > 0))
    [] name = "C05" -> Terminal(s)
    [] name = "C05tr" -> C05tr_A(s)
    [] name = "C10bg" -> C10bg_A(s)
    [] name = "C07" -> C07_A(s)
    [] name = "C10b" -> s.ro.exists /\ s.user.rolledBack /\ s.ro.phase = "Healthy" /\ s.ro.reason = "Completed" /\ s.user.rev = 1
    [] name = "C18b" -> s.ghost.created /\ ~s.ro.exists /\ (s.user.rev >= 2 \/ s.user.rolledBack)

StateHolds(name, s) ==
  IF s.tr.used /\ name \in RolloutRouteProps THEN TRUE ELSE
  CASE name = "C04a" -> C04a(s) [] name = "C04b" -> C04b(s) [] name = "C04c" -> C04c(s)
    [] name = "C05" -> C05(s)   [] name = "C10b" -> C10b(s) [] name = "C18b" -> C18b(s)
    [] name = "C05tr" -> C05tr(s)
    [] name = "C10bg" -> C10bg(s)
    [] name = "C07" -> C07(s)

=============================================================================
