SPECIFICATION Spec
INVARIANT RefSatisfies
INVARIANT RefFrame
INVARIANT Consistent
INVARIANT RefHoldIsFull
CHECK_DEADLOCK FALSE
