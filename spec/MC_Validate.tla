----------------------------- MODULE MC_Validate -----------------------------
(* Exhaustive check of the reference definition of Validate.tla (RefAllowed, written from the
   structure of the validate* functions) against the promises of C09 over a bounded abstract domain:
   one TLC state per admission request = version x strategy / style x workload reference x every
   step sequence of length 0..3 over a palette x traffic-routing shape x CREATE with a set of other
   Rollouts | UPDATE in a phase with exactly one difference.

   The lemmas carry, as explicit hypotheses, the situations in which the code's structure does NOT
   give the promise (each of them is exercised on the real handler by fn-validate, where the plain
   promise is the verdict):
     CanonicalVersions    every other Rollout names the workload's group/kind with the same version
                          string (the conflict check compares apiVersion, kind, name literally)
     NoBlueGreenViaAlpha  a v1alpha1 request does not meet stored blue-green Rollouts (they are served
                          through v1alpha1 without spec and status)
     the step count is immutable for v1beta1 requests only. *)
EXTENDS Validate, TLC

CONSTANT Full    \* TRUE: six-element step palettes, four phases (thorough tier); FALSE: four-element palettes, two phases (quick tier)

VARIABLES ver, strat, extra, anno, wl, steps, tr, op, phase, diff, oth
vars == <<ver, strat, extra, anno, wl, steps, tr, op, phase, diff, oth>>

W(g, v, k, n) == [present |-> TRUE, group |-> g, version |-> v, kind |-> k, name |-> n]
Dep == W("apps", "v1", "Deployment", "demo")
CS  == W("apps.kruise.io", "v1alpha1", "CloneSet", "demo")
Job == W("batch", "v1", "Job", "demo")
Wls == {Dep, CS, Job, NoWl}
OtherVersion(w) == IF w.version = "v1" THEN [w EXCEPT !.version = "v1beta1"] ELSE [w EXCEPT !.version = "v1beta1"]

St(rk, rv, tk, tv, hasW, w) == [rk |-> rk, rv |-> rv, rs |-> "", tk |-> tk, tv |-> tv, ts |-> "", hasW |-> hasW, w |-> w, m |-> 0, pause |-> -1]
PaletteB == { St("int", 5, "none", 0, FALSE, 0), St("pct", 10, "none", 0, FALSE, 0), St("pct", 60, "pct", 20, FALSE, 0), St("none", 0, "none", 0, FALSE, 0) } \cup
            (IF Full THEN { St("int", 1, "none", 0, FALSE, 0), St("pct", 60, "none", 0, FALSE, 0) } ELSE {})
PaletteA == { St("int", 5, "none", 0, FALSE, 0), St("pct", 10, "none", 0, FALSE, 0), St("pct", 60, "none", 0, TRUE, 20), St("none", 0, "none", 0, TRUE, 60) } \cup
            (IF Full THEN { St("pct", 60, "none", 0, FALSE, 0), St("none", 0, "none", 0, TRUE, 10) } ELSE {})
SeqsUpTo3(P) == {<<>>} \cup {<<a>> : a \in P} \cup {<<a, b>> : a \in P, b \in P} \cup {<<a, b, c>> : a \in P, b \in P, c \in P}

Ing(n) == [svc |-> TRUE, svcName |-> "svc", grace |-> 0, ing |-> "named", ingName |-> n, gw |-> "none", gwName |-> "", custom |-> -1]
NoProvider == [svc |-> TRUE, svcName |-> "svc", grace |-> 0, ing |-> "none", ingName |-> "", gw |-> "none", gwName |-> "", custom |-> -1]
TrShapes == {<<>>, <<Ing("ing")>>, <<NoProvider>>, <<Ing("ing"), Ing("ing")>>}

Other(n, same, w, del, st) == [name |-> n, sameNs |-> same, wl |-> w, deleting |-> del, disabled |-> FALSE, strat |-> st]
OtherSets(w) ==
  IF ~w.present THEN {<<>>, <<Other("r2", TRUE, Dep, FALSE, "canary")>>}
  ELSE { <<>>,
         <<Other("r2", TRUE, w, FALSE, "canary")>>,
         <<Other("r2", TRUE, [w EXCEPT !.name = "other"], FALSE, "canary")>>,
         <<Other("r2", TRUE, OtherVersion(w), FALSE, "canary")>>,
         <<Other("r2", TRUE, w, TRUE, "canary")>>,
         <<Other("r2", FALSE, w, FALSE, "canary")>>,
         <<Other("r2", TRUE, w, FALSE, "blueGreen")>>,
         <<Other("r2", TRUE, [w EXCEPT !.name = "other"], FALSE, "canary"), Other("r3", TRUE, w, FALSE, "canary")>> }

Diffs == {"none", "wlName", "wlVersion", "trToggle", "trName", "style", "strategy", "addStep", "dropStep", "paused"}

Init ==
  /\ ver \in {"v1beta1", "v1alpha1"}
  /\ strat \in (IF ver = "v1beta1" THEN {"canary", "blueGreen", "none"} ELSE {"canary", "none"})
  /\ extra \in (IF ver = "v1beta1" /\ strat = "canary" THEN BOOLEAN ELSE {FALSE})
  /\ anno \in (IF ver = "v1alpha1" /\ strat = "canary" THEN {"", "partition", "bogus"} ELSE {""})
  /\ wl \in Wls
  /\ steps \in SeqsUpTo3(IF ver = "v1beta1" THEN PaletteB ELSE PaletteA)
  /\ tr \in TrShapes
  /\ op \in {"CREATE", "UPDATE"}
  /\ phase \in (IF op = "UPDATE" THEN {"Healthy", "Progressing"} \cup (IF Full THEN {"Terminating", "Initial"} ELSE {}) ELSE {""})
  /\ diff \in (IF op = "UPDATE" THEN Diffs ELSE {"none"})
  /\ oth \in (IF op = "UPDATE" THEN {<<>>} ELSE OtherSets(wl))
Next == UNCHANGED vars
Spec == Init /\ [][Next]_vars

Old == [strat |-> strat, extra |-> extra, anno |-> anno, annoFold |-> anno, wl |-> wl, steps |-> steps, tr |-> tr, paused |-> FALSE, disabled |-> FALSE]

Apply(s, d) ==
  CASE d = "wlName"    -> [s EXCEPT !.wl = IF s.wl.present THEN [s.wl EXCEPT !.name = "other"] ELSE Dep]
    [] d = "wlVersion" -> [s EXCEPT !.wl = IF s.wl.present THEN OtherVersion(s.wl) ELSE Dep]
    [] d = "trToggle"  -> [s EXCEPT !.tr = IF s.tr = <<>> THEN <<Ing("ing")>> ELSE <<>>]
    [] d = "trName"    -> [s EXCEPT !.tr = <<Ing("ing2")>>]
    [] d = "style"     -> IF ver = "v1beta1" THEN [s EXCEPT !.extra = (s.strat = "canary" /\ ~s.extra)]
                          ELSE [s EXCEPT !.anno = IF s.anno = "partition" THEN "" ELSE "partition",
                                         !.annoFold = IF s.anno = "partition" THEN "" ELSE "partition"]
    [] d = "strategy"  -> IF ver = "v1beta1" THEN [s EXCEPT !.strat = IF s.strat = "canary" THEN "blueGreen" ELSE "canary", !.extra = FALSE] ELSE s
    [] d = "addStep"   -> [s EXCEPT !.steps = IF Len(s.steps) < 3 THEN Append(s.steps, St("pct", 60, "none", 0, FALSE, 0)) ELSE s.steps]
    [] d = "dropStep"  -> [s EXCEPT !.steps = IF Len(s.steps) > 0 THEN SubSeq(s.steps, 1, Len(s.steps) - 1) ELSE s.steps]
    [] d = "paused"    -> [s EXCEPT !.paused = TRUE]
    [] OTHER           -> s

In == [ver |-> ver, op |-> op, name |-> "demo-ro", limit |-> 50, new |-> Apply(Old, diff), old |-> Old, phase |-> phase, others |-> oth]

\* hypotheses under which the code's structure gives the promise
CanonicalVersions(in) == \A i \in DOMAIN in.others : SameWorkload(in.others[i].wl, in.new.wl) => in.others[i].wl.version = in.new.wl.version
NoBlueGreenViaAlpha(in) == in.ver = "v1alpha1" => (in.old.strat # "blueGreen" /\ \A i \in DOMAIN in.others : in.others[i].strat # "blueGreen")
\* the stored object of an UPDATE was itself admitted: it has a strategy
OldAdmissible(in) == in.op = "UPDATE" => in.old.strat \in {"canary", "blueGreen"}

L_steps == RefAllowed(In) => StepsPromise(In.ver, In.new.steps)

L_conflict == (RefAllowed(In) /\ CanonicalVersions(In) /\ NoBlueGreenViaAlpha(In)) => ConflictPromise(In)

L_immutable ==
  (RefAllowed(In) /\ In.op = "UPDATE" /\ Progressing(In.phase) /\ OldAdmissible(In) /\ NoBlueGreenViaAlpha(In)) =>
     /\ SameRef(In.old.wl, In.new.wl)
     /\ In.old.tr = In.new.tr
     /\ StyleP(OldVer(In), In.old) = StyleP(In.ver, In.new)
     /\ Len(In.old.steps) = Len(In.new.steps)

\* an UPDATE never admits a spec a CREATE of the same object would reject
L_updateStricter == (In.op = "UPDATE" /\ RefAllowed(In)) => RefAllowed([In EXCEPT !.op = "CREATE"])

\* every admitted spec names a supported workload, has exactly one strategy and at most one valid traffic routing
L_shape ==
  RefAllowed(In) =>
     /\ GK(In.new.wl) \in SupportedGK
     /\ In.new.strat \in {"canary", "blueGreen"}
     /\ Len(In.new.tr) <= 1
     /\ (In.new.strat = "blueGreen" => GK(In.new.wl) \in BlueGreenGK)
     /\ ~RefPanics(In)
=============================================================================
