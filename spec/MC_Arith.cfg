SPECIFICATION Spec
CONSTANT RMax = 60
INVARIANT Lemma
CHECK_DEADLOCK FALSE
