-------------------------- MODULE RolloutsImplGraph --------------------------
(***************************************************************************)
(* Liveness of the REAL controllers, decided by TLC on the transition      *)
(* graph the explorer recorded from the real code (C07).                   *)
(*                                                                         *)
(* The explorer visited every state reachable under the configuration's    *)
(* alphabet with reconciles enabled only by real wake-ups (queue           *)
(* discipline), so the recorded graph IS the implementation's state graph  *)
(* for that scenario.  This module replays that graph as a TLA+ behaviour  *)
(* spec - one step = one recorded real transition - and lets TLC check,    *)
(* under weak fairness of every controller reconcile, environment step,    *)
(* tick, the release request and the approvals:                            *)
(*     Termination:  eventually the rollout is finished                    *)
(*                   (Terminal, see RolloutsProps C05) and stays finished. *)
(* A violation is a fair cycle or a dead end of the real system: a lost    *)
(* wake-up, a livelock, an oscillation.                                    *)
(***************************************************************************)
EXTENDS RolloutsProps, Json, TLC, IOUtils

States == ndJsonDeserialize(IOEnv.VERIF_STATES)
St(i) == States[i].s
\* adjacency of the recorded graph, one line per state {id, out: [{a: action, p: post state}]} (non-fault transitions),
\* grouped by lib/closedloop.py from the .trans file (a regrouping, nothing is inferred)
Adj == ndJsonDeserialize(IOEnv.VERIF_ADJ)
Out == [n \in 1..Len(Adj) |-> {<<Adj[n].out[k].a, Adj[n].out[k].p>> : k \in DOMAIN Adj[n].out}]
AllActs == UNION {{e[1] : e \in Out[n]} : n \in 1..Len(Adj)}
\* fair: everything the property assumes to happen (controllers, responsive workload controller, time,
\* the release itself, approvals); other user actions (pause, delete, ...) are never forced
FairActs == AllActs \cap {"ro", "br", "tick", "env.observe", "env.update", "env.ready", "env.scale", "env.gc", "user.release2", "user.approve", "user.resume"}

VARIABLES cur, act
vars == <<cur, act>>

Init == cur = 1 /\ act = "init"
Do(a) == \E e \in Out[cur] : e[1] = a /\ cur' = e[2] /\ act' = a
Next == \E a \in AllActs : Do(a)
Spec == Init /\ [][Next]_vars /\ \A a \in FairActs : WF_vars(Do(a))

Finished(s) == Terminal(s) /\ s.quiet
Termination == <>[]Finished(St(cur))
=============================================================================
