------------------------------- MODULE Arith -------------------------------
(***************************************************************************)
(* Percent / ceiling arithmetic of Kruise Rollouts, as one source of truth *)
(* for the closed-loop model, the property predicates and the function-    *)
(* level conformance checks.                                               *)
(*                                                                         *)
(* Code anchored:                                                          *)
(*   pkg/controller/batchrelease/control/util.go                           *)
(*       CalculateBatchReplicas, ParseIntegerAsPercentageIfPossible,       *)
(*       IsCurrentMoreThanOrEqualToDesired                                  *)
(*   pkg/controller/batchrelease/control/*/*/control.go                    *)
(*       CalculateBatchContext (DesiredPartition / DesiredSurge / replicas)*)
(*   pkg/controller/deployment/util/deployment_util.go NewRSReplicasLimit  *)
(*   k8s intstr.GetScaledValueFromIntOrPercent(…, roundUp)                 *)
(***************************************************************************)
EXTENDS Integers, Sequences, FiniteSets

Min(a, b) == IF a < b THEN a ELSE b
Max(a, b) == IF a > b THEN a ELSE b

\* ceil(a/b) and floor(a/b) for a >= 0, b > 0
CeilDiv(a, b)  == (a + b - 1) \div b
FloorDiv(a, b) == a \div b

\* intstr.GetScaledValueFromIntOrPercent(pct%, total, roundUp)
ScaledUp(pct, total)   == CeilDiv(pct * total, 100)
ScaledDown(pct, total) == FloorDiv(pct * total, 100)

(***************************************************************************)
(* A plan step is a record [rep, pct, ...]: rep >= 0 an absolute count     *)
(* (pct = -1) or pct in 0..100+ a percentage (rep = -1).                   *)
(***************************************************************************)
IsPct(st) == st.pct >= 0

\* CalculateBatchReplicas: scaled value (round up), clamped to [0, R]
PlannedOf(st, R) ==
  LET raw == IF IsPct(st) THEN ScaledUp(st.pct, R) ELSE st.rep
  IN  Max(0, Min(raw, R))

\* ParseIntegerAsPercentageIfPossible(stable, R, canaryReplicas): percentage P such that
\* ceil(P*R/100) approximates stable from below; "1%" instead of "0%" unless the step is 100%.
ParsePct(stable, R, is100) ==
  IF stable >= R THEN 100
  ELSE IF stable <= 0 THEN 0
  ELSE LET p == FloorDiv(stable * 100, R)
       IN  IF ScaledUp(p, R) <= 0 /\ ~is100 THEN 1 ELSE p

(***************************************************************************)
(* Knob of a partition-style CloneSet: spec.updateStrategy.partition =     *)
(* number (or percentage, rounded up) of pods kept at the old revision.    *)
(* ktype in {"none","int","pct"}.                                          *)
(***************************************************************************)
PartitionCount(ktype, kval, R) ==
  CASE ktype = "int" -> Max(0, Min(kval, R))
    [] ktype = "pct" -> Max(0, Min(ScaledUp(kval, R), R))
    [] OTHER         -> 0

\* new-revision pods the CloneSet controller is allowed to run
AskedCloneSet(ktype, kval, R) == R - PartitionCount(ktype, kval, R)

\* the knob the BatchRelease controller computes for a CloneSet batch (CalculateBatchContext)
DesiredCloneSetKnob(st, R) ==
  LET planned == PlannedOf(st, R)
      stable  == R - planned
  IN  IF IsPct(st) THEN [ktype |-> "pct", kval |-> ParsePct(stable, R, st.is100)]
                   ELSE [ktype |-> "int", kval |-> stable]

\* documented slack: an absolute step is exact, a percentage step may exceed the planned count by
\* less than 1% of the workload size (100 * excess <= R), never fall short
WithinSlack(asked, st, R) ==
  LET planned == PlannedOf(st, R)
  IN  IF IsPct(st) THEN 100 * (asked - planned) <= R ELSE asked <= planned

Sufficient(asked, st, R) == asked >= PlannedOf(st, R)

(***************************************************************************)
(* Readiness predicate of a batch (context.IsBatchReady)                   *)
(*   thrKind "none" | "int" | "pct"                                        *)
(***************************************************************************)
AllowedUnavailable(thrKind, thrVal, updated) ==
  CASE thrKind = "int" -> thrVal
    [] thrKind = "pct" -> ScaledUp(thrVal, updated)
    [] OTHER           -> 0

ReadyPred(updated, updatedReady, desired, thrKind, thrVal) ==
  /\ updated >= desired
  /\ AllowedUnavailable(thrKind, thrVal, updated) + updatedReady >= desired
  /\ (desired > 0 => updatedReady > 0)

(***************************************************************************)
(* Lemmas (checked exhaustively by TLC over the bounded domain, MC_Arith)  *)
(***************************************************************************)
LemmaCloneSetKnob(st, R) ==
  LET k == DesiredCloneSetKnob(st, R)
      a == AskedCloneSet(k.ktype, k.kval, R)
  IN  /\ Sufficient(a, st, R)                  \* the target suffices for its own readiness criterion (C07)
      /\ WithinSlack(a, st, R)                 \* and exceeds the plan by at most the documented slack (C01)
      /\ (PlannedOf(st, R) > 0 \/ ~IsPct(st) \/ st.pct = 0 \/ a >= 0)

=============================================================================
