---------------------------- MODULE RolloutsModel ----------------------------
(* placeholder: the closed-loop model is being written; nothing is modelled yet *)
EXTENDS RolloutsProps
Modelled(p, a) == FALSE
Step(p, a) == p
ModelView(s) == s
ViewDiff(a, b) == {}
=============================================================================
