---------------------------- MODULE RolloutsModel ----------------------------
(***************************************************************************)
(* Closed-loop model of Kruise Rollouts: Rollout controller, BatchRelease  *)
(* controller, the native workload controller (environment), the traffic   *)
(* objects, the user, and time.                                            *)
(*                                                                         *)
(* Style: the state is ONE record s (same shape as the harness projection, *)
(* harness/sim/project.go); every action a is a function Step(s, a)        *)
(* returning the successor record.  Controller reconciles are written the  *)
(* way the code is structured (one operator per function of the code, the  *)
(* special-case dispatch orders kept), so that                             *)
(*   - TLC explores the model exhaustively (MC_Rollouts.tla), and          *)
(*   - every transition recorded from the REAL controllers can be checked  *)
(*     for conformance: ModelView(post) = ModelView(Step(pre, act))        *)
(*     (RolloutsTrace.tla, layer C).                                       *)
(*                                                                         *)
(* Time: every timestamp is one bit, "fresh" (inside every grace / pause   *)
(* period) or expired; the action "tick" expires everything.               *)
(* Modelled family: CloneSet / partition style, providers none, ingress    *)
(* (any built-in class, abstracted to weight + match kind) and gateway.    *)
(***************************************************************************)
EXTENDS RolloutsProps

\* ------------------------------------------------------------------ helpers
SeqToSet(q) == {q[i] : i \in 1..Len(q)}
\* canonical (sorted) sequence of a set of strings drawn from a fixed universe
GraceUniverse == <<"patchService", "removeCanaryService", "restoreGateway", "restoreService", "updateRoute">>
SetToSeq(S) == LET F[i \in 0..Len(GraceUniverse)] ==
                     IF i = 0 THEN <<>>
                     ELSE IF GraceUniverse[i] \in S THEN Append(F[i - 1], GraceUniverse[i]) ELSE F[i - 1]
               IN  F[Len(GraceUniverse)]

HasProvider(s) == s.net.provIngress \/ s.net.provGateway
N(s) == Len(s.plan)

\* workload as the controller finder sees it (pkg/util/controller_finder.go getKruiseCloneSet)
IsDeployment(s) == s.wl.exists /\ s.wl.kind = "Deployment"
WlCanaryRev(s)  == s.wl.updRev
\* rollback as the finder sees it: CloneSet-like kinds by revisions and counters; a (canary-style) Deployment when the template
\* equals the stable ReplicaSet's again
IsBlueGreen(s) == IsDeployment(s) /\ s.wl.style = "bluegreen"
\* blue-green / partition-style Deployment finder: stable revision = the stable-revision label the webhook wrote, pod
\* template hash = the hash of the ReplicaSet of the current template (if it has pods), rollback = the two are equal
BgPodHash(s) == IF s.wl.inprog /\ s.wl.rsSpec[s.wl.specRev] > 0 THEN s.wl.specRev ELSE 0
WlStableRev(s) == IF IsBlueGreen(s) THEN s.wl.stableLabel ELSE s.wl.stableRev
WlInRollback(s) ==
  IF IsBlueGreen(s) THEN s.wl.inprog /\ s.wl.stableLabel # 0 /\ s.wl.stableLabel = BgPodHash(s)
  ELSE IF IsDeployment(s) THEN s.wl.inprog /\ s.wl.specRev = s.wl.stableRev
  ELSE s.wl.inprog /\ s.wl.stableRev = s.wl.updRev /\ s.wl.stUpdated # s.wl.stRepl /\ s.wl.kind # "DaemonSet"
\* Workload.PodTemplateHash: the update revision; for a canary-style Deployment the hash of the canary Deployment's (oldest,
\* non-empty) ReplicaSet, known only while the release is in progress and not rolled back
WlPodHash(s) ==
  IF IsBlueGreen(s) THEN BgPodHash(s)
  ELSE IF IsDeployment(s)
  THEN IF s.wl.inprog /\ ~WlInRollback(s) /\ s.wl.cd.n > 0 /\ ~s.wl.cd.deleting /\ s.wl.cd.rsSpec > 0 THEN s.wl.cd.rev ELSE 0
  ELSE s.wl.updRev

EmptySub(ro) == [ro EXCEPT !.hasSub = FALSE, !.step = 0, !.state = "", !.next = 0, !.fstep = "", !.hashOk = FALSE,
                           !.hashSet = FALSE, !.canaryRev = 0, !.stableRev = 0, !.podHash = 0, !.fresh = FALSE, !.rid = ""]

GoneRo == [exists |-> FALSE, bg |-> FALSE, deleting |-> FALSE, finalizer |-> FALSE, condFresh |-> FALSE, hasSub |-> FALSE, hashOk |-> FALSE,
           hashSet |-> FALSE, fresh |-> FALSE, phase |-> "", reason |-> "", treason |-> "", succeeded |-> "", state |-> "",
           fstep |-> "", rid |-> "", aux |-> "", step |-> 0, next |-> 0, canaryRev |-> 0, stableRev |-> 0, podHash |-> 0,
           thrKind |-> "none", thrVal |-> 0]

GoneBr == [exists |-> FALSE, deleting |-> FALSE, finalizer |-> FALSE, planOk |-> FALSE, hashOk |-> FALSE, obsGenOk |-> FALSE,
           rollbackAnno |-> FALSE, phase |-> "", bstate |-> "", policy |-> "", rid |-> "", obsRid |-> "", batch |-> 0, obsR |-> 0,
           updRev |-> 0, stableRev |-> 0, nbatches |-> 0, stUpd |-> 0, stUpdRdy |-> 0, partition |-> -1, noNeed |-> -1,
           plan |-> <<>>, thrKind |-> "none", thrVal |-> 0]

\* the rollout-id the Rollout controller derives from the workload (rollout_status.go getRolloutID)
\* CloneSet / DaemonSet use the hash suffix of the update revision, StatefulSet-like workloads its full name
RidName(kind, rev) ==
  IF kind \in {"StatefulSet", "AdvStatefulSet", "DaemonSet"}   \* (the StatefulSet-like finder also picks up DaemonSets; a Deployment's hash is projected as "v<rev>")
  THEN CASE rev = 1 -> "demo-v1" [] rev = 2 -> "demo-v2" [] rev = 3 -> "demo-v3" [] OTHER -> ""
  ELSE CASE rev = 1 -> "v1" [] rev = 2 -> "v2" [] rev = 3 -> "v3" [] OTHER -> ""
WlRolloutID(s) == IF s.wl.rid # "" THEN s.wl.rid ELSE RidName(s.wl.kind, WlCanaryRev(s))

\* ------------------------------------------------------------ grace wrapper
(* grace.RunWithGraceSeconds(key, action, f): f() first; if it modified something an expectation is
   recorded (fresh) and the caller must retry; otherwise the caller retries while a fresh expectation
   exists and is done (expectation observed) afterwards.  Result: [s, retry]. *)
WithGrace(s, action, modified) ==
  LET gf == SeqToSet(s.mem.gf)  gold == SeqToSet(s.mem.gold) IN
  IF s.net.grace0      \* gracePeriodSeconds = 0: "no need to wait"; an expectation left over is observed
  THEN [s |-> [s EXCEPT !.mem.gf = SetToSeq(gf \ {action}), !.mem.gold = SetToSeq(gold \ {action})], retry |-> FALSE, mod |-> modified]
  ELSE
  IF modified
  THEN [s |-> [s EXCEPT !.mem.gf = SetToSeq(gf \cup {action}), !.mem.gold = SetToSeq(gold \ {action})], retry |-> TRUE, mod |-> TRUE]
  ELSE IF action \in gf THEN [s |-> s, retry |-> TRUE, mod |-> FALSE]
  ELSE [s |-> [s EXCEPT !.mem.gold = SetToSeq(gold \ {action})], retry |-> FALSE, mod |-> FALSE]
NoOp(s) == [s |-> s, retry |-> FALSE, mod |-> FALSE]

\* --------------------------------------------------- traffic routing manager
\* pkg/trafficrouting/manager.go; every operator returns [s, retry] (retry = "not done yet")

PatchStableService(s) ==       \* pin the stable Service to the stable revision
  IF ~HasProvider(s) THEN NoOp(s)
  ELSE IF s.net.noCanarySvc THEN [s |-> s, retry |-> TRUE, mod |-> FALSE]
  ELSE LET need == s.net.stableSel # s.ro.stableRev
           s1 == IF need THEN [s EXCEPT !.net.stableSel = s.ro.stableRev] ELSE s
       IN  WithGrace(s1, "patchService", need)

RestoreStableService(s) ==     \* remove the revision selector of the stable Service
  IF ~HasProvider(s) \/ ~s.net.hasSvc THEN NoOp(s)
  ELSE LET need == s.net.stableSel # 0
           s1 == IF need THEN [s EXCEPT !.net.stableSel = 0] ELSE s
       IN  WithGrace(s1, "restoreService", need)

\* provider.Finalise: delete the canary Ingress / restore the HTTPRoute; TRUE iff something was modified
GatewayDirty(net) == (net.provIngress /\ net.ing) \/ (net.provGateway /\ net.route /\ (net.rtCanaryW >= 0 \/ net.rtGenRules > 0 \/ net.rtStableW # 1))
GatewayClean(net) == [net EXCEPT !.ing = FALSE, !.ingWeight = -1, !.ingMatch = "", !.ingPaths = 0, !.ingBackendOk = TRUE,
                                 !.rtCanaryW = -1, !.rtGenRules = 0, !.rtMatch = "",
                                 !.rtStableW = IF net.provGateway /\ net.route THEN 1 ELSE net.rtStableW,
                                 !.rtRules = IF net.provGateway /\ net.route THEN net.rtRules - net.rtGenRules ELSE net.rtRules]

RestoreGateway(s) ==
  IF ~HasProvider(s) THEN NoOp(s)
  ELSE LET need == GatewayDirty(s.net)
           s1 == IF need THEN [s EXCEPT !.net = GatewayClean(s.net)] ELSE s
       IN  WithGrace(s1, "restoreGateway", need)

RemoveCanaryService(s) ==
  IF ~HasProvider(s) \/ s.net.noCanarySvc THEN NoOp(s)
  ELSE LET need == s.net.canarySvc
           s1 == IF need THEN [s EXCEPT !.net.canarySvc = FALSE, !.net.canarySel = 0, !.net.canaryOwned = FALSE] ELSE s
       IN  WithGrace(s1, "removeCanaryService", need)

\* FinalisingTrafficRouting: stable Service, gateway, canary Service (each may ask for a retry)
FinalisingTrafficRouting(s) ==
  IF ~HasProvider(s) THEN NoOp(s)
  ELSE LET a == RestoreStableService(s) IN
       IF a.retry THEN a
       ELSE LET b == RestoreGateway(a.s) IN
            IF b.retry THEN b ELSE RemoveCanaryService(b.s)
\* the stable-Service and gateway helpers stamp tr.LastUpdateTime when they modify something; only some
\* callers copy it into the persisted status (canaryStatus.lastUpdateTime)
Stamp(r) == IF r.mod THEN [r.s EXCEPT !.ro.fresh = TRUE] ELSE r.s

\* provider.EnsureRoutes for a step st: [net, verified]
EnsureIngress(net, st) ==
  IF ~net.provIngress THEN [net |-> net, ok |-> TRUE]
  ELSE IF ~net.ing
       THEN IF st.traffic = 0 THEN [net |-> net, ok |-> TRUE]
            ELSE [net |-> [net EXCEPT !.ing = TRUE, !.ingWeight = 0, !.ingMatch = "", !.ingPaths = 1, !.ingBackendOk = TRUE], ok |-> FALSE]
       ELSE LET w == st.traffic
                m == IF st.match \in {"header", "header2"} THEN "header" ELSE st.match
            IN  IF net.ingWeight = w /\ net.ingMatch = m THEN [net |-> net, ok |-> TRUE]
                ELSE [net |-> [net EXCEPT !.ingWeight = w, !.ingMatch = m], ok |-> FALSE]

EnsureGateway(net, st) ==
  IF ~net.provGateway THEN [net |-> net, ok |-> TRUE]
  ELSE LET desired ==
             IF st.match # ""
             THEN [net EXCEPT !.rtGenRules = 1, !.rtRules = (net.rtRules - net.rtGenRules) + 1, !.rtMatch = st.match]
             \* without a generated canary Service the canary backendRef IS the stable one: it ends up with the canary weight
             ELSE IF net.noCanarySvc THEN [net EXCEPT !.rtStableW = st.traffic]
             ELSE [net EXCEPT !.rtStableW = 100 - st.traffic, !.rtCanaryW = st.traffic]
       IN  IF desired = net THEN [net |-> net, ok |-> TRUE] ELSE [net |-> desired, ok |-> FALSE]

EnsureRoutes(net, st) ==
  LET a == EnsureIngress(net, st)
      b == EnsureGateway(a.net, st)
  IN  [net |-> b.net, ok |-> a.ok /\ b.ok]

\* RouteAllTrafficToNewVersion (blue-green success): weight 100%, no matches, under the "updateRoute" grace
RouteAllToNew(s) ==
  IF ~HasProvider(s) THEN NoOp(s)
  ELSE LET e == EnsureRoutes(s.net, [rep |-> -1, pct |-> -1, traffic |-> 100, match |-> "", pause |-> -1, is100 |-> FALSE])
       IN  WithGrace([s EXCEPT !.net = e.net], "updateRoute", ~e.ok)

\* Manager.DoTrafficRouting for the rollout's current step: [s, done]
DoTrafficRouting(s) ==
  LET st == s.plan[s.ro.step] IN
  IF ~HasProvider(s) \/ ~HasTraffic(st) THEN [s |-> s, done |-> TRUE]
  ELSE IF ~s.net.hasSvc THEN [s |-> s, done |-> FALSE]
  ELSE IF s.ro.fresh THEN [s |-> s, done |-> FALSE]                        \* wait the grace period after the last change (0 means the default here)
  ELSE LET svcStep ==
             IF s.net.noCanarySvc THEN [s |-> s, mod |-> FALSE, stop |-> FALSE]
             ELSE IF s.ro.stableRev = 0 \/ s.ro.podHash = 0 THEN [s |-> s, mod |-> FALSE, stop |-> TRUE]
             ELSE LET s1 == IF ~s.net.canarySvc
                            THEN [s EXCEPT !.net.canarySvc = TRUE, !.net.canarySel = s.ro.podHash, !.net.canaryOwned = TRUE]
                            ELSE IF s.net.canarySel # s.ro.podHash THEN [s EXCEPT !.net.canarySel = s.ro.podHash] ELSE s
                      s2 == IF s1.net.stableSel # s.ro.stableRev THEN [s1 EXCEPT !.net.stableSel = s.ro.stableRev] ELSE s1
                  IN  [s |-> s2, mod |-> s2 # s, stop |-> FALSE]
       IN  IF svcStep.stop THEN [s |-> s, done |-> FALSE]
           ELSE IF svcStep.mod THEN [s |-> [svcStep.s EXCEPT !.ro.fresh = TRUE], done |-> FALSE]
           ELSE LET e == EnsureRoutes(s.net, st)
                IN  [s |-> [s EXCEPT !.net = e.net], done |-> e.ok]

\* -------------------------------------------------------- release manager
DesiredBrPlan(s) == [i \in 1..N(s) |-> [rep |-> s.plan[i].rep, pct |-> s.plan[i].pct, traffic |-> -1, match |-> "", pause |-> -1, is100 |-> s.plan[i].is100]]

\* runBatchRelease(step): create or update the BatchRelease so that it equals the desired one; [s, done]
RunBatchRelease(s) ==
  LET want == s.ro.step - 1
      rid  == WlRolloutID(s)
  IN  IF ~s.br.exists
      THEN [s |-> [s EXCEPT !.br = [GoneBr EXCEPT !.exists = TRUE, !.partition = want, !.planOk = TRUE, !.nbatches = N(s),
                                                   !.plan = DesiredBrPlan(s), !.rid = rid,
                                                   !.thrKind = s.ro.thrKind, !.thrVal = s.ro.thrVal]], done |-> FALSE]
      ELSE IF s.br.planOk /\ s.br.partition = want /\ s.br.rid = rid /\ s.br.policy = "" /\ ~s.br.rollbackAnno
           THEN [s |-> s, done |-> TRUE]
           ELSE [s |-> [s EXCEPT !.br.partition = want, !.br.planOk = TRUE, !.br.plan = DesiredBrPlan(s), !.br.nbatches = N(s),
                                 !.br.rid = rid, !.br.policy = "", !.br.rollbackAnno = FALSE,
                                 !.br.obsGenOk = FALSE, !.br.hashOk = FALSE], done |-> FALSE]

\* doCanaryUpgrade: [s, done]
DoCanaryUpgrade(s) ==
  LET r == RunBatchRelease(s) IN
  IF ~r.done THEN [s |-> r.s, done |-> FALSE]
  ELSE IF ~s.br.hashOk \/ ~s.br.obsGenOk THEN [s |-> s, done |-> FALSE]
  ELSE IF s.br.bstate # "Ready" \/ s.br.batch + 1 < s.ro.step THEN [s |-> s, done |-> FALSE]
  ELSE [s |-> [s EXCEPT !.ro.podHash = WlPodHash(s)], done |-> TRUE]

\* doCanaryJump (after fix b0b3f0b): TRUE iff the user-patched nextStepIndex differs from the natural one
JumpWanted(s) == s.ro.next # NextIdx(s, s.ro.step) /\ s.ro.next > 0
DoCanaryJump(s) ==
  LET nx == s.ro.next
      eq == SameReplicas(s.plan[nx], s.plan[s.ro.step]) /\ s.ro.state \notin {"BeforeStepUpgrade", "StepUpgrade"}
  IN  [s EXCEPT !.ro.step = nx, !.ro.next = NextIdx(s, nx),
                !.ro.state = IF eq THEN "StepTrafficRouting" ELSE "BeforeStepUpgrade", !.ro.fresh = TRUE]

\* partition-style step that replaces every stable pod: restore the stable Service first (ingress-nginx 9635)
ExpectedAll(s) == FullPartitionStep(s, s.ro.step)

\* runCanary, partition / canary style (rollout_canary.go)
RunCanaryBody(sIn) ==
  LET \* handleNormalRolling: an illegal user-patched nextStepIndex is corrected first (CheckNextBatchIndexWithCorrect,
      \* effective on the status the release manager works on since fix: FX-C09-next-index-correction)
      s0 == IF sIn.ro.next <= 0 \/ sIn.ro.next > N(sIn) THEN [sIn EXCEPT !.ro.next = NextIdx(sIn, sIn.ro.step)] ELSE sIn
      \* syncBatchRelease: propagate the rollout-id to the BatchRelease
      s1 == IF s0.br.exists /\ s0.ro.rid # s0.br.rid
            THEN [s0 EXCEPT !.br.rid = s0.ro.rid, !.br.obsGenOk = FALSE, !.br.hashOk = FALSE] ELSE s0
      s  == IF s1.ro.podHash = 0 THEN [s1 EXCEPT !.ro.podHash = WlPodHash(s1)] ELSE s1
  IN
  IF JumpWanted(s) THEN DoCanaryJump(s)
  ELSE
  LET k  == s.ro.step
      st == s.plan[k]
      pre == IF ~HasTraffic(st) THEN FinalisingTrafficRouting(s) ELSE NoOp(s)
      \* RestoreStableService / RestoreGateway stamp tr.LastUpdateTime, RemoveCanaryService does not
      stampPre == (pre.s.net.stableSel # s.net.stableSel) \/ (GatewayDirty(s.net) /\ ~GatewayDirty(pre.s.net))
  IN
  IF pre.retry THEN (IF stampPre THEN [pre.s EXCEPT !.ro.fresh = TRUE] ELSE pre.s)
  ELSE LET t == IF stampPre THEN [pre.s EXCEPT !.ro.fresh = TRUE] ELSE pre.s IN
  CASE t.ro.state = "BeforeStepUpgrade" ->
         IF ~HasTraffic(st)
         THEN [t EXCEPT !.ro.state = "StepUpgrade"]
         ELSE LET a == IF ExpectedAll(t) THEN RestoreStableService(t) ELSE NoOp(t) IN
              IF a.retry THEN a.s
              ELSE LET b == IF k = 1 /\ ~t.net.noCanarySvc THEN PatchStableService(a.s) ELSE NoOp(a.s) IN
                   IF b.retry THEN b.s
                   ELSE LET u == [b.s EXCEPT !.ro.state = "StepUpgrade", !.ro.fresh = TRUE]
                            d == DoCanaryUpgrade(u)
                        IN  IF d.done
                            THEN [d.s EXCEPT !.ro.state = IF ExpectedAll(u) THEN "StepMetricsAnalysis" ELSE "StepTrafficRouting", !.ro.fresh = TRUE]
                            ELSE d.s
    [] t.ro.state = "StepUpgrade" ->
         LET d == DoCanaryUpgrade(t) IN
         IF d.done
         THEN [d.s EXCEPT !.ro.state = IF ExpectedAll(t) THEN "StepMetricsAnalysis" ELSE "StepTrafficRouting", !.ro.fresh = TRUE]
         ELSE d.s
    [] t.ro.state = "StepTrafficRouting" ->
         \* a full-replacement partition step never routes by selector (fix: FX-C04-traffic-routing-at-full-replacement-step)
         IF ExpectedAll(t) THEN [t EXCEPT !.ro.state = "StepMetricsAnalysis", !.ro.fresh = TRUE]
         ELSE
         LET d == DoTrafficRouting(t) IN
         IF d.done THEN [d.s EXCEPT !.ro.state = "StepMetricsAnalysis", !.ro.fresh = TRUE] ELSE d.s
    [] t.ro.state = "StepMetricsAnalysis" -> [t EXCEPT !.ro.state = "StepPaused"]
    [] t.ro.state = "StepPaused" ->
         IF PauseSatisfied(t, k) THEN [t EXCEPT !.ro.state = "StepReady", !.ro.fresh = TRUE] ELSE t
    [] t.ro.state = "StepReady" ->
         IF N(t) > k
         THEN [t EXCEPT !.ro.step = k + 1, !.ro.next = NextIdx(t, k + 1), !.ro.state = "BeforeStepUpgrade", !.ro.fresh = TRUE]
         ELSE [t EXCEPT !.ro.state = "Completed", !.ro.fresh = TRUE]
    [] OTHER -> t

\* The correction is made on the in-memory object the status comparison also uses, so it is persisted only together
\* with some other status change of the same reconcile.
RunCanary(sIn) ==
  LET r == RunCanaryBody(sIn)
      corrected == IF sIn.ro.next <= 0 \/ sIn.ro.next > N(sIn) THEN [sIn.ro EXCEPT !.next = NextIdx(sIn, sIn.ro.step)] ELSE sIn.ro
  IN  IF r.ro = corrected THEN [r EXCEPT !.ro.next = sIn.ro.next] ELSE r

\* finalising task orders (rollout_canary.go nextCanaryTask)
BgTaskSeq(reason) ==
  CASE reason = "Success"  -> <<"FinalisingStepRouteTrafficToNew", "RestoreStableService", "ResumeWorkload", "FinalisingStepRouteTrafficToStable",
                                "RemoveCanaryService", "ReleaseWorkloadControl">>
    [] reason = "Rollback" -> <<"FinalisingStepRouteTrafficToStable", "ResumeWorkload", "RestoreStableService", "RemoveCanaryService", "ReleaseWorkloadControl">>
    [] OTHER -> <<"RestoreStableService", "FinalisingStepRouteTrafficToStable", "RemoveCanaryService", "ResumeWorkload", "ReleaseWorkloadControl">>
TaskSeq(reason) ==
  IF reason = "Rollback"
  THEN <<"FinalisingStepRouteTrafficToStable", "ResumeWorkload", "ReleaseWorkloadControl", "RestoreStableService", "RemoveCanaryService">>
  ELSE <<"RestoreStableService", "FinalisingStepRouteTrafficToStable", "RemoveCanaryService", "ResumeWorkload", "ReleaseWorkloadControl">>

NextTaskIn(q, cur) ==
  IF cur = "" THEN q[1]
  ELSE IF \E i \in 1..(Len(q) - 1) : q[i] = cur THEN q[(CHOOSE i \in 1..(Len(q) - 1) : q[i] = cur) + 1] ELSE "END"
NextTask(reason, cur) ==
  LET q == TaskSeq(reason) IN
  IF cur = "" THEN q[1]
  ELSE IF \E i \in 1..(Len(q) - 1) : q[i] = cur THEN q[(CHOOSE i \in 1..(Len(q) - 1) : q[i] = cur) + 1] ELSE "END"

\* finalizingBatchRelease(waitReady): [s, retry]
FinalizingBatchRelease(s, waitReady) ==
  IF ~s.br.exists THEN [s |-> s, retry |-> FALSE]
  ELSE IF s.br.partition = -1 /\ s.br.phase = "Completed" THEN [s |-> s, retry |-> FALSE]
  ELSE IF s.br.partition = -1 /\ ((s.br.policy = "WaitResume") = waitReady) THEN [s |-> s, retry |-> TRUE]
  ELSE [s |-> [s EXCEPT !.br.partition = -1, !.br.policy = IF waitReady THEN "WaitResume" ELSE "Immediate",
                        !.br.obsGenOk = FALSE, !.br.hashOk = FALSE], retry |-> TRUE]

\* removeBatchRelease: [s, retry]
RemoveBatchRelease(s) ==
  IF ~s.br.exists THEN [s |-> s, retry |-> FALSE]
  ELSE IF s.br.deleting THEN [s |-> s, retry |-> TRUE]
  ELSE IF s.br.finalizer THEN [s |-> [s EXCEPT !.br.deleting = TRUE], retry |-> TRUE]
  ELSE [s |-> [s EXCEPT !.br = GoneBr], retry |-> TRUE]

\* doCanaryFinalising(reason, waitReady): [s, done]
GoneTr == [used |-> TRUE, exists |-> FALSE, phase |-> "", finalizer |-> FALSE, prog |-> 0, deleting |-> FALSE, obsOk |-> FALSE]
\* finalizeTrafficRouting: drop this Rollout's progressing finalizer (a deleting object without finalizers is gone)
FinalizeTR(s) ==
  IF ~(s.tr.used /\ s.tr.exists /\ s.tr.prog > 0) THEN s
  ELSE IF s.tr.deleting /\ ~s.tr.finalizer /\ s.tr.prog = 1 THEN [s EXCEPT !.tr = GoneTr]
  ELSE [s EXCEPT !.tr.prog = s.tr.prog - 1]

DoFinalising(sIn, reason, waitReady) ==
  LET s0 == FinalizeTR(sIn) IN
  \* the release manager is chosen by the strategy in the SPEC; after a switch of the strategy while idle the blue-green
  \* manager finds no blue-green status and has nothing to finalise
  IF ~s0.ro.hasSub \/ (s0.ro.bg /\ ~IsBlueGreen(s0)) THEN [s |-> s0, done |-> TRUE]
  ELSE
  LET s1 == IF s0.wl.exists /\ s0.wl.inprog /\ s0.wl.genOk THEN [s0 EXCEPT !.wl.inprog = FALSE] ELSE s0   \* removeRolloutProgressingAnnotation
      nx == IF IsBlueGreen(s1) THEN NextTaskIn(BgTaskSeq(reason), s1.ro.fstep) ELSE NextTask(reason, s1.ro.fstep)
      s  == IF s1.ro.fstep = "" THEN [s1 EXCEPT !.ro.fstep = nx, !.ro.fresh = TRUE] ELSE s1
  IN
  IF s.ro.fstep = "END" THEN [s |-> s, done |-> TRUE]
  ELSE
  LET cur == s.ro.fstep
      nxt == nx        \* computed from the step persisted BEFORE this reconcile: the first task is re-run once
      r == CASE cur = "ResumeWorkload" -> FinalizingBatchRelease(s, waitReady)
             [] cur = "ReleaseWorkloadControl" -> RemoveBatchRelease(s)
             [] cur = "FinalisingStepRouteTrafficToStable" -> RestoreGateway(s)
             [] cur = "RestoreStableService" -> RestoreStableService(s)
             [] cur = "RemoveCanaryService" -> RemoveCanaryService(s)
             [] cur = "FinalisingStepRouteTrafficToNew" -> RouteAllToNew(s)
             [] OTHER -> [s |-> s, retry |-> TRUE]
  IN  IF r.retry THEN [s |-> r.s, done |-> FALSE]
      ELSE [s |-> [r.s EXCEPT !.ro.fstep = nxt, !.ro.fresh = TRUE], done |-> nxt = "END"]

\* handleContinuousRelease / doProgressingReset: gateway -> BatchRelease -> canary Service
RoContinuous(s) ==
  IF ~HasProvider(s)
  THEN LET r == RemoveBatchRelease(s) IN
       IF r.retry THEN r.s ELSE [r.s EXCEPT !.ro = [EmptySub(r.s.ro) EXCEPT !.reason = "Initializing"]]
  ELSE
  LET s1 == IF s.ro.fstep \notin {"FinalisingStepRouteTrafficToStable", "ReleaseWorkloadControl", "RemoveCanaryService"}
            THEN [s EXCEPT !.ro.fstep = "FinalisingStepRouteTrafficToStable"] ELSE s
      resetDone(x) == [x EXCEPT !.ro = [EmptySub(x.ro) EXCEPT !.reason = "Initializing"]]
      fromSvc(x) == LET c == RemoveCanaryService(x) IN resetDone(c.s)
      fromBr(x) == LET b == RemoveBatchRelease(x) IN
                   IF b.retry THEN b.s ELSE fromSvc([b.s EXCEPT !.ro.fstep = "RemoveCanaryService", !.ro.fresh = TRUE])
  IN  CASE s1.ro.fstep = "FinalisingStepRouteTrafficToStable" ->
             LET g == RestoreGateway(s1) IN
             IF g.retry THEN Stamp(g) ELSE fromBr([g.s EXCEPT !.ro.fstep = "ReleaseWorkloadControl", !.ro.fresh = TRUE])
        [] s1.ro.fstep = "ReleaseWorkloadControl" -> fromBr(s1)
        [] OTHER -> fromSvc(s1)

\* handleRolloutPlanChanged / recalculateCanaryStep
RoPlanChanged(s) ==
  LET R == s.wl.R
      cur == IF s.br.exists /\ s.br.partition >= 0 /\ s.br.partition + 1 <= Len(s.br.plan)
             THEN (IF IsPct(s.br.plan[s.br.partition + 1]) THEN ScaledUp(s.br.plan[s.br.partition + 1].pct, R) ELSE s.br.plan[s.br.partition + 1].rep)
             ELSE -1
      Des(i) == IF IsPct(s.plan[i]) THEN ScaledUp(s.plan[i].pct, R) ELSE s.plan[i].rep
      ci == s.ro.step
      order == (IF ci \in 1..N(s) THEN <<ci>> ELSE <<>>) \o SelectSeq([i \in 1..N(s) |-> i], LAMBDA i : i # ci)
      \* first index (in that order) whose desired replicas cover the current ones, else the last one tried
      Pick[j \in 1..Len(order)] == IF cur <= Des(order[j]) \/ j = Len(order) THEN order[j] ELSE Pick[j + 1]
      newIdx == IF ~s.br.exists THEN 1 ELSE Pick[1]
  IN  IF s.ro.next = newIdx
      THEN [s EXCEPT !.ro.state = "StepReady", !.ro.fresh = TRUE, !.ro.hashOk = TRUE]
      ELSE LET s1 == [s EXCEPT !.ro.next = newIdx, !.ro.fresh = TRUE, !.ro.hashOk = TRUE]
           IN  IF JumpWanted(s1) THEN DoCanaryJump(s1) ELSE s1

\* isWorkloadRolledBack (fix FX-C10-completed-rollback-taken-for-release): in rollback as the finder sees it, or back at
\* the stable revision recorded when the release started (a rollback the native controller has already completed).
\* A Deployment's two revisions are hashed differently, so only the finder's answer counts there.
RolledBack(s, old) == WlInRollback(s) \/ (~IsDeployment(s) /\ old.hasSub /\ old.stableRev # 0 /\ WlCanaryRev(s) = old.stableRev)

\* ------------------------------------------------------- Rollout reconcile
\* reconcileRolloutProgressing, dispatched on the PERSISTED reason; ns carries the new status being built
RoProgressing(s, old) ==
  IF ~s.wl.exists \/ ~s.wl.genOk THEN s
  ELSE
  CASE old.reason = "Initializing" ->
         LET s1 == [s EXCEPT !.ro = [EmptySub(s.ro) EXCEPT !.hasSub = TRUE, !.step = 1, !.next = NextIdx(s, 1), !.state = "BeforeStepUpgrade",
                                                         !.fresh = TRUE, !.hashOk = TRUE, !.hashSet = TRUE, !.canaryRev = WlCanaryRev(s),
                                                         !.stableRev = WlStableRev(s), !.rid = WlRolloutID(s)]]
         IN  IF s.ro.condFresh THEN s1
             ELSE IF ~s.tr.used THEN [s1 EXCEPT !.ro.reason = "InRolling"]
             \* handleTrafficRouting: the release starts only once this Rollout's progressing finalizer is on the TrafficRouting object
             ELSE IF ~s.tr.exists THEN s1
             ELSE IF s.tr.prog > 0 THEN [s1 EXCEPT !.ro.reason = "InRolling"]
             ELSE IF s.tr.phase \in {"Finalizing", "Terminating"} THEN s1
             ELSE [s1 EXCEPT !.tr.prog = 1]
    [] old.reason = "InRolling" ->
         IF RolledBack(s, old) /\ WlCanaryRev(s) # old.canaryRev
         THEN [s EXCEPT !.ro.canaryRev = WlCanaryRev(s), !.ro.reason = "Cancelling"]
         ELSE IF s.user.paused THEN [s EXCEPT !.ro.reason = "Paused"]
         ELSE IF old.canaryRev # 0 /\ WlCanaryRev(s) # old.canaryRev /\ ~RolledBack(s, old)
              THEN (IF IsBlueGreen(s) THEN s ELSE RoContinuous(s))      \* blue-green refuses: "please rollback first" (nothing is written)
         ELSE IF old.hashSet /\ ~old.hashOk THEN RoPlanChanged(s)
         ELSE IF s.ro.state = "Completed" THEN [s EXCEPT !.ro.reason = "Finalising"]
         ELSE RunCanary(s)
    [] old.reason = "Finalising" ->
         LET d == DoFinalising(s, "Success", TRUE) IN
         IF d.done THEN [d.s EXCEPT !.ro.reason = "Completed", !.ro.succeeded = "True"] ELSE d.s
    [] old.reason = "Paused" ->
         IF ~s.user.paused THEN [s EXCEPT !.ro.reason = "InRolling"] ELSE s
    [] old.reason = "Cancelling" ->
         LET d == DoFinalising(s, "Rollback", FALSE) IN
         IF d.done THEN [d.s EXCEPT !.ro.reason = "Completed", !.ro.succeeded = "False"] ELSE d.s
    [] old.reason = "Completed" -> [s EXCEPT !.ro.phase = "Healthy"]
    [] OTHER -> s

\* the phase handlers are selected by the PERSISTED phase (rollout.Status.Phase), not by the new one
RoDispatch(s, old) ==
  CASE old.phase = "Progressing" -> RoProgressing(s, old)
    [] old.phase = "Terminating" ->
         IF old.treason = "Completed" THEN s
         ELSE IF s.wl.exists /\ ~s.wl.genOk THEN s                       \* fix 1770707: wait for a consistent workload
         ELSE LET d == DoFinalising(s, "RolloutDeleting", FALSE) IN
              IF d.done THEN [d.s EXCEPT !.ro.treason = "Completed"] ELSE d.s
    [] old.phase = "Disabling" ->
         LET d == DoFinalising(s, "RolloutDisabled", FALSE) IN
         IF d.done THEN [d.s EXCEPT !.ro.phase = "Disabled"] ELSE d.s
    [] OTHER -> s

\* calculateRolloutStatus + phase dispatch + status write (rollout_controller.go Reconcile)
RoStep(s0) ==
  IF ~s0.ro.exists THEN s0
  ELSE
  \* handleFinalizer
  IF s0.ro.deleting /\ s0.ro.treason = "Completed" /\ s0.ro.finalizer
  THEN LET g == [s0 EXCEPT !.ro = GoneRo] IN
       IF g.wl.exists /\ ~g.wl.wtype THEN [g EXCEPT !.wl.wtype = TRUE] ELSE g
  ELSE
  LET sA == IF ~s0.ro.deleting /\ ~s0.ro.finalizer THEN [s0 EXCEPT !.ro.finalizer = TRUE] ELSE s0
      sB == IF sA.wl.exists /\ ~sA.wl.wtype THEN [sA EXCEPT !.wl.wtype = TRUE] ELSE sA       \* patchWorkloadRolloutWebhookLabel
      old == sB.ro
  IN
  IF old.deleting
  THEN LET sC == IF old.phase # "Terminating"
                 THEN [sB EXCEPT !.ro.phase = "Terminating", !.ro.treason = "InTerminating"] ELSE sB IN
       RoDispatch(sC, old)
  ELSE
  LET sC == IF sB.user.disabled /\ old.phase \notin {"Disabled", "Disabling"}
            THEN [sB EXCEPT !.ro.phase = IF old.phase = "Progressing" THEN "Disabling" ELSE "Disabled"] ELSE sB
      sD == IF sC.ro.phase = "" THEN [sC EXCEPT !.ro.phase = "Initial"] ELSE sC
  IN
  IF ~sD.wl.exists
  THEN IF ~sD.user.disabled THEN [sD EXCEPT !.ro = [EmptySub(sD.ro) EXCEPT !.phase = "Initial", !.reason = "", !.succeeded = "", !.treason = ""]] ELSE RoDispatch(sD, old)
  ELSE IF ~sD.wl.genOk THEN sB          \* retry later: nothing but the finalizer / label was written
  ELSE
  LET sE == IF sD.ro.hasSub /\ sD.ro.canaryRev # 0 /\ sD.ro.canaryRev = WlCanaryRev(sD) THEN [sD EXCEPT !.ro.rid = WlRolloutID(sD)] ELSE sD
      sF == CASE sE.ro.phase = "Initial" -> [sE EXCEPT !.ro.phase = "Healthy"]
              [] sE.ro.phase = "Healthy" ->
                   IF sE.wl.inprog
                   THEN [sE EXCEPT !.ro.phase = "Progressing", !.ro.reason = "Initializing", !.ro.condFresh = TRUE, !.ro.succeeded = ""]
                   ELSE IF ~sE.ro.hasSub
                   THEN [sE EXCEPT !.ro = [sE.ro EXCEPT !.hasSub = TRUE, !.step = N(sE), !.next = -1, !.state = "Completed", !.hashOk = TRUE, !.hashSet = TRUE,
                                                        !.canaryRev = WlCanaryRev(sE), !.stableRev = WlStableRev(sE), !.podHash = WlPodHash(sE),
                                                        !.rid = WlRolloutID(sE)]]
                   ELSE sE
              [] sE.ro.phase = "Disabled" -> IF ~sE.user.disabled THEN [sE EXCEPT !.ro.phase = "Healthy"] ELSE sE
              [] OTHER -> sE
  IN  RoDispatch(sF, old)

\* in scenarios with a stand-alone TrafficRouting object the Rollout itself has no traffic routing
RoStepAny(s) ==
  IF ~s.tr.used THEN RoStep(s)
  ELSE LET r == RoStep([s EXCEPT !.net.provIngress = FALSE, !.net.provGateway = FALSE])
       IN  [r EXCEPT !.net.provIngress = s.net.provIngress, !.net.provGateway = s.net.provGateway]

\* ------------------------------------- TrafficRouting object reconcile (pkg/controller/trafficrouting)
\* only-traffic-routing mode: no canary Service is generated, the strategy is the object's own (weight 40 in the scenarios)
TrStrategy == [rep |-> -1, pct |-> -1, traffic |-> 40, match |-> "", pause |-> -1, is100 |-> FALSE]
TrDo(s) == IF ~s.net.hasSvc THEN [s |-> s, done |-> FALSE]
           ELSE LET e == EnsureRoutes([s.net EXCEPT !.noCanarySvc = TRUE], TrStrategy)
                IN  [s |-> [s EXCEPT !.net = [e.net EXCEPT !.noCanarySvc = s.net.noCanarySvc]], done |-> e.ok]
TrFinalise(s) ==
  LET r == FinalisingTrafficRouting([s EXCEPT !.net.noCanarySvc = TRUE])
  IN  [s |-> [r.s EXCEPT !.net.noCanarySvc = s.net.noCanarySvc], done |-> ~r.retry]

TrStep(s) ==
  IF ~s.tr.exists THEN s
  ELSE
  LET t0 == s.tr
      \* handleFinalizer runs FIRST: a deleting object loses the controller's finalizer before anything is cleaned
      gone == t0.deleting /\ t0.prog = 0
      s1 == IF t0.deleting THEN [s EXCEPT !.tr.finalizer = FALSE]
            ELSE IF ~t0.finalizer THEN [s EXCEPT !.tr.finalizer = TRUE] ELSE s
      ph == IF t0.deleting THEN "Terminating" ELSE IF t0.phase = "" THEN "Initial" ELSE t0.phase
      r == CASE ph = "Initial" -> [s |-> s1, done |-> TRUE, ph |-> "Healthy"]
             [] ph = "Healthy" -> [s |-> s1, done |-> TRUE, ph |-> IF t0.prog > 0 THEN "Progressing" ELSE "Healthy"]
             [] ph = "Progressing" ->
                  IF t0.prog = 0 THEN [s |-> s1, done |-> TRUE, ph |-> "Finalizing"]
                  ELSE LET d == TrDo(s1) IN [s |-> d.s, done |-> d.done, ph |-> "Progressing"]
             [] ph = "Finalizing" -> LET d == TrFinalise(s1) IN [s |-> d.s, done |-> d.done, ph |-> IF d.done THEN "Healthy" ELSE "Finalizing"]
             [] ph = "Terminating" -> LET d == TrFinalise(s1) IN [s |-> d.s, done |-> d.done, ph |-> "Terminating"]
             [] OTHER -> [s |-> s1, done |-> TRUE, ph |-> ph]
  IN  IF gone THEN [r.s EXCEPT !.tr = GoneTr]                              \* the status update finds no object
      ELSE IF r.done THEN [r.s EXCEPT !.tr.phase = r.ph, !.tr.obsOk = TRUE]
      ELSE r.s

\* ---------------------------------------------------- BatchRelease reconcile
BrPlanned(s, b) == PlannedOf(s.br.plan[b + 1], s.wl.R)

\* CloneSet control: the knob for batch b and UpgradeBatch (only ever lowers the partition)
\* kind-specific knobs (control/partitionstyle/*/control.go): the value Initialize claims the workload with, the
\* value the webhook holds it with, and the value for a batch
PartitionKinds == {"CloneSet", "StatefulSet", "AdvStatefulSet", "DaemonSet"}
InitKnob(s) == CASE s.wl.kind = "CloneSet"  -> [ktype |-> "pct", kval |-> 100]
                 [] s.wl.kind = "DaemonSet" -> [ktype |-> "int", kval |-> s.wl.R]
                 [] OTHER                   -> [ktype |-> "int", kval |-> 32767]
HoldKnob(s) == IF s.wl.kind = "CloneSet" THEN [ktype |-> "pct", kval |-> 100] ELSE [ktype |-> "int", kval |-> 32767]
DesiredKnob(s, st) ==
  IF s.wl.kind = "CloneSet" THEN DesiredCloneSetKnob(st, s.wl.R)
  ELSE [ktype |-> "int", kval |-> s.wl.R - PlannedOf(st, s.wl.R)]

BrUpgradeKnob(s) ==
  LET want == DesiredKnob(s, s.br.plan[s.br.batch + 1])
      cur  == PartitionCount(s.wl.ktype, s.wl.kval, s.wl.R)
      des  == PartitionCount(want.ktype, want.kval, s.wl.R)
      \* an int partition of 0 on a DaemonSet projects as "none" (its default)
      w2  == want
  IN  IF cur <= des THEN s ELSE [s EXCEPT !.wl.ktype = w2.ktype, !.wl.kval = w2.kval, !.wl.genOk = FALSE]

\* labelling pass (PatchPodBatchLabel), counted only: live updated pods carrying the release's rollout-id
LabelAfterPass(s) ==
  IF s.br.rid = "" THEN s.wl.labelled
  ELSE Max(s.wl.labelled, Min(s.wl.n[s.wl.updRev], BrPlanned(s, s.br.batch)))

LabelledForRelease(s) == Cardinality({i \in 1..Len(s.wl.lab) : TRUE})   \* refined in the label model; see LabelPatch.tla

BrReadyNow(s) ==
  /\ ReadyPred(s.wl.stUpdated, s.wl.stUpdRdy, BrPlanned(s, s.br.batch), s.br.thrKind, s.br.thrVal)
  /\ (s.br.rid = "" \/ s.wl.labelled >= BrPlanned(s, s.br.batch))

\* derived fields of the Deployment projection (harness/sim/depenv.go Project): what may run at the new revision
SurgeCount(wl) == CASE wl.surgeT = "pct" -> ScaledUp(wl.surgeV, wl.R) [] wl.surgeT = "int" -> wl.surgeV [] OTHER -> 0
DepDerive(s) ==
  IF IsDeployment(s) /\ s.wl.style = "canary"
  THEN [s EXCEPT !.wl.asked = IF s.wl.paused THEN s.wl.cd.replicas ELSE s.wl.R, !.wl.kval = s.wl.cd.replicas]
  ELSE IF IsBlueGreen(s)
  THEN [s EXCEPT !.wl.ktype = s.wl.surgeT, !.wl.kval = s.wl.surgeV,
                 !.wl.asked = IF s.wl.paused THEN (IF s.wl.specRev = s.wl.stableRev THEN 0 ELSE s.wl.n[s.wl.specRev])
                              ELSE IF s.wl.origAnno THEN Min(SurgeCount(s.wl), s.wl.R) ELSE s.wl.R]
  ELSE s

\* ------------------------------------------------ canary style (Deployment): control/canarystyle
CanaryStyle(s) == IsDeployment(s) /\ s.wl.style = "canary"
\* BuildCanaryController: the newest live Deployment owned by the BatchRelease whose template equals the stable one's
CanaryFound(s) == s.wl.cd.n > 0 /\ ~s.wl.cd.deleting /\ s.wl.cd.rev = s.wl.specRev
NoCanary == [n |-> 0, replicas |-> 0, pods |-> 0, avail |-> 0, finalizer |-> FALSE, deleting |-> FALSE, rev |-> 0, obs |-> TRUE, rs |-> 0, rsSpec |-> 0]

\* SyncWorkloadInformation (canarystyle/control_plane.go)
BrEventCanary(s) ==
  IF s.br.deleting THEN "normal"
  ELSE IF ~s.wl.exists THEN "gone"
  ELSE IF ~s.wl.genOk THEN "unstable"
  ELSE IF s.wl.stRepl = s.wl.stUpdated THEN "normal"
  ELSE IF s.br.obsR # -1 /\ s.wl.R # s.br.obsR THEN "scaling"
  ELSE IF s.br.updRev # 0 /\ s.wl.updRev # s.br.updRev THEN "revision"
  ELSE "unknown"

BrPlannedC(s) == PlannedOf(s.br.plan[s.br.batch + 1], s.wl.R)
\* EnsureBatchPodsReadyAndLabeled labels the canary pods first and then checks the batch
LabelledAfterC(s) == IF s.br.rid = "" THEN s.wl.labelled ELSE Max(s.wl.labelled, Min(s.wl.n[s.wl.specRev], BrPlannedC(s)))
BrReadyCanary(s) ==
  /\ ReadyPred(s.wl.cd.pods, s.wl.cd.avail, BrPlannedC(s), s.br.thrKind, s.br.thrVal)
  /\ (s.br.rid = "" \/ LabelledAfterC(s) >= BrPlannedC(s))
\* guards shared by UpgradeBatch / EnsureBatchPodsReadyAndLabeled: [skip, error]
CanaryGuard(s) == IF s.wl.R = 0 THEN "skip" ELSE IF ~CanaryFound(s) \/ ~s.wl.cd.obs THEN "error" ELSE "go"

BrExecCanary(sR) ==
  LET fin(x) == DepDerive([x EXCEPT !.br.obsGenOk = TRUE]) IN
  CASE sR.br.phase = "Preparing" ->
         \* Initialize: control annotation on the stable Deployment (metadata only), then the canary Deployment (created with
         \* 0 replicas: that call reports an error so that the informer can catch up), then the revisions are recorded
         LET a == IF sR.wl.ctrl THEN sR ELSE [sR EXCEPT !.wl.ctrl = TRUE] IN
         IF CanaryFound(a)
         THEN fin([a EXCEPT !.br.phase = "Progressing", !.br.obsR = a.wl.R, !.br.stableRev = 0, !.br.updRev = a.wl.cd.rev])
         ELSE fin([a EXCEPT !.wl.cd = [NoCanary EXCEPT !.n = a.wl.cd.n + 1, !.finalizer = TRUE, !.rev = a.wl.specRev, !.obs = FALSE]])
    [] sR.br.phase = "Progressing" ->
         CASE sR.br.bstate \in {"", "Upgrading"} ->
                LET g == CanaryGuard(sR) IN
                IF g = "error" THEN fin([sR EXCEPT !.br.bstate = "Upgrading"])
                ELSE IF g = "skip" \/ sR.wl.cd.replicas >= BrPlannedC(sR) THEN fin([sR EXCEPT !.br.bstate = "Verifying"])
                ELSE fin([sR EXCEPT !.br.bstate = "Verifying", !.wl.cd.replicas = BrPlannedC(sR), !.wl.cd.obs = FALSE])
           [] sR.br.bstate = "Verifying" ->
                LET g == CanaryGuard(sR) IN
                IF g = "skip" \/ (g = "go" /\ BrReadyCanary(sR)) THEN fin([sR EXCEPT !.br.bstate = "Ready"])
                ELSE fin([sR EXCEPT !.br.bstate = "Upgrading"])
           [] sR.br.bstate = "Ready" ->
                LET g == CanaryGuard(sR) IN
                IF ~(g = "skip" \/ (g = "go" /\ BrReadyCanary(sR))) THEN fin([sR EXCEPT !.br.bstate = "Upgrading"])
                ELSE IF sR.br.partition >= 0 /\ sR.br.partition <= sR.br.batch THEN fin(sR)
                ELSE fin([sR EXCEPT !.br.batch = sR.br.batch + 1, !.br.bstate = "Upgrading"])
           [] OTHER -> fin(sR)
    [] sR.br.phase = "Finalizing" ->
         \* Finalize: release the stable Deployment (un-paused iff batchPartition is nil), wait for the promotion when the
         \* policy says so, then drop the canary Deployments' finalizers (they are collected with the BatchRelease)
         IF ~sR.wl.exists THEN fin([sR EXCEPT !.br.phase = "Completed"])
         ELSE
         LET pause == sR.br.partition # -1
             rel == [sR EXCEPT !.wl.ctrl = FALSE, !.wl.paused = pause, !.wl.genOk = (sR.wl.paused = pause /\ sR.wl.genOk)]
             waitErr == sR.br.policy = "WaitResume" /\ (rel.wl.paused \/ rel.wl.stRepl # rel.wl.stUpdated
                                                          \/ MaxUnavailableOf(rel.wl) + rel.wl.stAvail < rel.wl.stRepl)
         IN  IF waitErr THEN fin(rel)
             ELSE fin([rel EXCEPT !.br.phase = "Completed", !.wl.cd.finalizer = FALSE])
    [] OTHER -> fin(sR)

\* ------------------------------------------------ blue-green (Deployment): control/bluegreenstyle
BgOrig == [surgeT |-> "pct", surgeV |-> 25, unavT |-> "pct", unavV |-> 25, minReady |-> 0, pdl |-> 600]
MaxProgressSeconds == 2147483647
MaxReadySeconds == 2147483646
BrEventBG(s) ==
  IF s.br.deleting THEN "normal"
  ELSE IF ~s.wl.exists THEN "gone"
  ELSE IF ~s.wl.genOk THEN "unstable"
  ELSE IF s.wl.stRepl = s.wl.stUpdated THEN "normal"
  ELSE IF s.br.obsR # -1 /\ s.wl.R # s.br.obsR THEN "scaling"
  \* IsRollback compares the update revision (the rollouts' own hash of the template) with the stable revision (the
  \* ReplicaSet's pod-template-hash label): two different hash functions, never equal, so a rollback shows as "revision"
  ELSE IF s.br.updRev # 0 /\ s.wl.specRev # s.br.updRev THEN "revision"
  ELSE "normal"
\* NewRSReplicasLimit: the batch's surge, at most the workload size, and one less unless it is 100%
BgPlanned(st, R) ==
  LET lim == Max(0, Min(IF IsPct(st) THEN ScaledUp(st.pct, R) ELSE st.rep, R))
  IN  IF R > 1 /\ IsPct(st) /\ st.pct # 100 THEN Min(lim, R - 1) ELSE lim
BgReady(s) ==
  LET st == s.br.plan[s.br.batch + 1]  pl == BgPlanned(st, s.wl.R) IN
  /\ ReadyPred(s.wl.stUpdated, s.wl.rd[s.wl.specRev], pl, s.br.thrKind, s.br.thrVal)
  \* the labels patched by this very call are not seen by its readiness check (it looks at the pods listed before)
  /\ (s.br.rid = "" \/ s.wl.n[s.wl.specRev] = 0 \/ s.wl.labelled >= pl)
BgValid(s) == s.wl.ctrl /\ s.wl.strategy = "RollingUpdate" /\ s.wl.surgeT # "none" /\ s.wl.minReady = MaxReadySeconds /\ s.wl.pdl = MaxProgressSeconds

BrExecBlueGreen(sR) ==
  LET fin(x) == DepDerive([x EXCEPT !.br.obsGenOk = TRUE]) IN
  CASE sR.br.phase = "Preparing" ->
         \* Initialize: disable the HPA, fence the stable ReplicaSet, save the strategy and install the blue-green one
         LET a == IF sR.wl.ctrl THEN sR
                  ELSE [sR EXCEPT !.wl.ctrl = TRUE, !.wl.origAnno = TRUE, !.wl.hpaOk = IF sR.wl.hpa THEN FALSE ELSE sR.wl.hpaOk,
                                  !.wl.strategy = "RollingUpdate", !.wl.surgeT = "int", !.wl.surgeV = 1, !.wl.unavT = "int", !.wl.unavV = 0,
                                  !.wl.minReady = MaxReadySeconds, !.wl.pdl = MaxProgressSeconds, !.wl.genOk = FALSE]
         IN  fin([a EXCEPT !.br.phase = "Progressing", !.br.obsR = a.wl.R, !.br.stableRev = a.wl.stableLabel, !.br.updRev = a.wl.specRev])
    [] sR.br.phase = "Progressing" ->
         CASE sR.br.bstate \in {"", "Upgrading"} ->
                IF sR.wl.R = 0 THEN fin([sR EXCEPT !.br.bstate = "Verifying"])
                ELSE IF ~BgValid(sR) THEN fin([sR EXCEPT !.br.bstate = "Upgrading"])
                ELSE LET st == sR.br.plan[sR.br.batch + 1]
                         desired == IF IsPct(st) THEN ScaledUp(st.pct, sR.wl.R) ELSE st.rep
                         current == IF sR.wl.surgeT = "int" /\ sR.wl.surgeV = 1 THEN 0 ELSE SurgeCount(sR.wl)
                     IN  IF current >= desired THEN fin([sR EXCEPT !.br.bstate = "Verifying"])
                         ELSE fin([sR EXCEPT !.br.bstate = "Verifying", !.wl.paused = FALSE, !.wl.strategy = "RollingUpdate",
                                             !.wl.surgeT = IF IsPct(st) THEN "pct" ELSE "int", !.wl.surgeV = IF IsPct(st) THEN st.pct ELSE st.rep,
                                             !.wl.unavT = "int", !.wl.unavV = 0, !.wl.genOk = FALSE])
           [] sR.br.bstate = "Verifying" ->
                IF sR.wl.R = 0 \/ BgReady(sR) THEN fin([sR EXCEPT !.br.bstate = "Ready"]) ELSE fin([sR EXCEPT !.br.bstate = "Upgrading"])
           [] sR.br.bstate = "Ready" ->
                IF ~(sR.wl.R = 0 \/ BgReady(sR)) THEN fin([sR EXCEPT !.br.bstate = "Upgrading"])
                ELSE IF sR.br.partition >= 0 /\ sR.br.partition <= sR.br.batch THEN fin(sR)
                ELSE fin([sR EXCEPT !.br.batch = sR.br.batch + 1, !.br.bstate = "Upgrading"])
           [] OTHER -> fin(sR)
    [] sR.br.phase = "Finalizing" ->
         \* Finalize. batchPartition still set: "continuous release is not supported yet", nothing is released.
         \* Otherwise: restore the saved strategy (BgOrig: the fixture's values, harness/sim/depenv.go), wait until all pods are
         \* updated and ready, restore the HPA. On a LATER call the Deployment is already restored and the wait runs on an
         \* empty object: it passes vacuously (KF-C11-bluegreen-finalize-retry-vacuous, modelled as the code behaves).
         IF ~sR.wl.exists \/ sR.br.partition # -1 THEN fin([sR EXCEPT !.br.phase = "Completed"])
         ELSE IF sR.wl.origAnno
         THEN LET r == [sR EXCEPT !.wl.paused = FALSE, !.wl.minReady = BgOrig.minReady, !.wl.pdl = BgOrig.pdl,
                                  !.wl.surgeT = BgOrig.surgeT, !.wl.surgeV = BgOrig.surgeV, !.wl.unavT = BgOrig.unavT, !.wl.unavV = BgOrig.unavV,
                                  !.wl.origAnno = FALSE, !.wl.stableLabel = 0, !.wl.ctrl = FALSE, !.wl.genOk = FALSE]
                  ok == r.wl.stUpdRdy = r.wl.stUpdated /\ MaxUnavailableOf(r.wl) + r.wl.stAvail >= r.wl.stRepl
              IN  IF ok THEN fin([r EXCEPT !.br.phase = "Completed", !.wl.hpaOk = TRUE]) ELSE fin(r)
         ELSE fin([sR EXCEPT !.br.phase = "Completed", !.wl.hpaOk = TRUE])
    [] OTHER -> fin(sR)

BrStep(s0) ==
  IF ~s0.br.exists THEN s0
  ELSE
  \* handleFinalizer
  IF s0.br.deleting /\ s0.br.phase = "Completed" /\ s0.br.finalizer THEN [s0 EXCEPT !.br = GoneBr]
  ELSE
  LET sA == IF ~s0.br.finalizer THEN [s0 EXCEPT !.br.finalizer = TRUE] ELSE s0
      st0 == IF sA.br.phase = "" THEN [sA EXCEPT !.br.phase = "Preparing", !.br.obsR = -1] ELSE sA     \* getInitializedStatus
      wlGone == ~st0.wl.exists
      \* SyncWorkloadInformation
      ev == IF CanaryStyle(st0) THEN BrEventCanary(st0)
            ELSE IF IsBlueGreen(st0) THEN BrEventBG(st0)
            ELSE IF st0.br.deleting THEN "normal"
            ELSE IF wlGone THEN "gone"
            ELSE IF ~st0.wl.genOk THEN "unstable"
            ELSE IF st0.wl.stRepl = st0.wl.stUpdated THEN "normal"
            ELSE IF st0.br.obsR # -1 /\ st0.wl.R # st0.br.obsR THEN "scaling"
            ELSE IF st0.br.updRev # 0 /\ st0.wl.updRev = st0.wl.stableRev /\ st0.br.stableRev = st0.wl.updRev /\ st0.br.stableRev # st0.br.updRev THEN "rollback"
            ELSE IF st0.br.updRev # 0 /\ st0.wl.updRev # st0.br.updRev THEN "revision"
            ELSE "normal"
      p == st0.br
      \* special cases, in the order of syncStatusBeforeExecuting: [s, stop]
      sp == IF p.phase = "Completed" THEN [s |-> st0, stop |-> TRUE]
            ELSE IF p.deleting \/ p.phase = "Finalizing" \/ p.partition = -1 THEN [s |-> [st0 EXCEPT !.br.phase = "Finalizing"], stop |-> FALSE]
            ELSE IF ~p.hashOk /\ p.phase = "Progressing"
                 THEN [s |-> [st0 EXCEPT !.br.batch = IF p.partition >= 0 /\ p.rid = p.obsRid THEN Min(p.partition, Len(p.plan) - 1) ELSE 0,
                                         !.br.bstate = "Upgrading", !.br.hashOk = TRUE, !.br.obsRid = p.rid], stop |-> FALSE]
            ELSE IF p.batch >= Len(p.plan) /\ p.phase = "Progressing"
                 THEN [s |-> [st0 EXCEPT !.br = [p EXCEPT !.phase = "Preparing", !.stableRev = 0, !.updRev = 0, !.hashOk = TRUE, !.obsR = -1,
                                                         !.batch = 0, !.bstate = "", !.stUpd = 0, !.stUpdRdy = 0, !.noNeed = -1]], stop |-> FALSE]
            ELSE IF ev = "gone" /\ p.phase \notin {"Initial", ""} THEN [s |-> [st0 EXCEPT !.br.phase = "Finalizing"], stop |-> FALSE]
            ELSE IF ev = "scaling" /\ p.phase = "Progressing" THEN [s |-> [st0 EXCEPT !.br.bstate = "Upgrading", !.br.obsR = st0.wl.R], stop |-> FALSE]
            ELSE IF ev = "revision" /\ p.phase = "Progressing" THEN [s |-> [st0 EXCEPT !.br.updRev = st0.wl.updRev], stop |-> TRUE]
            ELSE IF ev = "unstable" THEN [s |-> st0, stop |-> TRUE]
            \* a rollback without the rollback-in-batch annotation: "preparing rollback, wait" (the Rollout cancels)
            ELSE IF (ev = "rollback" \/ p.rollbackAnno) /\ p.noNeed = -1 /\ p.phase = "Progressing" THEN [s |-> st0, stop |-> TRUE]
            ELSE [s |-> st0, stop |-> FALSE]
      \* refreshStatus
      sR == LET x == sp.s IN
            LET y == IF ~(x.wl.exists /\ ~x.br.deleting) THEN x
                     ELSE IF IsBlueGreen(x) THEN [x EXCEPT !.br.stUpd = x.wl.stUpdated, !.br.stUpdRdy = x.wl.rd[x.wl.specRev]]
                     ELSE IF CanaryStyle(x)
                          THEN (IF CanaryFound(x) THEN [x EXCEPT !.br.stUpd = x.wl.cd.pods, !.br.stUpdRdy = x.wl.cd.avail]
                                ELSE [x EXCEPT !.br.stUpd = 0, !.br.stUpdRdy = 0])
                          ELSE [x EXCEPT !.br.stUpd = x.wl.stUpdated, !.br.stUpdRdy = x.wl.stUpdRdy]
                z == IF sA.br.phase = "" THEN [y EXCEPT !.br.hashOk = TRUE] ELSE y     \* an empty observed hash is initialised
            IN  [z EXCEPT !.br.obsRid = z.br.rid]
      changed == [sR.br EXCEPT !.obsGenOk = TRUE] # [sA.br EXCEPT !.obsGenOk = TRUE]
      fin(x) == [x EXCEPT !.br.obsGenOk = TRUE]                           \* updateStatus: observedGeneration := generation
  IN
  IF sp.stop \/ changed THEN fin(sR)
  ELSE
  IF CanaryStyle(sR) THEN BrExecCanary(sR)
  ELSE IF IsBlueGreen(sR) THEN BrExecBlueGreen(sR)
  ELSE
  CASE sR.br.phase = "Preparing" ->
         \* Initialize: claim the workload (control-info annotation, partition 100%, un-paused), record revisions
         LET ik == InitKnob(sR)
             claimed == IF sR.wl.ctrl THEN sR ELSE [sR EXCEPT !.wl.ctrl = TRUE, !.wl.ktype = ik.ktype, !.wl.kval = ik.kval, !.wl.paused = FALSE,
                                                              !.wl.genOk = (sR.wl.ktype = ik.ktype /\ sR.wl.kval = ik.kval /\ ~sR.wl.paused /\ sR.wl.genOk)]
         IN  fin([claimed EXCEPT !.br.phase = "Progressing", !.br.stableRev = sR.wl.stableRev, !.br.updRev = sR.wl.updRev, !.br.obsR = sR.wl.R])
    [] sR.br.phase = "Progressing" ->
         CASE sR.br.bstate \in {"", "Upgrading"} ->
                IF sR.wl.R = 0 THEN fin([sR EXCEPT !.br.bstate = "Verifying"])
                ELSE LET k == BrUpgradeKnob(sR)
                         l == [k EXCEPT !.wl.labelled = LabelAfterPass(k)]
                     IN  fin([l EXCEPT !.br.bstate = "Verifying"])
           [] sR.br.bstate = "Verifying" ->
                IF sR.wl.R = 0 \/ BrReadyNow(sR) THEN fin([sR EXCEPT !.br.bstate = "Ready"]) ELSE fin([sR EXCEPT !.br.bstate = "Upgrading"])
           [] sR.br.bstate = "Ready" ->
                IF ~(sR.wl.R = 0 \/ BrReadyNow(sR)) THEN fin([sR EXCEPT !.br.bstate = "Upgrading"])
                ELSE IF sR.br.partition >= 0 /\ sR.br.partition <= sR.br.batch THEN fin(sR)
                ELSE fin([sR EXCEPT !.br.batch = IF sR.br.partition = -1 \/ sR.br.partition > sR.br.batch THEN sR.br.batch + 1 ELSE sR.br.batch,
                                    !.br.bstate = "Upgrading"])
           [] OTHER -> fin(sR)
    [] sR.br.phase = "Finalizing" ->
         \* Finalize: release the workload (and promote it when batchPartition is nil)
         LET rel == IF ~sR.wl.exists THEN sR
                    ELSE IF sR.br.partition = -1
                         THEN [sR EXCEPT !.wl.ctrl = FALSE, !.wl.ktype = "none", !.wl.kval = 0, !.wl.paused = FALSE,
                                         !.wl.genOk = (sR.wl.ktype = "none" /\ ~sR.wl.paused /\ sR.wl.genOk)]
                         ELSE [sR EXCEPT !.wl.ctrl = FALSE]
         IN  fin([rel EXCEPT !.br.phase = "Completed"])
    [] OTHER -> fin(sR)

\* -------------------------------------------------------------- environment
\* simulated CloneSet controller (harness/sim/cloneset.go)
Pods(s) == s.wl.n[1] + s.wl.n[2] + s.wl.n[3]
Recount(s) ==
  LET u == s.wl.updRev
      all == Pods(s)
      rdy == s.wl.rd[1] + s.wl.rd[2] + s.wl.rd[3]
      s1 == [s EXCEPT !.wl.stRepl = all, !.wl.stUpdated = s.wl.n[u], !.wl.stUpdRdy = s.wl.rd[u]]
  IN  IF s.wl.n[u] = all /\ s.wl.rd[u] >= all /\ all = s.wl.R /\ s.wl.kind # "DaemonSet" THEN [s1 EXCEPT !.wl.stableRev = u] ELSE s1

EnvObserved(s) == s.wl.genOk /\ s.wl.updRev = s.wl.specRev
OldPods(s) == Pods(s) - s.wl.n[s.wl.specRev]
EnvEnabled(s, a) ==
  /\ s.wl.exists
  /\ CASE a = "env.observe" -> ~EnvObserved(s)
       [] a = "env.update"  -> EnvObserved(s) /\ ~s.wl.paused /\ OldPods(s) > PartitionCount(s.wl.ktype, s.wl.kval, s.wl.R)
       [] a = "env.ready"   -> EnvObserved(s) /\ \E r \in 1..3 : s.wl.rd[r] < s.wl.n[r]
       [] a = "env.scale"   -> EnvObserved(s) /\ Pods(s) # s.wl.R
       [] OTHER -> FALSE

\* which revision loses / gains a pod is decided by pod names in the harness; the model takes the lowest revision
LowestOld(s) == CHOOSE r \in 1..3 : r # s.wl.specRev /\ s.wl.n[r] > 0 /\ \A q \in 1..3 : (q # s.wl.specRev /\ s.wl.n[q] > 0) => r <= q

\* pod-level steps: which pod is recreated / becomes ready is decided by pod names in the harness, so the
\* model gives the SET of possible successors
Bump(f, r, d) == [f EXCEPT ![r] = f[r] + d]

EnvSet(s, a) ==
  LET u == s.wl.specRev IN
  CASE a = "env.observe" ->
         {Recount([s EXCEPT !.wl.genOk = TRUE, !.wl.updRev = u,
                            !.wl.labelled = IF s.wl.updRev = u THEN s.wl.labelled ELSE 0])}
    [] a = "env.update" ->      \* one pod of another revision is recreated (unready) at the update revision
         {Recount([s EXCEPT !.wl.n = Bump(Bump(s.wl.n, r, -1), u, 1), !.wl.rd = Bump(s.wl.rd, r, -dr)]) :
            r \in {x \in 1..3 : x # u /\ s.wl.n[x] > 0}, dr \in {0, 1}} 
    [] a = "env.ready" ->
         {Recount([s EXCEPT !.wl.rd = Bump(s.wl.rd, r, 1)]) : r \in {x \in 1..3 : s.wl.rd[x] < s.wl.n[x]}}
    [] a = "env.unready" ->
         {Recount([s EXCEPT !.wl.rd = Bump(s.wl.rd, u, -1)])}
    [] a = "env.scale" ->
         LET pc == PartitionCount(s.wl.ktype, s.wl.kval, s.wl.R)
             oldN == Pods(s) - s.wl.n[u]
         IN
         IF Pods(s) < s.wl.R
         THEN \* scale-out: pods are created at the current revision while fewer than ceil(partition) old pods exist
              LET r == IF oldN >= pc \/ s.wl.stableRev \notin 1..3 THEN u ELSE s.wl.stableRev
              IN  {Recount([s EXCEPT !.wl.n = Bump(s.wl.n, r, 1)])}
         ELSE \* scale-in keeps ceil(partition) old pods: an old pod goes only while more than that exist
              LET wantOld == oldN > pc \/ s.wl.n[u] = 0
                  cand == IF wantOld THEN {x \in 1..3 : x # u /\ s.wl.n[x] > 0} ELSE {u}
              IN  {Recount([s EXCEPT !.wl.n = Bump(s.wl.n, r, -1), !.wl.rd = Bump(s.wl.rd, r, -dr), !.wl.labelled = s.wl.labelled - dl]) :
                     r \in cand, dr \in {0, 1}, dl \in {0, 1}}
    [] OTHER -> {s}

WellFormedPods(s) == \A r \in 1..3 : s.wl.rd[r] >= 0 /\ s.wl.rd[r] <= s.wl.n[r] /\ s.wl.n[r] >= 0

\* --------------------------------------------------------------------- time
TickStep(s) ==
  [s EXCEPT !.ro.fresh = FALSE, !.ro.condFresh = FALSE,
            !.mem.gold = SetToSeq(SeqToSet(s.mem.gold) \cup SeqToSet(s.mem.gf)), !.mem.gf = <<>>]

\* --------------------------------------------------------------------- user
\* the mutating webhook on a template change (workload_update_handler.go handleCloneSet): the workload is put
\* on hold (partition 100%, in-progressing marker) iff an active Rollout matches and, with traffic routing,
\* the workload runs a single revision
\* a rollout-id annotation that is present and UNCHANGED by the update: the webhook does not treat the update as a release
\* (the harness bumps the id with every release except in the fixed-id scenarios, whose id is "idfix")
RidUnchanged(s) == s.wl.rid = "idfix"
WebhookHolds(s) ==
  /\ ~RidUnchanged(s)
  /\ s.wl.R > 0
  /\ s.ro.exists /\ ~s.ro.deleting /\ s.ro.phase # "Disabled"
  /\ (HasProvider(s) /\ s.wl.kind = "CloneSet" => s.wl.stRepl = s.wl.stUpdated)   \* only handleCloneSet checks for a single revision

\* handleDeployment (canary style): while in progress every update is (re-)paused; otherwise the Deployment is put on hold
\* (paused, in-progressing marker, stable-revision label) iff an active Rollout matches, it has an active ReplicaSet
\* and, with traffic routing, exactly one
ReleaseDep(s, rev) ==
  LET s1 == [s EXCEPT !.user.rev = rev, !.wl.specRev = rev, !.wl.updRev = rev, !.wl.genOk = FALSE]
      active == Cardinality({r \in 1..3 : s.wl.rsSpec[r] > 0})
  IN  IF rev = s.wl.specRev THEN s
      ELSE IF s.wl.inprog THEN DepDerive([s1 EXCEPT !.wl.paused = TRUE])
      ELSE IF /\ s.wl.R > 0 /\ s.ro.exists /\ ~s.ro.deleting /\ s.ro.phase # "Disabled"
              /\ active >= 1 /\ (HasProvider(s) => active = 1)
           THEN DepDerive([s1 EXCEPT !.wl.paused = TRUE, !.wl.inprog = TRUE, !.wl.stableLabel = s.wl.stableRev])
           ELSE s1

Release(s, rev) ==
  LET s1 == [s EXCEPT !.user.rev = rev, !.wl.specRev = rev, !.wl.genOk = FALSE] IN
  IF IsDeployment(s) THEN ReleaseDep(s, rev)
  ELSE IF rev = s.wl.specRev THEN s
  ELSE IF WebhookHolds(s) THEN [s1 EXCEPT !.wl.ktype = HoldKnob(s).ktype, !.wl.kval = HoldKnob(s).kval, !.wl.inprog = TRUE] ELSE s1

JumpActs == {"user.jump:1", "user.jump:2", "user.jump:3", "user.jump:4", "user.jump:5", "user.jump:0", "user.jump:-2"}
JumpTargetOf(a) == CASE a = "user.jump:1" -> 1 [] a = "user.jump:2" -> 2 [] a = "user.jump:3" -> 3 [] a = "user.jump:4" -> 4
                     [] a = "user.jump:5" -> 5 [] a = "user.jump:0" -> 0 [] OTHER -> 0 - 2
UserSet(s, a) ==
  CASE a = "user.approve" -> {[s EXCEPT !.ro.state = "StepReady"]}
    [] a = "user.pause"   -> {[s EXCEPT !.user.paused = TRUE]}
    [] a = "user.resume"  -> {[s EXCEPT !.user.paused = FALSE]}
    [] a = "user.disable" -> {[s EXCEPT !.user.disabled = TRUE]}
    [] a = "user.enable"  -> {[s EXCEPT !.user.disabled = FALSE]}
    [] a \in {"user.delete", "user.deleteidle"} -> {IF s.ro.finalizer THEN [s EXCEPT !.user.deleted = TRUE, !.ro.deleting = TRUE]
                              ELSE [s EXCEPT !.user.deleted = TRUE, !.ro = GoneRo]}
    [] a = "user.release2" -> {Release(s, 2)}
    [] a \in {"user.release3", "user.release3late"} -> {Release(s, 3)}
    [] a = "user.rollback" -> {[Release(s, 1) EXCEPT !.user.rolledBack = TRUE]}
    [] a = "user.scale"    -> {DepDerive([s EXCEPT !.wl.R = r, !.wl.genOk = FALSE]) : r \in (1..12) \ {s.wl.R}}
    [] a \in JumpActs -> {[s EXCEPT !.ro.next = JumpTargetOf(a)]}
    [] a = "user.switchstyle" -> {[s EXCEPT !.ro.bg = TRUE]}
    [] a = "user.trdelete" -> {IF ~s.tr.exists THEN s
                               ELSE IF s.tr.finalizer \/ s.tr.prog > 0 THEN [s EXCEPT !.tr.deleting = TRUE, !.tr.obsOk = s.tr.obsOk]
                               ELSE [s EXCEPT !.tr = GoneTr]}
    [] OTHER -> {s}

\* ------------------------------------------------------------ the step function
UserActs == {"user.approve", "user.pause", "user.resume", "user.disable", "user.enable", "user.delete", "user.deleteidle", "user.release2", "user.release3late",
             "user.release3", "user.rollback", "user.scale", "user.switchstyle"} \cup JumpActs
EnvActs  == {"env.observe", "env.update", "env.ready", "env.unready", "env.scale"}

ModelledPartition(p, a) ==
  /\ p.wl.exists => (p.wl.kind \in PartitionKinds /\ p.wl.style = "partition")
  /\ a \in {"ro", "br", "tick"} \cup EnvActs \cup UserActs
\* Deployment, canary style: the controllers, time and the user (the simulated native Deployment / ReplicaSet
\* controllers of the harness are environment and not modelled)
ModelledCanary(p, a) ==
  /\ p.wl.exists /\ p.wl.kind = "Deployment" /\ p.wl.style = "canary"
  /\ a \in {"ro", "br", "tick"} \cup UserActs /\ p.wl.cd.n <= 1
ModelledBlueGreen(p, a) ==
  /\ p.wl.exists /\ p.wl.kind = "Deployment" /\ p.wl.style = "bluegreen"
  /\ a \in {"ro", "br", "tick"} \cup UserActs
Modelled(p, a) ==
  \/ ModelledPartition(p, a) \/ ModelledCanary(p, a) \/ ModelledBlueGreen(p, a)
  \/ (p.tr.used /\ a \in {"tr", "user.trdelete"})

\* successor set of one action (singletons for the deterministic controller reconciles)
\* Deliberate deviation: whether a reconcile that changes nothing but status MESSAGES writes the status is not modelled
\* (messages are not part of the abstract state); such a write also persists the corrected nextStepIndex.
RoStepSet(p) ==
  LET r == RoStepAny(p) IN
  IF /\ p.ro.exists /\ r.ro.exists /\ p.ro.hasSub /\ p.ro.phase = "Progressing" /\ p.ro.reason = "InRolling"
     /\ (p.ro.next <= 0 \/ p.ro.next > N(p)) /\ r.ro.next = p.ro.next
  THEN {r, [r EXCEPT !.ro.next = NextIdx(p, p.ro.step)]} ELSE {r}

StepSet(p, a) ==
  CASE a = "ro" -> RoStepSet(p)
    [] a = "tr" -> {TrStep(p)}
    [] a = "br" -> {BrStep(p)}
    [] a = "tick" -> {TickStep(p)}
    [] a \in EnvActs -> EnvSet(p, a)
    [] OTHER -> UserSet(p, a)

\* the fields the model claims (everything except ghost history, budgets and rollout-id strings)
ModelView(s) == [ro |-> [s.ro EXCEPT !.rid = "", !.aux = ""], br |-> [s.br EXCEPT !.rid = "", !.obsRid = ""],
                 \* pod labels are decided by LabelPatch.tla (C12); the closed-loop model only reads the count
                 wl |-> [s.wl EXCEPT !.lab = <<>>, !.labelled = 0, !.rid = ""],
                 net |-> [s.net EXCEPT !.svcSelKeys = 0], mem |-> s.mem, user |-> s.user, tr |-> s.tr]

RecDiff(a, b, pfx) == {pfx \o "." \o f : f \in {g \in DOMAIN a : a[g] # b[g]}}
ViewDiff(a, b) ==
  RecDiff(a.ro, b.ro, "ro") \cup RecDiff(a.br, b.br, "br") \cup RecDiff(a.wl, b.wl, "wl")
    \cup RecDiff(a.net, b.net, "net") \cup RecDiff(a.mem, b.mem, "mem") \cup RecDiff(a.user, b.user, "user")
    \cup RecDiff(a.tr, b.tr, "tr")
=============================================================================
