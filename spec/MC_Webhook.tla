----------------------------- MODULE MC_Webhook -----------------------------
(* Exhaustive check of the reference definition Ref of Webhook.tla against the property predicates
   W1..W4 over a bounded abstract domain: one TLC state per abstract input (kind x label shape x
   replicas x rollout-id pair x template change x style x strategy shape x list of at most two
   Rollouts out of six archetypes x ReplicaSets x single revision x submitted projection).
   Also checks that "must be held" (W1) and "must be admitted unchanged" (W3) never overlap. *)
EXTENDS Webhook, TLC

VARIABLES kind, labels, replicas, oldId, newId, tmpl, style, strategy, ros, rs, single, paused, part, marker
vars == <<kind, labels, replicas, oldId, newId, tmpl, style, strategy, ros, rs, single, paused, part, marker>>

Ro(n, m, del, dis, e, t) == [name |-> n, match |-> m, deleting |-> del, disabled |-> dis, empty |-> e, traffic |-> t]
RoTypes == { Ro("r0-empty",     TRUE,  FALSE, FALSE, TRUE,  FALSE),
             Ro("r1-deleting",  TRUE,  TRUE,  FALSE, FALSE, FALSE),
             Ro("r2-disabled",  TRUE,  FALSE, TRUE,  FALSE, FALSE),
             Ro("r3-othername", FALSE, FALSE, FALSE, FALSE, FALSE),
             Ro("r4-canary",    TRUE,  FALSE, FALSE, FALSE, FALSE),
             Ro("r5-traffic",   TRUE,  FALSE, FALSE, FALSE, TRUE) }
RoLists == {<<>>} \cup {<<a>> : a \in RoTypes} \cup {<<ab[1], ab[2]>> : ab \in {x \in RoTypes \X RoTypes : x[1] # x[2]}}

Ids == {"", "a", "b"}
Parts == { [partType |-> "none", partInt |-> 0, partStr |-> ""],
           [partType |-> "int",  partInt |-> 1, partStr |-> ""],
           [partType |-> "str",  partInt |-> 0, partStr |-> "50%"] }

Init ==
  /\ kind \in {"Deployment", "CloneSet", "DaemonSet", "StatefulSet"}
  /\ labels \in {"nil", "sel"}
  /\ replicas \in {-1, 0, 3}
  /\ oldId \in Ids /\ newId \in Ids
  /\ tmpl \in {"same", "hash", "changed"}
  /\ style \in (IF kind = "Deployment" THEN {"none", "canary", "partition", "bluegreen"} ELSE {"none"})
  /\ strategy \in (IF kind = "Deployment" THEN {"absent"} ELSE {"absent", "rolling", "ondelete"})
  /\ ros \in RoLists
  /\ rs \in (IF kind = "Deployment" THEN {0, 1, 2} ELSE {0})
  /\ single \in (IF kind = "Deployment" THEN {rs = 1} ELSE BOOLEAN)
  /\ paused \in (IF kind = "Deployment" THEN BOOLEAN ELSE {FALSE})
  /\ part \in (IF kind = "Deployment" THEN {CHOOSE p \in Parts : p.partType = "none"}
               ELSE IF kind = "CloneSet" THEN Parts ELSE {p \in Parts : p.partType # "str"})
  /\ marker \in (IF kind = "Deployment" THEN {"", "r4-canary", "zz-other"} ELSE {"", "zz-other"})
Next == UNCHANGED vars
Spec == Init /\ [][Next]_vars

I == [kind |-> kind, labels |-> labels, replicas |-> replicas, oldId |-> oldId, newId |-> newId, tmpl |-> tmpl, style |-> style,
      strategy |-> strategy, ros |-> ros, rs |-> rs, single |-> single,
      cur |-> [paused |-> paused, partType |-> part.partType, partInt |-> part.partInt, partStr |-> part.partStr, marker |-> marker]]

\* the reference satisfies every predicate about the admitted object
RefSatisfies == \A n \in Props \ {"W2_frame", "W5_noPanic"} : AnteIn(n, I) => HoldsIO(n, I, RefOut(I))
\* ... and writes only where the webhook may write
RefFrame == FrameOK(I, RefDiff(I))
\* the obligations never contradict each other
Consistent == ~(W1Ante(I) /\ W3Ante(I))
\* a hold of the reference is always a full one and carries the marker of a candidate
RefHoldIsFull == (Ref(I) # I.cur /\ ~(I.kind = "Deployment" /\ InProgress(I))) => Held(I, Ref(I)) /\ Ref(I).marker \in CandNames(I)
=============================================================================
