----------------------------- MODULE CustomNet -----------------------------
(***************************************************************************)
(* Custom (Lua) network resources of Kruise Rollouts (property C15).       *)
(*                                                                         *)
(* Code anchored:                                                          *)
(*   pkg/trafficrouting/network/customNetworkProvider/                     *)
(*       custom_network_provider.go  Initialize / EnsureRoutes / Finalise, *)
(*       storeObject (snapshot annotation                                  *)
(*       rollouts.kruise.io/original-spec-configuration), restoreObject,   *)
(*       executeLuaForCanary, compareAndUpdateObject                       *)
(*   pkg/util/luamanager  (decodeValue / Encode: the JSON <-> Lua bridge)  *)
(*   lua_configuration/networking.istio.io/{VirtualService,DestinationRule}*)
(*       /trafficRouting.lua                                               *)
(*                                                                         *)
(* Part 1: the provider as a state machine over an abstract resource.      *)
(* Part 2: the generated well-behaved scripts over a projection.           *)
(* Part 3: the shipped VirtualService script over abstract routes.         *)
(* Part 4: the property operators (what C15 demands of an output).         *)
(***************************************************************************)
EXTENDS Integers, Sequences, FiniteSets

Absent == -9      \* projection sentinel: the field does not exist
NoTraffic == -1   \* a step without a traffic percentage (handed to the script as canaryWeight = -1)

Last(s) == s[Len(s)]

(***************************************************************************)
(* Part 2. A step is [w, m]: w in -1..100 the canary percentage, m the     *)
(* number of header matches. A generated script is a pure function of the  *)
(* original configuration and the step; the projection of a configuration  *)
(* is [w, dw, items, annw, lab, nm]:                                       *)
(*   w = spec.weight, dw = spec.a.b.w, items = weights of spec.items[*],   *)
(*   annw = annotation canary-weight, lab = 1 iff label canary, nm =       *)
(*   spec.nmatch.                                                          *)
(***************************************************************************)
Script(sc, o, st) ==
  CASE sc = "set"     -> [o EXCEPT !.w = st.w]
    [] sc = "setDeep" -> [o EXCEPT !.dw = st.w]
    [] sc = "append"  -> [o EXCEPT !.items = Append(@, st.w)]
    [] sc = "meta"    -> [o EXCEPT !.annw = st.w, !.lab = 1]
    [] sc = "metaMatch" -> IF st.m > 0 THEN [o EXCEPT !.annw = 1000 + st.m] ELSE o   \* an annotation on match steps only
    [] sc = "all"     -> [w |-> st.w, dw |-> st.w, items |-> Append(o.items, st.w), annw |-> st.w, lab |-> 1, nm |-> st.m]
    [] OTHER          -> o      \* "ident"

(***************************************************************************)
(* Part 1. A managed resource is [cur, snap]: the configuration the API    *)
(* server holds and the snapshot annotation (<<>> = absent, <<o>> = the    *)
(* user's original o).                                                     *)
(***************************************************************************)
Fresh(o) == [cur |-> o, snap |-> <<>>]
Base(r)  == IF r.snap = <<>> THEN r.cur ELSE r.snap[1]

\* EnsureRoutes (driven until it reports done): snapshot on first touch, then write Script(snapshot, step)
Ensure(sc, r, st) == [cur |-> Script(sc, Base(r), st), snap |-> <<Base(r)>>]

\* Finalise: restore from the snapshot and drop it; nothing to do without a snapshot
Fin(r) == [cur |-> Base(r), snap |-> <<>>]

RECURSIVE RunSeq(_, _, _)
RunSeq(sc, r, steps) == IF steps = <<>> THEN r ELSE RunSeq(sc, Ensure(sc, r, Head(steps)), Tail(steps))

(***************************************************************************)
(* Part 3. A VirtualService http route is [dests, um]: dests a sequence of *)
(* [h, s, w] (host class, subset or "", weight or -1), um the user's own   *)
(* match clause ("none" if the route has none). Host classes:              *)
(*   stable     "stable"                     the rollout's stable Service  *)
(*   stableFq   "stable.default.svc.cluster.local"      the same Service   *)
(*   stableNs   "stable.otherns.svc.cluster.local"  a Service of ANOTHER   *)
(*                                               namespace, same short name*)
(*   stablePfx  "stable-v2"   other, otherFq, canary                       *)
(***************************************************************************)
\* what the property means by "the stable destination" (VirtualService and rollout live in namespace default)
IsStable(h) == h \in {"stable", "stableFq"}

\* how the shipped script decides (GetHost: the text before the first dot equals stableService)
ScriptSeesStable(h) == h \in {"stable", "stableFq", "stableNs"}

CanaryDest(w, same) == IF same THEN [h |-> "stable", s |-> "canary", w |-> w]
                               ELSE [h |-> "canary", s |-> "", w |-> w]

\* CalculateWeight(route, stableWeight, n)
Scaled(d, sw, n) == [d EXCEPT !.w = IF d.w # -1 THEN (d.w * sw) \div 100 ELSE sw \div n]

\* GenerateRoutes: a rule is patched once per destination that looks stable
RECURSIVE Patch(_, _, _, _, _)
Patch(dests, k, sw, cw, same) ==
  IF k = 0 THEN dests
  ELSE Patch(Append([i \in 1..Len(dests) |-> Scaled(dests[i], sw, Len(dests))], CanaryDest(cw, same)), k - 1, sw, cw, same)

NSeen(rt) == Cardinality({i \in 1..Len(rt.dests) : ScriptSeesStable(rt.dests[i].h)})

RefRouteDests(rt, st, same) ==
  LET cw == IF st.w = NoTraffic THEN 100 ELSE st.w
  IN  IF rt.um = "none" THEN Patch(rt.dests, NSeen(rt), 100 - cw, cw, same) ELSE rt.dests

\* GenerateRoutesWithMatches: one route per match inserted at the head; weights are ignored then
RefVSDests(routes, st, same) ==
  IF st.m > 0
  THEN [i \in 1..st.m |-> << [CanaryDest(0, same) EXCEPT !.w = -1] >>] \o [i \in 1..Len(routes) |-> routes[i].dests]
  ELSE [i \in 1..Len(routes) |-> RefRouteDests(routes[i], st, same)]

(***************************************************************************)
(* Part 4. Property operators.                                             *)
(***************************************************************************)
\* N1: steps never accumulate. after = configuration after the whole sequence, single = configuration
\* after only the last step applied to the original
HistoryIndependent(after, single) == after = single

\* N2: finalising gives back exactly the user's configuration, the snapshot is gone
Restored(orig, final, snapLeft) == final = orig /\ ~snapLeft

\* N3a: a route with a single stable destination becomes exactly {stable 100-w, canary w}
SingleStable(rt) == Len(rt.dests) = 1 /\ IsStable(rt.dests[1].h)
SplitExact(rt, outDests, w, same) ==
  /\ Len(outDests) = 2
  /\ {outDests[1], outDests[2]} = {[rt.dests[1] EXCEPT !.w = 100 - w], CanaryDest(w, same)}

\* N3b: a route none of whose destinations is the stable Service is left exactly as it was
OtherHosts(rt) == \A i \in 1..Len(rt.dests) : ~IsStable(rt.dests[i].h)

\* N4 (C07c): when nothing changes nothing is written
NoWrite(done, effWrites) == done /\ effWrites = 0

(***************************************************************************)
(* Lemmas on the reference definitions (checked exhaustively by MC_CustomNet)*)
(***************************************************************************)
\* routes on which the shipped script and the property agree about "stable", without own match, with
\* no explicit weight other than 100 on a single destination
Plain(rt) ==
  /\ rt.um = "none"
  /\ \A i \in 1..Len(rt.dests) : IsStable(rt.dests[i].h) <=> ScriptSeesStable(rt.dests[i].h)
  /\ SingleStable(rt) => rt.dests[1].w \in {-1, 100}

LemmaVS(routes, w, same) ==
  LET st == [w |-> w, m |-> 0]
      o  == RefVSDests(routes, st, same)
  IN  /\ Len(o) = Len(routes)
      /\ \A j \in 1..Len(routes) :
           /\ (SingleStable(routes[j]) => SplitExact(routes[j], o[j], w, same))
           /\ (OtherHosts(routes[j]) => o[j] = routes[j].dests)

LemmaVSMatches(routes, m, same) ==
  LET o == RefVSDests(routes, [w |-> NoTraffic, m |-> m], same)
  IN  /\ Len(o) = Len(routes) + m
      /\ \A j \in 1..Len(routes) : o[j + m] = routes[j].dests
=============================================================================
