SPECIFICATION Spec
CONSTANTS
  RMax = 3
  RMax2 = 3
INVARIANTS TypeOK I_D5
PROPERTIES P_D1 P_D2 P_D3 P_D4
CHECK_DEADLOCK FALSE
