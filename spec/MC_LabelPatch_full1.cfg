SPECIFICATION Spec
CONSTANT MaxPods = 1
CONSTANT Small = FALSE
INVARIANT Lemma
CHECK_DEADLOCK FALSE
