SPECIFICATION Spec
INVARIANT InvAlphaRoundTrip
INVARIANT InvStored
INVARIANT InvBetaRoundTrip
INVARIANT InvSpecStyle
INVARIANT InvStable
INVARIANT InvNonCanary
INVARIANT InvDerive
CHECK_DEADLOCK FALSE
