SPECIFICATION SpecLive
CONSTANTS
  RMax = 2
  RMax2 = 1
PROPERTIES L_D5
CHECK_DEADLOCK FALSE
