--------------------------- MODULE ConversionTrace ---------------------------
(***************************************************************************)
(* Function-level trace validation (binding B4) for Conversion.tla: every  *)
(* record is one execution of the REAL ConvertTo / ConvertFrom of          *)
(* api/v1alpha1/conversion.go on an object of the bounded domain           *)
(* (harness/cmd/fn-conversion).                                            *)
(*   in.dir = "alpha":  x0 = P(a), y1 = P(ConvertTo(a)) as stored,         *)
(*                      x2 = P(ConvertFrom(y1)) as read back               *)
(*   in.dir = "beta":   x0 = P(b), y1 = P(ConvertFrom(b)),                 *)
(*                      x2 = P(ConvertTo(y1))  (stages = 1: read only)     *)
(*   layer P: the property predicates on the REAL output                   *)
(*   layer C: equality with the reference conversions, fields the property *)
(*            does not list, the frame condition (drift only)              *)
(***************************************************************************)
EXTENDS Conversion, Json, IOUtils

Cases == ndJsonDeserialize(IOEnv.VERIF_CASES)

Props == {"C20_noPanic", "C20_alphaRoundTrip", "C20_betaRoundTrip", "C20_alphaSpecStyle", "C20_noPanicNonCanary"}

Ok(c) == c.panic = "" /\ c.err = ""

\* the objects the property quantifies over: every v1alpha1 object, every v1beta1 BatchRelease and every
\* canary-strategy v1beta1 Rollout; the remaining v1beta1 Rollouts (blue-green, both, no strategy block)
\* are still "objects the v1beta1 schema admits" and must convert without crashing
Quantified(c) == c.in.dir = "alpha" \/ c.in.kind = "BatchRelease" \/ c.in.strategy = "canary"

Ante(n, c) ==
  CASE n = "C20_noPanic"          -> Quantified(c)
    [] n = "C20_noPanicNonCanary" -> ~Quantified(c)
    [] n = "C20_alphaRoundTrip"   -> c.in.dir = "alpha" /\ Ok(c)
    [] n = "C20_betaRoundTrip"    -> c.in.dir = "beta" /\ Quantified(c) /\ ~c.in.betaOnly /\ ~c.in.annConflict /\ Ok(c)
    [] n = "C20_alphaSpecStyle"   -> c.in.dir = "alpha" /\ Ok(c) /\ UsesSpecStyle(c.in.kind, c.out.x0)

Holds(n, c) ==
  CASE n = "C20_noPanic"          -> Ok(c)                                                   \* V3
    [] n = "C20_noPanicNonCanary" -> Ok(c)                                                   \* V3, any schema-admitted object
    [] n = "C20_alphaRoundTrip"   -> LawAlphaRoundTrip(c.in.kind, c.out.x0, c.out.x2)        \* V1
    [] n = "C20_betaRoundTrip"    -> LawBetaRoundTrip(c.in.kind, c.out.x0, c.out.x2)         \* V2
    [] n = "C20_alphaSpecStyle"   -> LawAlphaSpecStyle(c.in.kind, c.out.x0, c.out.x2)        \* V1, style declared in spec.releasePlan.rollingStyle

\* layer C
Stage1Ref(c) == IF c.in.dir = "alpha" THEN RefToBeta(c.in.kind, c.out.x0) ELSE RefToAlpha(c.in.kind, c.out.x0)
Stage2Ref(c) == IF c.out.stages = 1 THEN c.out.x2
                ELSE IF c.in.dir = "alpha" THEN RefToAlpha(c.in.kind, c.out.y1) ELSE RefToBeta(c.in.kind, c.out.y1)
Judged(c) == IF Ante("C20_alphaRoundTrip", c) THEN Listed(c.in.kind)
             ELSE IF Ante("C20_betaRoundTrip", c) THEN Expressible(c.in.kind) ELSE {}

\* one short token per differing field (TLC wraps printed tuples longer than a line, which the result
\* parser would not read: at most three tokens, otherwise their number)
DriftRaw(c) ==
  LET r1 == Stage1Ref(c)
      r2 == Stage2Ref(c)
  IN  {g \in DOMAIN r1 : c.out.y1[g] # r1[g]}                      \* first conversion vs reference
      \cup {g \in DOMAIN r2 : c.out.x2[g] # r2[g]}                 \* second conversion vs reference
      \cup DiffMeaning(c.in.kind, AllFields(c.in.kind) \ Judged(c), c.out.x0, c.out.x2)   \* round trip, unlisted fields
      \cup (IF c.out.mut0 # <<>> \/ c.out.mut1 # <<>> THEN {"frame"} ELSE {})  \* V4: a conversion modified its source (informational)

DriftFields(c) ==
  IF ~Ok(c) THEN {}
  ELSE LET d == DriftRaw(c)
       IN  IF Cardinality(d) <= 3 THEN d ELSE {"many:" \o ToString(Cardinality(d))}

VARIABLES l, cnt
Init == l = 1 /\ cnt = [n \in Props |-> 0]
Next ==
  /\ l <= Len(Cases)
  /\ l' = l + 1
  /\ LET c == Cases[l]
         bad == {n \in Props : Ante(n, c) /\ ~Holds(n, c)}
     IN  /\ cnt' = [n \in Props |-> IF Ante(n, c) THEN cnt[n] + 1 ELSE cnt[n]]
         /\ (bad = {} \/ PrintT(<<"BAD", c.id, bad>>))
         /\ (DriftFields(c) = {} \/ PrintT(<<"DRIFT", c.id, "fn", DriftFields(c)>>))
Spec == Init /\ [][Next]_<<l, cnt>>
Accepted == (l = Len(Cases) + 1) => PrintT(<<"TRACE-DONE", Len(Cases), Len(Cases), ToJson(cnt)>>)
=============================================================================
