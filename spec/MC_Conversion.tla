---------------------------- MODULE MC_Conversion ----------------------------
(* Exhaustive check of the conversion laws of Conversion.tla on the reference conversions:
   one TLC state per abstract object (projection) of the bounded domain.  A counterexample here is a
   defect of the model (meaning function / reference conversion), never a verdict about /repo. *)
EXTENDS Conversion
VARIABLE obj     \* [kind, dir, p]

Match1 == <<<<"user-agent|Exact|pc">>>>
StepSet == [weight : {NONE, 0, 20}, trafficRaw : {""}, replicas : {"none", "int:2", "str:50%"}, pause : {NONE, 60},
            matches : {<<>>, Match1}, extraMatch : {FALSE}, hdrmod : {"none"}]
PairSet == {s \in StepSet : s.pause = NONE /\ s.matches = <<>> /\ s.weight # 0}
StepSeqs == {<<>>} \cup {<<s>> : s \in StepSet} \cup {<<s, t>> : s \in PairSet, t \in PairSet}

Route1 == [service |-> "svc-0", grace |-> 3, ingress |-> "|ing-demo", gateway |-> "name=route-demo", customs |-> <<"v|VirtualService|net-0">>]
RouteSeqs == {<<>>, <<Route1>>}

CS1 == [owg |-> 3, orid |-> "rid-1", hash |-> "hash-1", stable |-> "stable-v1", canary |-> "canary-v2", pth |-> "pth-v2", replicas |-> 2,
        ready |-> 1, next |-> 3, cur |-> 2, state |-> "StepPaused", message |-> "paused", lut |-> "t1", fin |-> ""]
StatusA1 == [og |-> 4, phase |-> "Progressing", message |-> "m", conds |-> <<"Progressing|True|t1|t2|InRolling|rolling">>, hasCS |-> TRUE, cs |-> CS1,
             topIdx |-> 0, topState |-> "", hasBG |-> FALSE]
StatusB1 == [StatusA1 EXCEPT !.topIdx = 2, !.topState = "StepPaused"]
Ref == "apps/v1|Deployment|demo"

AlphaRollouts ==
  [ver : {"alpha"}, wref : {"none", Ref}, strategy : {"canary"}, paused : BOOLEAN, disabled : {FALSE}, rolloutID : {"", "rid-1"},
   disableSvc : BOOLEAN, ft : {"none", "int:2"}, steps : StepSeqs, routings : RouteSeqs, patch : {"none"},
   styleAnn : {"", "partition", "canary", "other"}, trAnn : {"", "tr-demo"}, otherAnn : {""}, enableExtra : {FALSE}, trref : {""},
   status : {ZeroRolloutStatus, StatusA1}]
  \cup
  [ver : {"alpha"}, wref : {"none", Ref}, strategy : {"none"}, paused : BOOLEAN, disabled : BOOLEAN, rolloutID : {""},
   disableSvc : {FALSE}, ft : {"none"}, steps : {<<>>}, routings : {<<>>}, patch : {"none"},
   styleAnn : {"", "partition", "canary"}, trAnn : {"", "tr-demo"}, otherAnn : {"", "team-a"}, enableExtra : {FALSE}, trref : {""},
   status : {ZeroRolloutStatus, StatusA1}]

BetaRollouts ==
  [ver : {"beta"}, wref : {Ref}, strategy : {"canary"}, paused : BOOLEAN, disabled : {FALSE}, rolloutID : {""},
   disableSvc : BOOLEAN, ft : {"none", "int:2"}, steps : StepSeqs, routings : RouteSeqs, patch : {"none"},
   styleAnn : {"", "partition", "canary"}, trAnn : {"", "tr-demo", "tr-other"}, otherAnn : {""}, enableExtra : BOOLEAN, trref : {"", "tr-demo"},
   status : {ZeroRolloutStatus, StatusB1}]
  \cup
  [ver : {"beta"}, wref : {Ref}, strategy : {"bluegreen", "both", "none"}, paused : BOOLEAN, disabled : BOOLEAN, rolloutID : {""},
   disableSvc : {FALSE}, ft : {"none"}, steps : {<<>>}, routings : {<<>>}, patch : {"none"},
   styleAnn : {"", "partition"}, trAnn : {""}, otherAnn : {"", "team-a"}, enableExtra : {FALSE}, trref : {""},
   status : {ZeroRolloutStatus, StatusB1}]

BRStatus1 == [stable |-> "stable-v1", update |-> "update-v2", og |-> 4, orid |-> "rid-1", owr |-> 10, hash |-> "plan-hash", collision |-> 1,
              phase |-> "Progressing", conds |-> <<>>, message |-> "", batchState |-> "Verifying", currentBatch |-> 2, readyTime |-> "t1",
              updated |-> 5, updatedReady |-> 4, noNeed |-> 0]
BatchSeqs == {<<>>, <<"int:1">>, <<"str:20%">>, <<"int:1", "str:50%">>}
BRs(ver, wrefs, styles, anns) ==
  [ver : {ver}, wref : wrefs, batches : BatchSeqs, partition : {NONE, 1}, rolloutID : {"", "rid-1"}, ft : {"none", "str:20%"},
   finalizing : {"", "WaitResume"}, patch : {"none", "A{a1=x}L{}"}, specStyle : styles, styleAnn : anns, otherAnn : {""},
   enableExtra : BOOLEAN, status : {BRStatus1}]
AlphaBRs == BRs("alpha", {"none", "apps.kruise.io/v1alpha1|CloneSet|demo"}, {"", "partition", "canary", "bluegreen"}, {"", "partition", "canary", "bluegreen", "other"})
BetaBRs  == BRs("beta", {"||", "apps.kruise.io/v1alpha1|CloneSet|demo"}, {"", "partition", "canary", "bluegreen"}, {"", "partition", "canary", "bluegreen"})

Init == obj \in [kind : {"Rollout"}, dir : {"alpha"}, p : AlphaRollouts] \cup [kind : {"Rollout"}, dir : {"beta"}, p : BetaRollouts]
             \cup [kind : {"BatchRelease"}, dir : {"alpha"}, p : AlphaBRs] \cup [kind : {"BatchRelease"}, dir : {"beta"}, p : BetaBRs]
Next == UNCHANGED obj
Spec == Init /\ [][Next]_obj

K == obj.kind
P == obj.p
Alpha == obj.dir = "alpha"
Via(p) == IF Alpha THEN RefToAlpha(K, RefToBeta(K, p)) ELSE RefToBeta(K, RefToAlpha(K, p))
Conflict == ~Alpha /\ (IF K = "Rollout" THEN RolloutBetaConflict(P) ELSE BRBetaConflict(P))
CanaryLike == K = "BatchRelease" \/ P.strategy = "canary"

\* V1 on the reference: a v1alpha1 object stored as v1beta1 reads back with the same meaning, in every field but
\* the deprecated rolloutID of a Rollout (no place for it in v1beta1)
InvAlphaRoundTrip == Alpha => /\ LawAlphaRoundTrip(K, P, Via(P))
                              /\ SameMeaning(K, AllFields(K) \ (IF K = "Rollout" THEN {"rolloutID"} ELSE {}), P, Via(P))
\* the stored v1beta1 object itself means what the v1alpha1 object meant
InvStored == (Alpha /\ CanaryLike) => SameMeaning(K, Listed(K), P, RefToBeta(K, P))
\* V2 on the reference
InvBetaRoundTrip == (~Alpha /\ CanaryLike /\ ~Conflict) => LawBetaRoundTrip(K, P, Via(P))
InvSpecStyle == (Alpha /\ UsesSpecStyle(K, P)) => LawAlphaSpecStyle(K, P, Via(P))
\* a second write through v1alpha1 stores the same object (up to the normalised style annotation)
InvStable == Alpha => [RefToBeta(K, Via(P)) EXCEPT !.styleAnn = ""] = [RefToBeta(K, P) EXCEPT !.styleAnn = ""]
\* blue-green objects are read through v1alpha1 as metadata only, never as a canary plan
InvNonCanary == (~Alpha /\ K = "Rollout" /\ P.strategy \in {"bluegreen", "both"}) =>
                  LET a == RefToAlpha(K, P) IN a.strategy = "none" /\ a.steps = <<>> /\ a.otherAnn = P.otherAnn /\ a.styleAnn = P.styleAnn
\* the derivation of replicas from weight is idempotent
InvDerive == K = "Rollout" => \A i \in 1..Len(P.steps) : DerivedReplicas([P.steps[i] EXCEPT !.replicas = DerivedReplicas(P.steps[i])]) = DerivedReplicas(P.steps[i])
=============================================================================
