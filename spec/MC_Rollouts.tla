----------------------------- MODULE MC_Rollouts -----------------------------
(***************************************************************************)
(* Exhaustive TLC model check of the closed-loop model RolloutsModel.tla.  *)
(*                                                                         *)
(* The initial state and the action alphabet / budgets come from the SAME  *)
(* configuration file the real-code explorer uses (VERIF_INIT = one JSON   *)
(* line written by `explore -mode init -cfg <cfg>`), so both sides explore *)
(* the same scenario: one source of truth.                                 *)
(*                                                                         *)
(* Checked: every state invariant of RolloutsProps as INVARIANT, every     *)
(* action property as a [][...]_vars action property, modulo the known     *)
(* findings (the KF_ predicates below), which the faithful model reproduces.                   *)
(***************************************************************************)
EXTENDS RolloutsModel, Json, TLC, IOUtils

Cfg == ndJsonDeserialize(IOEnv.VERIF_INIT)[1]
InitState == Cfg.s
Actions == SeqToSet(Cfg.actions)
Budget == Cfg.budget
Plan2 == Cfg.plan2
ScaleTo == Cfg.scaleTo

VARIABLES s, used, last
vars == <<s, used, last>>

BudgetKeys == {"user.release2", "user.release3", "user.rollback", "user.scale", "user.approve", "user.pause", "user.resume",
               "user.disable", "user.enable", "user.delete", "user.editplan", "user.jump", "user.editidle", "user.deleteidle", "user.release3late", "user.trdelete", "user.switchstyle", "env.unready", "total"}

ClassOf(a) == IF a \in JumpActs THEN "user.jump" ELSE a
IsDisturbance(c) == c \in BudgetKeys /\ c \notin {"user.release2", "user.approve", "env.unready", "total"}

JumpTarget(a) == JumpTargetOf(a)

\* harness/sim/world.go userEnabled
UserEnabled(st, a) ==
  LET inProg == st.ro.exists /\ st.ro.phase = "Progressing" IN
  /\ st.ro.exists
  /\ CASE a = "user.release2" -> st.user.rev = 1 /\ st.ro.phase = "Healthy" /\ ~st.ro.deleting
       [] a = "user.release3" -> st.user.rev = 2 /\ inProg
       [] a = "user.release3late" -> st.user.rev = 2 /\ st.ro.phase = "Healthy" /\ st.ro.succeeded = "True" /\ ~st.ro.deleting
       [] a = "user.rollback" -> st.user.rev >= 2 /\ inProg /\ st.wl.n[st.user.rev] > 0 /\ st.wl.n[1] > 0 /\ st.ro.reason \in {"InRolling", "Paused"}
       [] a = "user.scale"    -> inProg
       [] a = "user.approve"  -> inProg /\ st.ro.hasSub /\ st.ro.state = "StepPaused"
       [] a = "user.pause"    -> inProg /\ ~st.user.paused
       [] a = "user.resume"   -> st.user.paused
       [] a = "user.disable"  -> ~st.user.disabled /\ ~st.ro.deleting /\ st.user.rev >= 2
       [] a = "user.enable"   -> st.user.disabled /\ ~st.ro.deleting
       [] a = "user.delete"   -> ~st.ro.deleting /\ st.user.rev >= 2
       [] a = "user.editplan" -> inProg /\ Len(Plan2) > 0
       [] a = "user.editidle" -> st.ro.phase = "Healthy" /\ ~st.ro.deleting /\ Len(Plan2) > 0
       [] a = "user.deleteidle" -> st.ro.phase = "Healthy" /\ ~st.ro.deleting
       [] a = "user.switchstyle" -> st.ro.phase = "Healthy" /\ ~st.ro.deleting /\ ~st.ro.bg
       [] a = "user.trdelete" -> st.tr.used /\ st.tr.exists /\ ~st.tr.deleting
       [] a \in JumpActs -> inProg /\ st.ro.hasSub /\ JumpTarget(a) # st.ro.next
       [] OTHER -> FALSE

TickUseful(st) ==
  \/ Len(st.mem.gf) > 0
  \/ st.ro.exists /\ st.ro.phase = "Progressing" /\ st.ro.condFresh
  \/ st.ro.exists /\ st.ro.hasSub /\ st.ro.fresh

EnabledActs(st, u) ==
  (IF st.ro.exists THEN {"ro"} ELSE {})
  \cup (IF st.br.exists THEN {"br"} ELSE {})
  \cup (IF st.tr.used /\ st.tr.exists THEN {"tr"} ELSE {})
  \cup {a \in {"env.observe", "env.update", "env.ready", "env.scale"} : EnvEnabled(st, a)}
  \cup (IF TickUseful(st) THEN {"tick"} ELSE {})
  \cup {a \in Actions \ {"env.unready"} :
          /\ u[ClassOf(a)] < Budget[ClassOf(a)]
          /\ (IsDisturbance(ClassOf(a)) => u["total"] < Budget["total"])
          /\ UserEnabled(st, a)}

\* ghost history, maintained as harness/sim/world.go afterAction does
OrigOkOf(st) == st.net.stableSel = 0 /\ (st.net.provGateway /\ st.net.route => (st.net.rtCanaryW = -1 /\ st.net.rtGenRules = 0 /\ st.net.rtStableW = 1))
GhostAfter(p, a, q0) ==
  LET keyChanged == q0.ro.exists /\ (q0.ro.canaryRev # p.ro.canaryRev \/ (a = "ro" /\ q0.ro.hashSet /\ ~p.ro.hashOk /\ p.ro.hashSet))
      rs0 == IF keyChanged THEN {} ELSE SeqToSet(p.ghost.readySteps)
      add == IF /\ q0.ro.exists /\ q0.br.exists /\ q0.br.bstate = "Ready" /\ q0.br.phase = "Progressing" /\ q0.br.obsGenOk
                /\ q0.br.updRev = q0.ro.canaryRev /\ q0.br.planOk
             THEN {q0.br.batch + 1} ELSE {}
      rs == rs0 \cup add
      sorted == SelectSeq(<<1, 2, 3, 4, 5>>, LAMBDA i : i \in rs)
  IN  [q0 EXCEPT !.ghost.readySteps = IF q0.ro.exists THEN sorted ELSE p.ghost.readySteps,
                 !.ghost.brEver = (p.ghost.brEver /\ a # "user.release3late" /\ (~q0.ro.exists \/ q0.ro.canaryRev = p.ro.canaryRev)) \/ q0.br.exists,
                 !.ghost.readyRepl =
                   LET base == IF q0.ro.exists /\ q0.wl.exists /\ q0.ro.canaryRev = p.ro.canaryRev /\ q0.wl.R = p.wl.R THEN p.ghost.readyRepl ELSE 0
                       rdy  == /\ q0.ro.exists /\ q0.wl.exists /\ q0.br.exists /\ q0.br.bstate = "Ready" /\ q0.br.phase = "Progressing" /\ q0.br.obsGenOk
                               /\ q0.br.updRev = q0.ro.canaryRev /\ q0.br.batch + 1 \in 1..Len(q0.br.plan)
                   IN  IF ~q0.ro.exists THEN p.ghost.readyRepl
                       ELSE IF rdy THEN Max(base, PlannedOf(q0.br.plan[q0.br.batch + 1], q0.wl.R)) ELSE base,
                 !.ghost.jumpBack = p.ghost.jumpBack \/ (a \in JumpActs /\ p.ro.hasSub /\ JumpTarget(a) < p.ro.step),
                 !.ghost.origOk = OrigOkOf(q0),
                 \* only pods of the BatchRelease's update revision carry its labels: replacing them removes labels
                 !.wl.labelled = IF q0.br.exists /\ q0.br.updRev \in 1..3 /\ q0.wl.exists
                                 THEN Min(q0.wl.labelled, q0.wl.n[q0.br.updRev]) ELSE q0.wl.labelled,
                 !.ghost.supBack = p.ghost.supBack \/ (a = "user.rollback" /\ p.user.rev >= 3),
                 !.ghost.midSwitch = p.ghost.midSwitch \/ (a \in {"user.rollback", "user.release3", "user.delete", "user.disable"}
                                                              /\ p.ro.exists /\ p.ro.hasSub /\ p.ro.fstep \notin {"", "END"}),
                 !.ghost.disSup = p.ghost.disSup \/ (a \in UserActs /\ (q0.user.disabled \/ q0.user.deleted) /\ (q0.user.rev >= 3 \/ q0.user.rolledBack)),
                 !.ghost.lateChange = p.ghost.lateChange \/ (a = "user.release3" /\ p.ro.reason \in {"Finalising", "Cancelling", "Completed"}),
                 !.quiet = ~\E e \in {"env.observe", "env.update", "env.ready", "env.scale"} : EnvEnabled(q0, e)]

EditPlan(st) == [st EXCEPT !.plan = Plan2, !.ro.hashOk = (Plan2 = st.plan /\ st.ro.hashOk),
                           !.br.planOk = (st.br.exists /\ Len(Plan2) = Len(st.br.plan) /\ \A i \in 1..Len(Plan2) : SameReplicas(Plan2[i], st.br.plan[i]))]

Succ(st, a) ==
  IF a \in {"user.editplan", "user.editidle"} THEN {EditPlan(st)}
  ELSE IF a = "user.scale" THEN {[st EXCEPT !.wl.R = ScaleTo, !.wl.genOk = FALSE]}
  ELSE {x \in StepSet(st, a) : WellFormedPods(x)}

Init == s = InitState /\ used = [k \in BudgetKeys |-> 0] /\ last = "init"

Next ==
  \E a \in EnabledActs(s, used) :
    \E q \in Succ(s, a) :
      /\ s' = GhostAfter(s, a, q)
      /\ last' = a
      /\ used' = LET c == ClassOf(a) IN
                 [k \in BudgetKeys |-> IF k = c /\ c \in BudgetKeys THEN used[k] + 1
                                       ELSE IF k = "total" /\ IsDisturbance(c) THEN used[k] + 1 ELSE used[k]]

Spec == Init /\ [][Next]_vars

\* ----- known findings reproduced by the model (see /verif/known_findings.json)
KF_HoldLeft(st)  == ~st.ghost.brEver          \* KF-C05-hold-left-before-batchrelease / KF-C18-…
KF_JumpBack(st)  == st.ghost.jumpBack         \* KF-C04-backward-jump-after-full-replacement
KF_Late(st)      == st.ghost.lateChange       \* KF-C05-late-template-change-clobbered
KF_DisSup(st)    == st.ghost.disSup           \* KF-C05-exit-while-superseded
KF_MidSwitch(st) == st.ghost.midSwitch        \* KF-C05-finalising-cursor-carried-across-reasons
KF_SupBack(st)   == st.ghost.supBack          \* KF-C05-rollback-after-supersession

T(a) == [base |-> a, fault |-> "", panic |-> "", act |-> a]

Inv_C04a == StateHolds("C04a", s)
Inv_C04b == StateHolds("C04b", s) \/ KF_JumpBack(s)
Inv_C04c == StateHolds("C04c", s)
Inv_C05  == C05(s) \/ KF_HoldLeft(s) \/ KF_Late(s) \/ KF_DisSup(s) \/ KF_MidSwitch(s) \/ KF_SupBack(s)
Inv_C05tr == C05tr(s)
Inv_C10b == C10b(s)
Inv_C18b == C18b(s) \/ KF_HoldLeft(s) \/ KF_DisSup(s) \/ KF_MidSwitch(s)

ActOK(n) == ActHolds(n, s, T(last'), s')
\* KF-C03-unpin-window-after-plan-edit-to-full-step, KF-C02-current-step-replicas-edit-ignored
KF_EditFull == used["user.editplan"] > 0
Act_C01 == [][ActOK("C01a") /\ ActOK("C01ro") /\ ActOK("C01b") /\ ActOK("C01c")]_vars
Act_C02 == [][ActOK("C02") /\ ActOK("C02pause") /\ ActOK("C02promote") /\ ActOK("C02edit") /\ (ActOK("C02adv") \/ KF_EditFull)]_vars
\* KF-C03-superseding-revision-released-after-jump-back
KF_JumpSup == s.ghost.jumpBack /\ s.user.rev = 3 /\ last' = "br"
Act_C03 == [][(ActOK("C03a") \/ KF_EditFull) /\ ActOK("C03b") /\ (ActOK("C03c") \/ KF_EditFull \/ KF_JumpSup)]_vars
Act_C10 == [][ActOK("C10a")]_vars
Act_C11 == [][ActOK("C11a") /\ ActOK("C11b") /\ ActOK("C11c") /\ ActOK("C11d")]_vars
Act_C18 == [][(ActOK("C18a") \/ KF_HoldLeft(s) \/ KF_DisSup(s) \/ KF_MidSwitch(s)) /\ ActOK("C18br") /\ ActOK("C18tr")]_vars

\* B2: dump the reachable abstract states (ModelView) for comparison with the implementation's
DumpView == IOEnv.VERIF_DUMP # "1" \/ PrintT(<<"ST", ToJson(ModelView(s))>>)
=============================================================================
