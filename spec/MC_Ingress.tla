----------------------------- MODULE MC_Ingress -----------------------------
(* Exhaustive check of the reference definitions of Ingress.tla: for every class, stable annotation
   set and Ingress shape of a bounded domain, every reachable state of
       Enter(step)*  interleaved with Finalise
   satisfies the property C14 (I1 paths, I2 history independence, I3 stable untouched, I4 Finalise
   removes the canary Ingress, I5 fixed point). One TLC state = (class, stable Ingress, canary
   Ingress, last entered step). *)
EXTENDS Ingress

VARIABLES cls, stable, rules, canary, last
vars == <<cls, stable, rules, canary, last>>

CanarySvc == "demo-canary"

StableAnns == { {},
                {<<"kubernetes.io/ingress.class", "nginx">>, <<"example.com/owner", "team-a">>},
                {<<"kubernetes.io/ingress.class", "nginx">>, <<"mse.ingress.kubernetes.io/service-subset", "v1">>} }

P(path, be) == [path |-> path, pathType |-> "Prefix", be |-> be, port |-> 80]
RuleVariants == { [host |-> "a", http |-> TRUE,  paths |-> <<P("/", "stable")>>],
                  [host |-> "a", http |-> TRUE,  paths |-> <<P("/", "stable"), P("/api", "other")>>],
                  [host |-> "b", http |-> TRUE,  paths |-> <<P("/o", "other")>>],
                  [host |-> "",  http |-> TRUE,  paths |-> <<P("/r", "res"), P("/s", "stable"), P("/t", "stable")>>],
                  [host |-> "c", http |-> FALSE, paths |-> <<>>] }
\* every single rule, every pair of distinct-host rules, and one three-rule Ingress
Shapes == {<<r>> : r \in RuleVariants} \cup {<<r1, r2>> : r1 \in {r \in RuleVariants : r.host = "a"}, r2 \in {r \in RuleVariants : r.host # "a"}}
            \cup {<<r1, r2, r1>> : r1 \in {r \in RuleVariants : r.host = ""}, r2 \in {r \in RuleVariants : r.host = "c"}}

HeaderConds == [name : {"h1"}, value : {"a", "b"}, type : {"Exact", "RegularExpression"}]
                 \cup {[name |-> "canary-by-cookie", value |-> "a", type |-> "Exact"]}
QueryConds  == [name : {"q"}, value : {"a"}, type : {"Exact", "RegularExpression"}]
Opt(S) == {<<>>} \cup {<<x>> : x \in S}
MatchDomain(c) == {m \in [path : {""}, headers : Opt(HeaderConds), queries : IF c = "mse" THEN Opt(QueryConds) ELSE {<<>>}] : MatchOK(c, m)}
MatchSeqs(c) == {<<>>} \cup {<<m>> : m \in MatchDomain(c)}
                  \cup (IF c = "mse" THEN {} ELSE {<<m1, m2>> : m1 \in MatchDomain(c), m2 \in MatchDomain(c)})
RhmDomain(c) == IF c = "mse" THEN {<<>>, <<[k |-> "x", v |-> "1"]>>, <<[k |-> "x", v |-> "1"], [k |-> "y", v |-> "2"]>>} ELSE {<<>>}
StepDomain(c) == {st \in {[id |-> "s", weight |-> w, matches |-> ms, hasRhm |-> (r # <<>>), rhm |-> r] :
                              w \in {-1, 20, 100}, ms \in MatchSeqs(c), r \in RhmDomain(c)} : Supported(c, st)}

NoStep == [id |-> "none", weight |-> -1, matches |-> <<>>, hasRhm |-> FALSE, rhm |-> <<>>]
Absent == [exists |-> FALSE, ann |-> {}, rules |-> <<>>]

Init == /\ cls \in Classes /\ stable \in StableAnns /\ rules \in Shapes
        /\ canary = Absent /\ last = NoStep

\* EnsureRoutes repeated until it reports true: create (weight 0) if missing, then run the script on the canary's annotations
Enter(st) ==
  /\ canary' = IF canary.exists THEN [canary EXCEPT !.ann = Script(cls, canary.ann, st)]
               ELSE [exists |-> TRUE, ann |-> Script(cls, Script(cls, stable, StepZero), st), rules |-> RefCanaryRules(rules, CanarySvc)]
  /\ last' = st
  /\ UNCHANGED <<cls, stable, rules>>

Finalise == canary' = Absent /\ last' = NoStep /\ UNCHANGED <<cls, stable, rules>>

Next == Finalise \/ \E st \in StepDomain(cls) : Enter(st)
Spec == Init /\ [][Next]_vars

MI1 == canary.exists => PathsExact(rules, CanarySvc, canary.rules)
MI2 == (canary.exists /\ last # NoStep) => canary.ann = Fresh(cls, stable, last)
MI5 == (canary.exists /\ last # NoStep) => Script(cls, canary.ann, last) = canary.ann
MIkeys == UniqueKeys(canary.ann) /\ (canary.exists => \A kv \in stable : kv[1] # SubsetKey => kv \in canary.ann)
MI3 == [][stable' = stable /\ rules' = rules]_vars
MI4 == [][Finalise => ~canary'.exists]_vars
=============================================================================
