SPECIFICATION SpecLive
CONSTANTS
  RMax = 3
  RMax2 = 2
PROPERTIES L_D5
CHECK_DEADLOCK FALSE
