SPECIFICATION TraceSpec
CHECK_DEADLOCK FALSE
INVARIANT TraceAccepted
