----------------------------- MODULE ArithTrace -----------------------------
(***************************************************************************)
(* Function-level trace validation (binding B4) for Arith.tla: every       *)
(* record is one execution of the REAL CalculateBatchReplicas and the real *)
(* CloneSet CalculateBatchContext on an input of the bounded domain.       *)
(*   layer P: the property predicates on the REAL output                   *)
(*   layer C: equality with the reference definitions (drift only)         *)
(***************************************************************************)
EXTENDS Arith, Json, TLC, IOUtils

Cases == ndJsonDeserialize(IOEnv.VERIF_CASES)

Props == {"A_noPanic", "A_sufficient", "A_slack", "A_clamped"}

Step(c) == [rep |-> c.in.rep, pct |-> c.in.pct, is100 |-> c.in.is100]
AskedReal(c) == AskedCloneSet(c.out.ktype, c.out.kval, c.in.R)

Ante(n, c) == IF n = "A_noPanic" THEN TRUE ELSE c.panic = "" /\ c.err = ""

Holds(n, c) ==
  CASE n = "A_noPanic"    -> c.panic = ""
    [] n = "A_sufficient" -> AskedReal(c) >= c.out.desiredUpdated          \* C07: the target suffices for the readiness criterion
    [] n = "A_slack"      -> WithinSlack(AskedReal(c), Step(c), c.in.R)    \* C01: documented rounding slack
    [] n = "A_clamped"    -> c.out.planned >= 0 /\ c.out.planned <= c.in.R

Ref(c) ==
  LET k == DesiredCloneSetKnob(Step(c), c.in.R)
  IN  [planned |-> PlannedOf(Step(c), c.in.R), ktype |-> k.ktype, kval |-> k.kval, desiredUpdated |-> PlannedOf(Step(c), c.in.R)]

DriftFields(c) ==
  IF c.panic # "" \/ c.err # "" THEN {}
  ELSE {f \in {"planned", "ktype", "kval", "desiredUpdated"} : Ref(c)[f] # c.out[f]}

VARIABLES l, cnt
Init == l = 1 /\ cnt = [n \in Props |-> 0]
Next ==
  /\ l <= Len(Cases)
  /\ l' = l + 1
  /\ LET c == Cases[l]
         bad == {n \in Props : Ante(n, c) /\ ~Holds(n, c)}
     IN  /\ cnt' = [n \in Props |-> IF Ante(n, c) THEN cnt[n] + 1 ELSE cnt[n]]
         /\ (bad = {} \/ PrintT(<<"BAD", c.id, bad>>))
         /\ (DriftFields(c) = {} \/ PrintT(<<"DRIFT", c.id, "fn", DriftFields(c)>>))
Spec == Init /\ [][Next]_<<l, cnt>>
Accepted == (l = Len(Cases) + 1) => PrintT(<<"TRACE-DONE", Len(Cases), Len(Cases), ToJson(cnt)>>)
=============================================================================
