-------------------------- MODULE LabelPatchTrace --------------------------
(***************************************************************************)
(* Function-level trace validation for LabelPatch.tla (property C12):      *)
(* every record is one execution of the REAL labelpatch.PatchPodBatchLabel *)
(* on a concrete pod set built from the abstract input c.in:               *)
(*   c.out.pods1   label state of every pod after the first pass           *)
(*   c.out.pods2   after a second pass on a fresh context (c.out.err2,     *)
(*                 c.out.panic2: its error / crash)                        *)
(*   c.out.clean1  label state after one pass on Clean(c.in.pods)          *)
(*                 (c.out.errC, c.out.panicC)                              *)
(*   layer P: the property predicates on the REAL output                   *)
(*   layer C: equality with the reference definition RefPass (drift only)  *)
(***************************************************************************)
EXTENDS LabelPatch, Json, IOUtils

Cases == ndJsonDeserialize(IOEnv.VERIF_CASES)

Props == {"LP_noPanic", "LP_onlyLiveNew", "LP_cap", "LP_keep", "LP_idem", "LP_staleNotCounted"}

Ok(c) == c.panic = "" /\ c.err = ""
HasStale(c) == Clean(c.in.pods) # c.in.pods

Ante(n, c) ==
  CASE n = "LP_noPanic"         -> TRUE
    [] n = "LP_staleNotCounted" -> Ok(c) /\ HasStale(c)
    [] OTHER                    -> Ok(c)

Holds(n, c) ==
  CASE n = "LP_noPanic"         -> c.panic = ""
    [] n = "LP_onlyLiveNew"     -> P_OnlyLiveNew(c.in.pods, c.out.pods1)
    [] n = "LP_cap"             -> P_Cap(c.in.plan, c.in.R, c.in.pods, c.out.pods1)
    [] n = "LP_keep"            -> P_Keep(c.in.pods, c.out.pods1)
    [] n = "LP_idem"            -> c.out.panic2 = "" /\ c.out.err2 = "" /\ P_Idem(c.out.pods1, c.out.pods2)
    [] n = "LP_staleNotCounted" -> c.out.panicC = "" /\ c.out.errC = ""
                                     /\ P_StaleNotCounted(c.in.plan, c.in.pods, c.out.pods1, c.out.clean1)

Proj(lab) == [k \in DOMAIN lab |-> [rid |-> lab[k].rid, bid |-> lab[k].bid, crh |-> lab[k].crh]]

DriftFields(c) ==
  LET a0 == RefAnalysis(c.in, InitLabels(c.in.pods))
  IN  IF c.panic # "" \/ a0.panics
      THEN IF (c.panic # "") = a0.panics THEN {} ELSE {"panic"}
      ELSE IF c.err # "" THEN {"err"}
      ELSE (IF Proj(c.out.pods1) # a0.labels THEN {"pods1"} ELSE {})
             \cup (IF c.out.panic2 = "" /\ c.out.err2 = "" /\ Proj(c.out.pods2) # RefPass(c.in, a0.labels) THEN {"pods2"} ELSE {})

VARIABLES l, cnt
Init == l = 1 /\ cnt = [n \in Props |-> 0]
Next ==
  /\ l <= Len(Cases)
  /\ l' = l + 1
  /\ LET c == Cases[l]
         bad == {n \in Props : Ante(n, c) /\ ~Holds(n, c)}
     IN  /\ cnt' = [n \in Props |-> IF Ante(n, c) THEN cnt[n] + 1 ELSE cnt[n]]
         /\ (bad = {} \/ PrintT(<<"BAD", c.id, bad>>))
         /\ (DriftFields(c) = {} \/ PrintT(<<"DRIFT", c.id, "fn", DriftFields(c)>>))
Spec == Init /\ [][Next]_<<l, cnt>>
Accepted == (l = Len(Cases) + 1) => PrintT(<<"TRACE-DONE", Len(Cases), Len(Cases), ToJson(cnt)>>)
=============================================================================
