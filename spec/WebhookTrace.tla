---------------------------- MODULE WebhookTrace ----------------------------
(***************************************************************************)
(* Function-level trace validation (binding B4) for Webhook.tla: every     *)
(* record is one execution of the REAL WorkloadHandler.Handle /            *)
(* UnifiedWorkloadHandler.Handle on one (old, new, Rollouts, ReplicaSets)  *)
(* input of the bounded domain, with the returned patches applied.         *)
(*   layer P: the property predicates W1..W5 on the REAL admitted object   *)
(*   layer C: equality with the reference definition Ref (drift only)      *)
(***************************************************************************)
EXTENDS Webhook, Json, TLC, IOUtils

Cases == ndJsonDeserialize(IOEnv.VERIF_CASES)

\* W1..W4 speak about the admitted object: the handler returned and allowed the request
Ante(n, c) == IF n = "W5_noPanic" THEN TRUE ELSE c.panic = "" /\ c.err = "" /\ AnteIn(n, c.in)

Holds(n, c) == IF n = "W5_noPanic" THEN c.panic = "" ELSE HoldsIO(n, c.in, c.out)

\* the `changed` flag of a Deployment in progress depends on strategy details the reference does not model
ChangedModelled(i) == ~(Selected(i) /\ i.kind = "Deployment" /\ InProgress(i))

DriftFields(c) ==
  IF c.panic # "" \/ c.err # "" THEN {}
  ELSE {f \in ProjFields : Ref(c.in)[f] # c.out[f]} \cup
       (IF ChangedModelled(c.in) /\ (Ref(c.in) # c.in.cur) # c.out.changed THEN {"changed"} ELSE {})

VARIABLES l, cnt
Init == l = 1 /\ cnt = [n \in Props |-> 0]
Next ==
  /\ l <= Len(Cases)
  /\ l' = l + 1
  /\ LET c == Cases[l]
         bad == {n \in Props : Ante(n, c) /\ ~Holds(n, c)}
     IN  /\ cnt' = [n \in Props |-> IF Ante(n, c) THEN cnt[n] + 1 ELSE cnt[n]]
         /\ (bad = {} \/ PrintT(<<"BAD", c.id, bad>>))
         /\ (DriftFields(c) = {} \/ PrintT(<<"DRIFT", c.id, "fn", DriftFields(c)>>))
Spec == Init /\ [][Next]_<<l, cnt>>
Accepted == (l = Len(Cases) + 1) => PrintT(<<"TRACE-DONE", Len(Cases), Len(Cases), ToJson(cnt)>>)
=============================================================================
