------------------------------ MODULE Ingress ------------------------------
(***************************************************************************)
(* Canary Ingress of Kruise Rollouts (property C14).                       *)
(*                                                                         *)
(* Code anchored:                                                          *)
(*   pkg/trafficrouting/network/ingress/ingress.go                         *)
(*       EnsureRoutes, buildCanaryIngress, executeLuaForCanary, Finalise   *)
(*   lua_configuration/trafficrouting_ingress/{nginx,aliyun-alb,higress,   *)
(*       mse}.lua                                                          *)
(*                                                                         *)
(* Abstract values                                                         *)
(*   annotations  a set of <<key, value>> pairs with pairwise distinct     *)
(*                keys (on the JSON side: a sequence of [k, v] records)    *)
(*   stable rule  [host, http, paths : Seq([path, pathType, be, port])]    *)
(*                be \in {"stable", "other", "res"}; a rule without an     *)
(*                http section has http = FALSE and no paths               *)
(*   canary rule  [host, paths : Seq([path, pathType, svc, port])]         *)
(*   step         [id, weight, matches, hasRhm, rhm]                       *)
(*                weight = -1: no traffic field; matches: Seq([path,       *)
(*                headers, queries]) with headers / queries sequences of   *)
(*                [name, value, type]; rhm: Seq([k, v]) the `set` list of  *)
(*                the requestHeaderModifier (meaningful iff hasRhm)        *)
(*                                                                         *)
(* The reference definitions describe a script that clears every key it    *)
(* may set before setting the keys of the current step (the mechanism the  *)
(* property relies on); MC_Ingress checks that this reference satisfies    *)
(* the property, IngressTrace compares the REAL outputs with it (drift)    *)
(* and evaluates the property predicates on the REAL outputs (verdicts).   *)
(***************************************************************************)
EXTENDS Integers, Sequences, FiniteSets, TLC

Classes == {"nginx", "aliyun-alb", "higress", "mse"}

Prefix(cls) == IF cls = "aliyun-alb" THEN "alb.ingress.kubernetes.io/" ELSE "nginx.ingress.kubernetes.io/"
Key(cls, suffix) == Prefix(cls) \o suffix
MseKey(suffix)   == "mse.ingress.kubernetes.io/" \o suffix

(***************************************************************************)
(* annotations                                                             *)
(***************************************************************************)
Del(A, K)    == {kv \in A : kv[1] \notin K}
Put(A, k, v) == Del(A, {k}) \cup {<<k, v>>}
Has(A, k)    == \E kv \in A : kv[1] = k
KeysOf(A)    == {kv[1] : kv \in A}
AnnSet(seq)  == {<<seq[i].k, seq[i].v>> : i \in DOMAIN seq}
UniqueKeys(A) == Cardinality(KeysOf(A)) = Cardinality(A)

HeaderKeys(cls) == {Key(cls, s) : s \in {"canary-by-cookie", "canary-by-header", "canary-by-header-pattern", "canary-by-header-value"}}
\* the mse script writes its query annotations under the nginx prefix
QueryKeys == {Key("mse", s) : s \in {"canary-by-query", "canary-by-query-pattern", "canary-by-query-value"}}
RhmKey    == MseKey("request-header-control-update")
SubsetKey == MseKey("service-subset")

\* every key a class's script may set from the step
Managed(cls) == HeaderKeys(cls) \cup {Key(cls, "canary-weight")} \cup (IF cls = "mse" THEN QueryKeys \cup {RhmKey} ELSE {})

ApplyHeader(cls, A, h) ==
  IF h.name = "canary-by-cookie" THEN Put(A, Key(cls, "canary-by-cookie"), h.value)
  ELSE LET A1 == Put(A, Key(cls, "canary-by-header"), h.name)
       IN  IF h.type = "RegularExpression" THEN Put(A1, Key(cls, "canary-by-header-pattern"), h.value)
           ELSE Put(A1, Key(cls, "canary-by-header-value"), h.value)

ApplyQuery(A, q) ==
  LET A1 == Put(A, Key("mse", "canary-by-query"), q.name)
  IN  IF q.type = "RegularExpression" THEN Put(A1, Key("mse", "canary-by-query-pattern"), q.value)
      ELSE Put(A1, Key("mse", "canary-by-query-value"), q.value)

\* the scripts look at the first header / first query parameter of every match; later matches overwrite
ApplyMatch(cls, A, m) ==
  LET A1 == IF Len(m.headers) > 0 THEN ApplyHeader(cls, A, m.headers[1]) ELSE A
  IN  IF cls = "mse" /\ Len(m.queries) > 0 THEN ApplyQuery(A1, m.queries[1]) ELSE A1

ApplyMatches(cls, A, ms) ==
  LET F[i \in 0..Len(ms)] == IF i = 0 THEN A ELSE ApplyMatch(cls, F[i - 1], ms[i])
  IN  F[Len(ms)]

RhmValue(rhm) ==
  LET F[i \in 0..Len(rhm)] == IF i = 0 THEN "" ELSE F[i - 1] \o rhm[i].k \o " " \o rhm[i].v
  IN  F[Len(rhm)]

(***************************************************************************)
(* Reference script: annotations of the canary Ingress after the class's   *)
(* script ran on annotations A for step st.                                *)
(***************************************************************************)
Script(cls, A, st) ==
  LET A0 == Put(Del(A, Managed(cls)), Key(cls, "canary"), "true")
      A1 == IF cls = "aliyun-alb" THEN Put(A0, "alb.ingress.kubernetes.io/order", "1") ELSE A0
      A2 == IF st.weight >= 0 THEN Put(A1, Key(cls, "canary-weight"), ToString(st.weight)) ELSE A1
      A3 == IF cls = "mse" /\ Has(A2, SubsetKey) THEN Put(A2, SubsetKey, "gray") ELSE A2
      A4 == IF cls = "mse" /\ st.hasRhm THEN Put(A3, RhmKey, RhmValue(st.rhm)) ELSE A3
  IN  ApplyMatches(cls, A4, st.matches)

StepZero == [id |-> "zero", weight |-> 0, matches |-> <<>>, hasRhm |-> FALSE, rhm |-> <<>>]

\* entering step st first: EnsureRoutes creates the canary Ingress from the stable annotations with weight 0,
\* then patches it to the step
Fresh(cls, stableAnn, st) == Script(cls, Script(cls, stableAnn, StepZero), st)

(***************************************************************************)
(* Step kinds a class's script handles.                                    *)
(***************************************************************************)
MatchOK(cls, m) ==
  /\ m.path = ""
  /\ Len(m.headers) <= 1
  /\ IF cls = "mse" THEN Len(m.queries) <= 1 ELSE Len(m.queries) = 0
  /\ Len(m.headers) + Len(m.queries) > 0

Supported(cls, st) ==
  /\ st.weight >= -1 /\ st.weight <= 100 /\ st.weight # 0      \* weight 0 on a missing canary Ingress is the finalising no-op
  /\ (st.weight >= 0 \/ Len(st.matches) > 0)
  /\ \A i \in DOMAIN st.matches : MatchOK(cls, st.matches[i])
  /\ (st.hasRhm => cls = "mse" /\ Len(st.rhm) > 0)

(***************************************************************************)
(* Paths                                                                   *)
(***************************************************************************)
PathIdx(rules) == UNION {{<<i, j>> : j \in DOMAIN rules[i].paths} : i \in DOMAIN rules}

\* what the property demands: exactly the stable paths that point at the stable Service, re-targeted, hosts preserved
ExpectedCanaryPaths(rules, canarySvc) ==
  {[host |-> rules[x[1]].host, path |-> rules[x[1]].paths[x[2]].path, pathType |-> rules[x[1]].paths[x[2]].pathType,
    svc |-> canarySvc, port |-> rules[x[1]].paths[x[2]].port] :
      x \in {y \in PathIdx(rules) : rules[y[1]].paths[y[2]].be = "stable"}}

CanaryPaths(crules) ==
  {[host |-> crules[x[1]].host, path |-> crules[x[1]].paths[x[2]].path, pathType |-> crules[x[1]].paths[x[2]].pathType,
    svc |-> crules[x[1]].paths[x[2]].svc, port |-> crules[x[1]].paths[x[2]].port] : x \in PathIdx(crules)}

PathsExact(rules, canarySvc, crules) == CanaryPaths(crules) = ExpectedCanaryPaths(rules, canarySvc)

\* reference construction (mirrors buildCanaryIngress, tolerant of rules without http / non-Service backends)
IsStable(p) == p.be = "stable"
StableOnly(ps) == SelectSeq(ps, IsStable)
Retarget(ps, svc) == [j \in 1..Len(ps) |-> [path |-> ps[j].path, pathType |-> ps[j].pathType, svc |-> svc, port |-> ps[j].port]]
HasStablePath(r) == Len(StableOnly(r.paths)) > 0
RefCanaryRules(rules, svc) ==
  LET keep == SelectSeq(rules, HasStablePath)
  IN  [i \in 1..Len(keep) |-> [host |-> keep[i].host, paths |-> Retarget(StableOnly(keep[i].paths), svc)]]

=============================================================================
