------------------------- MODULE RolloutsIsolation -------------------------
(***************************************************************************)
(* C19: Rollouts of different workloads, reconciled by ONE controller      *)
(* process against ONE cluster, do not influence each other.               *)
(*                                                                         *)
(* Three transition graphs were recorded from the REAL controllers by the  *)
(* harness explorer: scenario A alone, scenario B alone, and the pair      *)
(* (A in namespace default, B under the SAME object names in another       *)
(* namespace, same reconciler instances, same process-wide grace map /     *)
(* expectations / Lua runtime, every interleaving of their actions).       *)
(* The recorded solo graphs ARE the specification of "as when it runs      *)
(* alone"; TLC checks that the pair graph projects onto them exactly:      *)
(*                                                                         *)
(*   IsoStep    an action of one scenario moves that scenario by a         *)
(*              transition of its solo graph (same pre-state, same action, *)
(*              same post-state)                                           *)
(*   IsoFrame   ... and leaves the other scenario's abstract state         *)
(*              unchanged, also after every single API write inside it     *)
(*   IsoTick    the cluster-wide passage of time moves each scenario by    *)
(*              its solo tick, or not at all where its solo graph has none *)
(*   IsoEnabled in every expanded pair state, the actions enabled for a    *)
(*              scenario are exactly those of its solo graph in that state *)
(*              (so no scenario is blocked or woken by the other, and the  *)
(*              final states per scenario are those of the solo runs)      *)
(*   IsoInit    the pair starts in the two solo initial states             *)
(*                                                                         *)
(* Abstract states are compared by a digest of their canonical JSON        *)
(* (computed by lib/isolation.py, an injective renaming; the states        *)
(* themselves are validated against RolloutsModel / RolloutsProps by the   *)
(* other closed-loop checks).                                              *)
(***************************************************************************)
EXTENDS Naturals, Sequences, FiniteSets, TLC, Json, IOUtils

PairT  == ndJsonDeserialize(IOEnv.VERIF_PAIR_TRANS)    \* {comp, cbase, preA, postA, preB, postB, midsA, midsB}
PairS  == ndJsonDeserialize(IOEnv.VERIF_PAIR_STATES)   \* expanded pair states {id, hA, hB, actsA, actsB, tick}
SoloAT == ndJsonDeserialize(IOEnv.VERIF_SOLO_A_TRANS)  \* {pre, base, post}
SoloBT == ndJsonDeserialize(IOEnv.VERIF_SOLO_B_TRANS)
SoloAS == ndJsonDeserialize(IOEnv.VERIF_SOLO_A_STATES) \* {h, acts, init}
SoloBS == ndJsonDeserialize(IOEnv.VERIF_SOLO_B_STATES)

Triples(T) == {<<T[i].pre, T[i].base, T[i].post>> : i \in DOMAIN T}
TA == Triples(SoloAT)
TB == Triples(SoloBT)
ActsOf(S) == [h \in {S[i].h : i \in DOMAIN S} |-> LET i == CHOOSE i \in DOMAIN S : S[i].h = h IN {S[i].acts[k] : k \in DOMAIN S[i].acts}]
ActsA == ActsOf(SoloAS)
ActsB == ActsOf(SoloBS)
InitOf(S) == {S[i].h : i \in {j \in DOMAIN S : S[j].init}}
SeqSet(q) == {q[k] : k \in DOMAIN q}

IsoStep(t) ==
  CASE t.comp = "a" -> <<t.preA, t.cbase, t.postA>> \in TA
    [] t.comp = "b" -> <<t.preB, t.cbase, t.postB>> \in TB
    [] OTHER -> TRUE
IsoFrame(t) ==
  CASE t.comp = "a" -> t.postB = t.preB /\ SeqSet(t.midsB) \subseteq {t.preB}
    [] t.comp = "b" -> t.postA = t.preA /\ SeqSet(t.midsA) \subseteq {t.preA}
    [] OTHER -> TRUE
TickSide(T, Acts, pre, post) ==
  IF pre \in DOMAIN Acts /\ "tick" \in Acts[pre] THEN <<pre, "tick", post>> \in T ELSE post = pre
IsoTick(t) == t.comp = "" => (TickSide(TA, ActsA, t.preA, t.postA) /\ TickSide(TB, ActsB, t.preB, t.postB))
IsoEnabled(e) ==
  /\ e.hA \in DOMAIN ActsA /\ e.hB \in DOMAIN ActsB
  /\ SeqSet(e.actsA) = ActsA[e.hA] \ {"tick"}
  /\ SeqSet(e.actsB) = ActsB[e.hB] \ {"tick"}
  /\ e.tick = ("tick" \in ActsA[e.hA] \/ "tick" \in ActsB[e.hB])
IsoInit(e) == e.id = 1 => (e.hA \in InitOf(SoloAS) /\ e.hB \in InitOf(SoloBS))

TransProps == {"IsoStep", "IsoFrame", "IsoTick"}
StateProps == {"IsoEnabled", "IsoInit"}
THolds(n, t) == CASE n = "IsoStep" -> IsoStep(t) [] n = "IsoFrame" -> IsoFrame(t) [] OTHER -> IsoTick(t)
TAnte(n, t) == CASE n = "IsoTick" -> t.comp = "" [] OTHER -> t.comp # ""
SHolds(n, e) == CASE n = "IsoEnabled" -> IsoEnabled(e) [] OTHER -> IsoInit(e)

VARIABLES l, cnt
NT == Len(PairT)
NS == Len(PairS)

Bad(i) == IF i <= NT THEN {n \in TransProps : ~THolds(n, PairT[i])} ELSE {n \in StateProps : ~SHolds(n, PairS[i - NT])}
Hits(i) == IF i <= NT THEN {n \in TransProps : TAnte(n, PairT[i])} ELSE StateProps

Init == l = 1 /\ cnt = [n \in TransProps \cup StateProps |-> 0]
Next ==
  /\ l <= NT + NS
  /\ l' = l + 1
  /\ cnt' = [n \in DOMAIN cnt |-> IF n \in Hits(l) THEN cnt[n] + 1 ELSE cnt[n]]
  /\ (Bad(l) = {} \/ PrintT(<<"BAD", l, Bad(l)>>))
Spec == Init /\ [][Next]_<<l, cnt>>
Accepted == (l = NT + NS + 1) => PrintT(<<"TRACE-DONE", NT, NS, ToJson(cnt)>>)
=============================================================================
