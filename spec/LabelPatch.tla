------------------------------ MODULE LabelPatch ------------------------------
(***************************************************************************)
(* Pod batch labels of a BatchRelease (property C12).                      *)
(*                                                                         *)
(* Code anchored:                                                          *)
(*   pkg/controller/batchrelease/labelpatch/patcher.go                     *)
(*       PatchPodBatchLabel, patchPodBatchLabel,                           *)
(*       calculatePlannedStepIncrements, calculateBatchReplicas            *)
(*   pkg/controller/batchrelease/labelpatch/filter.go                      *)
(*       FilterPodsForUnorderedUpdate                                      *)
(*   pkg/util/pod_utils.go IsConsistentWithRevision                        *)
(*   pkg/controller/batchrelease/context/context.go batchLabelSatisfied    *)
(*                                                                         *)
(* Abstract input x (one labelling pass over one pod set):                 *)
(*   x.plan    sequence of plan steps [rep, pct] (Arith.tla), n = Len      *)
(*   x.R       workload replicas          x.cur  current batch, 0-based    *)
(*   x.filter  "none" | "unordered" (ctx.FilterFunc)                       *)
(*   x.planned / x.desired  ctx.PlannedUpdatedReplicas / Desired…          *)
(*   x.pods    sequence (API list order) of pod records                    *)
(*     rev   "new" | "old" | "unknown"   revision the pod really runs      *)
(*     own   "cs" | "rs"                 controller owner kind             *)
(*     hash  "crh" | "pth" | "none"      which revision label it carries:  *)
(*           controller-revision-hash, only pod-template-hash, neither     *)
(*           (an "rs" pod without "crh" is identified through its          *)
(*           ReplicaSet; a "cs" pod without any hash is "unknown")         *)
(*     term  BOOLEAN                     deletionTimestamp set             *)
(*     rid   "none" | "cur" | "foreign"  rollout-id label                  *)
(*     bid   STRING                      raw rollout-batch-id label        *)
(*     bk    "none"|"in"|"zero"|"neg"|"high"|"nonnum"  strconv.Atoi(bid)   *)
(*           classified against 1..n (computed by the driver)              *)
(*     nnu   BOOLEAN                     no-need-update = current id       *)
(* Label state: sequence (same indices) of [rid, bid, crh, …] with         *)
(*   crh in "none" | "new" | "old" | "other" (controller-revision-hash).   *)
(***************************************************************************)
EXTENDS Arith, TLC

Live(p)     == ~p.term
IsNew(p)    == p.rev = "new"
\* "live pod of the new revision": the only pods a batch label may be given to, and the only pods
\* that belong to a batch of the current release
Eligible(p) == Live(p) /\ IsNew(p)

(***************************************************************************)
(* Plan arithmetic: batch i (1-based) of the plan adds                     *)
(* planned(i) - planned(i-1) pods, planned = percent rounded up, clamped   *)
(* to [0, R] (same rounding as CalculateBatchReplicas, Arith!PlannedOf).   *)
(***************************************************************************)
PlannedAt(plan, R, i) == IF i <= 0 THEN 0 ELSE PlannedOf(plan[i], R)
Increment(plan, R, i) == PlannedAt(plan, R, i) - PlannedAt(plan, R, i - 1)

\* number of pods that carry (current rollout-id, batch i) among the pods that can belong to a batch.
\* Terminating pods and pods of another revision that still carry the pair are stale in the sense of the
\* property's last sentence ("never counted towards a batch they do not belong to"), so they are not
\* counted here either (batchLabelSatisfied ignores terminating pods the same way): the replacement of
\* a terminating labelled pod may receive the same batch label.
Count(pods, lab, i) ==
  Cardinality({k \in DOMAIN pods : Eligible(pods[k]) /\ lab[k].rid = "cur" /\ lab[k].bid = ToString(i)})

(***************************************************************************)
(* Property operators (C12). pods = input pods (static attributes and the  *)
(* labels before the pass), lab = label state after the pass.              *)
(***************************************************************************)
\* L1: batch labels are given only to live pods of the new revision
P_OnlyLiveNew(pods, lab) ==
  \A k \in DOMAIN pods : ~Eligible(pods[k]) => (lab[k].rid = pods[k].rid /\ lab[k].bid = pods[k].bid)

\* L2: labelling never pushes the number of pods carrying (rollout-id, batch i) above what batch i adds
P_Cap(plan, R, pods, lab) ==
  \A i \in 1..Len(plan) : Count(pods, lab, i) <= Max(Count(pods, pods, i), Increment(plan, R, i))

\* L3: a pod already labelled for this release is never relabelled
P_Keep(pods, lab) ==
  \A k \in DOMAIN pods : pods[k].rid = "cur" => (lab[k].rid = "cur" /\ lab[k].bid = pods[k].bid)

\* L4: repeating the pass changes nothing
P_Idem(lab1, lab2) == lab1 = lab2

\* L5: label values on pods that do not belong to a batch of this release (not live, not of the new
\* revision, or not carrying the current rollout-id) are never counted: wiping them leaves every
\* per-batch count of the result unchanged
Clean(pods) ==
  [k \in DOMAIN pods |-> IF Eligible(pods[k]) /\ pods[k].rid = "cur" THEN pods[k]
                         ELSE [pods[k] EXCEPT !.rid = "none", !.bid = "", !.bk = "none"]]
P_StaleNotCounted(plan, pods, lab, labOfClean) ==
  \A i \in 1..Len(plan) : Count(pods, lab, i) = Count(pods, labOfClean, i)

\* shape the design document points at: a live new-revision pod of the current release whose
\* batch-id label is numeric but outside 1..n
OorAny(pods) == \E k \in DOMAIN pods : Eligible(pods[k]) /\ pods[k].rid = "cur" /\ pods[k].bk \in {"zero", "neg", "high"}

(***************************************************************************)
(* Reference definition of one pass (drift layer only).                    *)
(***************************************************************************)
RECURSIVE SumFn(_, _)
SumFn(f, S) == IF S = {} THEN 0 ELSE LET e == CHOOSE e \in S : TRUE IN f[e] + SumFn(f, S \ {e})

InitLabels(pods) ==
  [k \in DOMAIN pods |-> [rid |-> pods[k].rid, bid |-> pods[k].bid,
                          crh |-> IF pods[k].hash = "crh" THEN pods[k].rev ELSE "none"]]

\* IsConsistentWithRevision on the labels the pod carries
RawCons(p, l) == (p.hash = "pth" /\ p.rev = "new") \/ l.crh = "new"

\* FilterPodsForUnorderedUpdate (indices into x.pods, in the order handed to the patcher)
RefVisible(x, lab) ==
  LET pods == x.pods
      all  == [k \in DOMAIN pods |-> k]
      IsTerm(k) == pods[k].term
      IsLow(k)  == ~pods[k].term /\ RawCons(pods[k], lab[k]) /\ pods[k].nnu /\ lab[k].rid # "cur"
      IsHigh(k) == ~pods[k].term /\ RawCons(pods[k], lab[k]) /\ ~IsLow(k)
      high == SelectSeq(all, IsHigh)
      low  == SelectSeq(all, IsLow)
      term == SelectSeq(all, IsTerm)
      needUpdate == x.desired - Len(low)
      diff == x.planned - needUpdate
  IN  IF x.filter = "none" \/ needUpdate <= 0 THEN all
      ELSE IF diff <= 0 THEN high \o term
      ELSE high \o SubSeq(low, 1, Min(diff, Len(low))) \o term

\* One pass of patchPodBatchLabel over the visible pods: [panics, labels].
\*   proc   visible and not terminating
\*   comp   revision hash computed from the owning ReplicaSet (and patched onto the pod)
\*   cons   IsConsistentWithRevision after that computation
\*   panics plannedUpdatedReplicasForBatches[podBatchID-1]-- outside the slice
RefAnalysis(x, lab) ==
  LET pods == x.pods
      n    == Len(x.plan)
      V    == RefVisible(x, lab)
      vis  == {V[j] : j \in DOMAIN V}
      proc == {k \in vis : ~pods[k].term}
      comp == {k \in proc : lab[k].crh = "none" /\ pods[k].own = "rs"}
      cons == {k \in proc : RawCons(pods[k], lab[k]) \/ (k \in comp /\ pods[k].rev = "new")}
      mine == {k \in cons : lab[k].rid = "cur"}
      BkOf(k) == IF lab[k].bid = pods[k].bid THEN pods[k].bk ELSE "in"
      InU(k) == k \in cons /\ k \notin mine
      U    == SelectSeq(V, InU)
      need == [i \in 1..n |-> Max(0, (IF i <= x.cur + 1 THEN Increment(x.plan, x.R, i) ELSE 0)
                                      - Cardinality({k \in mine : BkOf(k) = "in" /\ lab[k].bid = ToString(i)}))]
      cum  == [i \in 1..(n + 1) |-> SumFn(need, i..n)]
      pos  == [j \in DOMAIN U |-> Len(U) - j + 1]
      \* batches are served from the last one down, pods are taken from the end of the list
      BatchFor(j) == IF j > cum[1] THEN 0 ELSE CHOOSE i \in 1..n : cum[i + 1] < j /\ j <= cum[i]
      given == [k \in DOMAIN pods |-> IF InU(k) THEN BatchFor(pos[CHOOSE j \in DOMAIN U : U[j] = k]) ELSE 0]
  IN  [panics |-> \E k \in mine : BkOf(k) \in {"zero", "neg", "high"},
       labels |-> [k \in DOMAIN pods |->
                    LET crh2 == IF k \in comp THEN pods[k].rev ELSE lab[k].crh
                    IN  IF given[k] > 0 THEN [rid |-> "cur", bid |-> ToString(given[k]), crh |-> crh2]
                        ELSE [rid |-> lab[k].rid, bid |-> lab[k].bid, crh |-> crh2]]]

RefPanics(x, lab) == RefAnalysis(x, lab).panics
RefPass(x, lab)   == RefAnalysis(x, lab).labels

(***************************************************************************)
(* Lemma checked exhaustively by TLC on the reference (MC_LabelPatch):     *)
(* where the reference does not crash it has L1..L5, and it crashes only   *)
(* on the out-of-range shape.                                              *)
(***************************************************************************)
LemmaRef(x) ==
  LET a0 == RefAnalysis(x, InitLabels(x.pods))
      l1 == a0.labels
      a1 == RefAnalysis(x, l1)
      xc == [x EXCEPT !.pods = Clean(x.pods)]
      ac == RefAnalysis(xc, InitLabels(xc.pods))
  IN  /\ a0.panics => OorAny(x.pods)
      /\ ~a0.panics =>
           /\ P_OnlyLiveNew(x.pods, l1)
           /\ P_Cap(x.plan, x.R, x.pods, l1)
           /\ P_Keep(x.pods, l1)
           /\ ~a1.panics
           /\ P_Idem(l1, a1.labels)
           /\ ~ac.panics
           /\ P_StaleNotCounted(x.plan, x.pods, l1, ac.labels)

=============================================================================
