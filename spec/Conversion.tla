----------------------------- MODULE Conversion -----------------------------
(***************************************************************************)
(* API version conversion of Kruise Rollouts (property C20).               *)
(*                                                                         *)
(* Code anchored:                                                          *)
(*   api/v1alpha1/conversion.go                                            *)
(*       Rollout.ConvertTo / ConvertFrom                                   *)
(*       BatchRelease.ConvertTo / ConvertFrom                              *)
(*   api/v1beta1/rollout_types.go  GetRollingStyle / IsCanaryStragegy      *)
(*                                                                         *)
(* An object of either version is abstracted to a PROJECTION record p (the *)
(* driver walks the typed structs itself, it never calls conversion.go):   *)
(*                                                                         *)
(*  Rollout      [ver, wref, strategy, paused, disabled, rolloutID,        *)
(*                disableSvc, ft, steps, routings, patch, styleAnn, trAnn, *)
(*                otherAnn, enableExtra, trref, status]                    *)
(*    wref      "none" (optional v1alpha1 block absent) | "apiVersion|kind|name" *)
(*    strategy  "canary" | "none" | "bluegreen" | "both"                   *)
(*    steps     <<[weight, trafficRaw, replicas, pause, matches,           *)
(*                 extraMatch, hdrmod]>>                                   *)
(*              weight: v1alpha1 `weight` / v1beta1 `traffic` "<n>%" (NONE *)
(*              when absent); replicas "none" | "int:n" | "str:s"          *)
(*    styleAnn / trAnn   the rollouts.kruise.io/rolling-style (lower-cased)*)
(*              and rollouts.kruise.io/trafficrouting annotations, "" when *)
(*              absent; enableExtra / trref their v1beta1 spec fields      *)
(*  BatchRelease [ver, wref, batches, partition, rolloutID, ft,            *)
(*                finalizing, patch, specStyle, styleAnn, otherAnn,        *)
(*                enableExtra, status]                                     *)
(*                                                                         *)
(* The MEANING M(p) of a projection is version independent; the documented *)
(* derivations are part of it:                                             *)
(*   - a step without replicas but with a weight runs weight% replicas     *)
(*   - the v1alpha1 rolling style of a Rollout is the annotation           *)
(*     ("partition", anything else means canary), the v1beta1 one is       *)
(*     enableExtraWorkloadForCanary                                        *)
(*   - the v1alpha1 TrafficRouting reference is the annotation             *)
(*   - an absent v1alpha1 workloadRef block means the empty reference      *)
(***************************************************************************)
EXTENDS Integers, Sequences, FiniteSets, TLC

NONE == -9999

SeqMap(F(_), s) == [i \in 1..Len(s) |-> F(s[i])]

(***************************************************************************)
(* Meaning                                                                 *)
(***************************************************************************)
DerivedReplicas(s) ==
  IF s.replicas = "none" /\ s.weight # NONE THEN "str:" \o ToString(s.weight) \o "%" ELSE s.replicas

StepMeaning(s) ==
  [replicas |-> DerivedReplicas(s), weight |-> s.weight, trafficRaw |-> s.trafficRaw,
   matches |-> s.matches, pause |-> s.pause, hdrmod |-> s.hdrmod]

WrefMeaning(w) == IF w = "none" THEN "||" ELSE w

RolloutStyle(p) ==
  IF p.ver = "alpha" THEN (IF p.styleAnn = "partition" THEN "partition" ELSE "canary")
                     ELSE (IF p.enableExtra THEN "canary" ELSE "partition")

RolloutTrref(p) == IF p.ver = "alpha" THEN p.trAnn ELSE p.trref

\* the status cursor both versions can express (the v1beta1-only top-level mirror is not part of it)
RolloutCursor(st) ==
  [og |-> st.og, phase |-> st.phase, message |-> st.message, conds |-> st.conds, hasCS |-> st.hasCS, cs |-> st.cs]

RolloutMeaning(p) ==
  [wref       |-> WrefMeaning(p.wref),
   steps      |-> SeqMap(StepMeaning, p.steps),
   routings   |-> p.routings,
   style      |-> RolloutStyle(p),
   trref      |-> RolloutTrref(p),
   paused     |-> p.paused,
   disabled   |-> p.disabled,
   cursor     |-> RolloutCursor(p.status),
   ft         |-> p.ft,
   patch      |-> p.patch,
   disableSvc |-> p.disableSvc,
   rolloutID  |-> p.rolloutID,
   otherAnn   |-> p.otherAnn]

\* what the property statement lists: workload reference, steps (replicas, weights, header matches,
\* pauses), traffic routing references, style, TrafficRouting reference, paused / disabled, status cursor
RolloutListed == {"wref", "steps", "routings", "style", "trref", "paused", "disabled", "cursor"}
\* every field v1alpha1 can express of a canary-strategy v1beta1 object
RolloutExpressible == RolloutListed \cup {"ft", "patch", "disableSvc", "otherAnn"}
RolloutAll == RolloutExpressible \cup {"rolloutID"}

RecognisedStyles == {"partition", "canary", "bluegreen"}

\* the declared style: v1beta1 releasePlan.rollingStyle; v1alpha1 the rolling-style annotation when it names
\* a style (the conversion gives it precedence), else the releasePlan.rollingStyle field of the v1alpha1 schema
BRDeclaredStyle(p) ==
  IF p.ver = "alpha" /\ p.styleAnn \in RecognisedStyles THEN p.styleAnn ELSE p.specStyle

\* the style the controller acts on: the declared one, else the deprecated enableExtraWorkloadForCanary flag
\* ("If both of them are set, controller will only consider this field when RollingStyle is empty")
BREffectiveStyle(p) ==
  IF BRDeclaredStyle(p) # "" THEN BRDeclaredStyle(p) ELSE IF p.enableExtra THEN "canary" ELSE "partition"

BRCursor(st) == [f \in (DOMAIN st) \ {"message"} |-> st[f]]   \* status.message exists in v1beta1 only

BRMeaning(p) ==
  [wref             |-> WrefMeaning(p.wref),
   batches          |-> p.batches,
   partition        |-> p.partition,
   style            |-> BREffectiveStyle(p),
   enableExtra      |-> p.enableExtra,
   cursor           |-> BRCursor(p.status),
   ft               |-> p.ft,
   patch            |-> p.patch,
   finalizing       |-> p.finalizing,
   rolloutID        |-> p.rolloutID,
   otherAnn         |-> p.otherAnn]

BRListed == {"wref", "batches", "partition", "style", "enableExtra", "cursor"}
BRExpressible == BRListed \cup {"ft", "patch", "finalizing", "rolloutID", "otherAnn"}
BRAll == BRExpressible

Meaning(kind, p) == IF kind = "Rollout" THEN RolloutMeaning(p) ELSE BRMeaning(p)
Listed(kind)      == IF kind = "Rollout" THEN RolloutListed ELSE BRListed
Expressible(kind) == IF kind = "Rollout" THEN RolloutExpressible ELSE BRExpressible
AllFields(kind)   == IF kind = "Rollout" THEN RolloutAll ELSE BRAll

SameMeaning(kind, fields, p, q) == \A f \in fields : Meaning(kind, p)[f] = Meaning(kind, q)[f]
DiffMeaning(kind, fields, p, q) == {f \in fields : Meaning(kind, p)[f] # Meaning(kind, q)[f]}

(***************************************************************************)
(* Reference definition of the conversions, projection -> projection       *)
(* (lossless wherever the target version has a place for the information). *)
(***************************************************************************)
ZeroCS == [owg |-> 0, orid |-> "", hash |-> "", stable |-> "", canary |-> "", pth |-> "", replicas |-> 0, ready |-> 0,
           next |-> 0, cur |-> 0, state |-> "", message |-> "", lut |-> "nil", fin |-> ""]
ZeroRolloutStatus == [og |-> 0, phase |-> "", message |-> "", conds |-> <<>>, hasCS |-> FALSE, cs |-> ZeroCS,
                      topIdx |-> 0, topState |-> "", hasBG |-> FALSE]

RefRolloutToBeta(p) ==
  LET can == p.strategy = "canary"
  IN [p EXCEPT !.ver = "beta",
               !.wref = WrefMeaning(p.wref),
               !.strategy = IF can THEN "canary" ELSE "none",
               !.rolloutID = "",                                  \* v1beta1 has no place for the deprecated id
               !.steps = SeqMap(LAMBDA s : [s EXCEPT !.replicas = DerivedReplicas(s)], p.steps),
               !.enableExtra = can /\ p.styleAnn # "partition",
               !.trref = IF can THEN p.trAnn ELSE ""]

RefRolloutToAlpha(p) ==
  IF p.strategy \in {"canary", "none"}
  THEN LET can == p.strategy = "canary"
       IN [p EXCEPT !.ver = "alpha",
                    !.steps = SeqMap(LAMBDA s : [s EXCEPT !.extraMatch = FALSE], p.steps),
                    !.styleAnn = IF can THEN (IF p.enableExtra THEN "canary" ELSE "partition") ELSE p.styleAnn,
                    !.trAnn = IF can /\ p.trref # "" THEN p.trref ELSE p.trAnn,
                    !.enableExtra = FALSE,
                    !.trref = "",
                    !.status = [p.status EXCEPT !.topIdx = 0, !.topState = "", !.hasBG = FALSE]]
  \* only v1beta1 can express blue-green: the v1alpha1 view of such an object carries the metadata only
  ELSE [p EXCEPT !.ver = "alpha", !.wref = "none", !.strategy = "none", !.paused = FALSE, !.disabled = FALSE,
                 !.disableSvc = FALSE, !.ft = "none", !.steps = <<>>, !.routings = <<>>, !.patch = "none",
                 !.enableExtra = FALSE, !.trref = "", !.status = ZeroRolloutStatus]

RefBRToBeta(p) ==
  [p EXCEPT !.ver = "beta",
            !.wref = WrefMeaning(p.wref),
            !.specStyle = BRDeclaredStyle(p)]

RefBRToAlpha(p) ==
  [p EXCEPT !.ver = "alpha",
            !.styleAnn = p.specStyle,
            !.status = [p.status EXCEPT !.message = ""]]

RefToBeta(kind, p)  == IF kind = "Rollout" THEN RefRolloutToBeta(p) ELSE RefBRToBeta(p)
RefToAlpha(kind, p) == IF kind = "Rollout" THEN RefRolloutToAlpha(p) ELSE RefBRToAlpha(p)

(***************************************************************************)
(* Contradictory encodings: a v1beta1 object whose metadata still carries  *)
(* a v1alpha1 annotation that disagrees with its spec has no single        *)
(* v1alpha1 meaning; the read-modify-write law does not cover it.          *)
(***************************************************************************)
RolloutBetaConflict(p) ==
  \/ p.styleAnn # "" /\ p.styleAnn # (IF p.enableExtra THEN "canary" ELSE "partition")
  \/ p.trAnn # "" /\ p.trAnn # p.trref
BRBetaConflict(p)  == p.styleAnn # "" /\ p.styleAnn # p.specStyle

(***************************************************************************)
(* The laws of C20 on projections                                          *)
(*   V1  a --ConvertTo--> b --ConvertFrom--> a' : M(a') = M(a)             *)
(*   V2  b --ConvertFrom--> a --ConvertTo--> b' : M(b') = M(b) on every    *)
(*       field v1alpha1 can express (canary-strategy b)                    *)
(***************************************************************************)
\* the style of a v1alpha1 BatchRelease that declares it in spec.releasePlan.rollingStyle is judged by its own law
UsesSpecStyle(kind, a) == kind = "BatchRelease" /\ a.specStyle # ""
LawAlphaRoundTrip(kind, a, a2) == SameMeaning(kind, Listed(kind) \ (IF UsesSpecStyle(kind, a) THEN {"style"} ELSE {}), a, a2)
LawAlphaSpecStyle(kind, a, a2) == SameMeaning(kind, {"style"}, a, a2)
LawBetaRoundTrip(kind, b, b2)  == SameMeaning(kind, Expressible(kind), b, b2)

=============================================================================
