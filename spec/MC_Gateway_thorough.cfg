SPECIFICATION Spec
CONSTANT MaxRules = 2
CONSTANT MaxSteps = 2
CONSTANT Kinds = {"P", "H", "Q", "PH"}
INVARIANT InvG1
INVARIANT InvG2
INVARIANT InvG3
INVARIANT InvG4
INVARIANT InvG5
CHECK_DEADLOCK FALSE
