------------------------------ MODULE Webhook ------------------------------
(***************************************************************************)
(* Workload mutating admission webhook of Kruise Rollouts (property C08):  *)
(* abstract input / output of one admission of a workload UPDATE, the      *)
(* property predicates W1..W5 and a reference definition of the function.  *)
(*                                                                         *)
(* Code anchored:                                                          *)
(*   pkg/webhook/workload/mutating/workload_update_handler.go              *)
(*       WorkloadHandler.Handle, handleDeployment / handleCloneSet /       *)
(*       handleDaemonSet, fetchMatchedRollout, checkWorkloadRules,         *)
(*       isEffectiveDeploymentRevisionChange                               *)
(*   pkg/webhook/workload/mutating/unified_update_handler.go               *)
(*       UnifiedWorkloadHandler.Handle, handleStatefulSetLikeWorkload      *)
(*   pkg/util/workloads_utils.go EqualIgnoreHash, parse_utils.go           *)
(*       SetStatefulSetPartition, controller_finder.go                     *)
(*       GetReplicaSetsForDeployment                                       *)
(*                                                                         *)
(* Abstract input i (one JSON record written by harness/cmd/fn-webhook):   *)
(*   kind      Deployment | CloneSet | DaemonSet | StatefulSet |           *)
(*             AdvancedStatefulSet | CustomSet (labelled statefulset)      *)
(*   labels    shape of metadata.labels: nil | empty | other | sel |       *)
(*             selother; sel* carry rollouts.kruise.io/workload-type, the  *)
(*             objectSelector of the webhook configuration                 *)
(*   replicas  spec.replicas (-1 absent = API default 1); DaemonSet:       *)
(*             status.desiredNumberScheduled                               *)
(*   oldId, newId   annotation rollouts.kruise.io/rollout-id ("" absent)   *)
(*   tmpl      same | hash (only the pod-template-hash label differs) |    *)
(*             changed | anno | label  (pod template of new vs old)        *)
(*   strategy  shape of the (update) strategy block of the submitted       *)
(*             object (absent / type only / full / ondelete ...)           *)
(*   style     Deployment: none | canary | partition | bluegreen, the      *)
(*             release style annotations of a release in progress          *)
(*   ros       the Rollouts of the namespace in API list order, each       *)
(*             [name, match, deleting, disabled, empty, traffic]           *)
(*   rs        Deployment: active (replicas > 0) owned ReplicaSets         *)
(*   single    the workload runs a single revision (Deployment: rs = 1;    *)
(*             others: status.updatedReplicas = status.replicas)           *)
(*   cur       projection of the submitted (new) object                    *)
(* Abstract output o = projection of the admitted object (patch applied):  *)
(*   [paused, partType, partInt, partStr, marker, changed, diff]           *)
(*   partition = CloneSet spec.updateStrategy.partition, others            *)
(*   spec.updateStrategy.rollingUpdate.partition; marker = rolloutName of  *)
(*   rollouts.kruise.io/in-progressing ("" absent); diff = the JSON paths  *)
(*   at which the admitted object differs from the submitted one.          *)
(***************************************************************************)
EXTENDS Integers, Sequences, FiniteSets

InProgAnno      == "rollouts.kruise.io/in-progressing"
DeployStratAnno == "rollouts.kruise.io/deployment-strategy"
StableRevLabel  == "rollouts.kruise.io/stable-revision"
MaxInt16        == 32767

StsLike(i) == i.kind \in {"StatefulSet", "AdvancedStatefulSet", "CustomSet"}

\* selected by the webhook configuration (objectSelector: workload-type label exists)
Selected(i) == i.labels \in {"sel", "selother"}

Replicas(i) == IF i.replicas < 0 THEN 1 ELSE i.replicas

\* "a workload with running replicas": a Deployment without an active ReplicaSet runs no pod
Running(i) == Replicas(i) > 0 /\ (i.kind = "Deployment" => i.rs >= 1)

TmplChanged(i) == i.tmpl \notin {"same", "hash"}

(***************************************************************************)
(* Release change.  Sure: a (new) rollout-id is set and differs from the   *)
(* old one, or no rollout-id is used and the pod template changed.  Maybe  *)
(* additionally covers the removal of a rollout-id, on which the property  *)
(* statement is silent: neither "must hold" nor "must not touch" is        *)
(* demanded there.                                                         *)
(***************************************************************************)
ReleaseSure(i)  == (i.newId # "" /\ i.oldId # i.newId) \/ (i.newId = "" /\ TmplChanged(i))
ReleaseMaybe(i) == ReleaseSure(i) \/ i.oldId # i.newId

\* Rollouts that reference the workload and are neither deleting nor disabled (indices into i.ros)
Cands(i) == {k \in 1..Len(i.ros) : i.ros[k].match /\ ~i.ros[k].deleting /\ ~i.ros[k].disabled}
CandNames(i) == {i.ros[k].name : k \in Cands(i)}

\* every Rollout that could be "the" matching active Rollout demands the hold (two Rollouts for one
\* workload are rejected by the Rollout validating webhook, so the statement does not say which wins)
ActiveAll(i)  == Cands(i) # {} /\ \A k \in Cands(i) : ~i.ros[k].empty /\ (i.ros[k].traffic => i.single)
\* no Rollout with a strategy references the workload
ActiveNone(i) == \A k \in Cands(i) : i.ros[k].empty

InProgress(i) == i.cur.marker # ""

\* an OnDelete StatefulSet / DaemonSet is never updated by its native controller: no hold demanded
Holdable(i) == (StsLike(i) \/ i.kind = "DaemonSet") => i.strategy # "ondelete"

W1Ante(i) == Selected(i) /\ Running(i) /\ ReleaseSure(i) /\ ActiveAll(i) /\ Holdable(i)

\* admitted unchanged: not selected, or (not a Deployment in progress, whose edits may be corrected)
\* not a release change / no active matching Rollout
W3Ante(i) == \/ ~Selected(i)
             \/ /\ ~(i.kind = "Deployment" /\ InProgress(i))
                /\ (~ReleaseMaybe(i) \/ ActiveNone(i))

W4Ante(i) == Selected(i) /\ i.kind = "Deployment" /\ InProgress(i) /\ i.style # "bluegreen" /\ ~i.cur.paused

FullPartition(o, n) == \/ o.partType = "str" /\ o.partStr = "100%"
                       \/ o.partType = "int" /\ o.partInt >= n

\* paused / full partition
Held(i, o) == IF i.kind = "Deployment" THEN o.paused ELSE FullPartition(o, Replicas(i))

IsPrefix(p, q) == Len(p) <= Len(q) /\ SubSeq(q, 1, Len(p)) = p

\* the only places the webhook may write
AllowedPrefixes(i) ==
  {<<"metadata", "annotations", InProgAnno>>} \cup
  CASE i.kind = "Deployment" -> {<<"spec", "paused">>, <<"spec", "strategy">>,
                                 <<"metadata", "annotations", DeployStratAnno>>, <<"metadata", "labels", StableRevLabel>>}
    [] i.kind = "CloneSet"   -> {<<"spec", "updateStrategy", "partition">>}
    [] i.kind = "DaemonSet"  -> {<<"spec", "updateStrategy", "rollingUpdate", "partition">>}
    [] OTHER                 -> {<<"spec", "updateStrategy", "rollingUpdate", "partition">>} \cup
                                \* spelling out the default type when the block had none
                                (IF i.strategy \in {"absent", "notype"} THEN {<<"spec", "updateStrategy", "type">>} ELSE {})

AllowedPath(i, p) == \E a \in AllowedPrefixes(i) : IsPrefix(a, p)

FrameOK(i, paths) == \A p \in paths : AllowedPath(i, p)

Props == {"W1_held", "W1_marked", "W2_frame", "W3_unchanged", "W4_repause", "W5_noPanic"}

\* antecedent on the input (W5 is about the call itself and handled by the trace module)
AnteIn(n, i) ==
  CASE n = "W1_held"      -> W1Ante(i)
    [] n = "W1_marked"    -> W1Ante(i)
    [] n = "W2_frame"     -> TRUE
    [] n = "W3_unchanged" -> W3Ante(i)
    [] n = "W4_repause"   -> W4Ante(i)
    [] OTHER              -> TRUE

\* what the property statement demands of the admitted object
HoldsIO(n, i, o) ==
  CASE n = "W1_held"      -> Held(i, o)
    [] n = "W1_marked"    -> o.marker \in CandNames(i)
    [] n = "W2_frame"     -> FrameOK(i, {o.diff[k] : k \in 1..Len(o.diff)})
    [] n = "W3_unchanged" -> ~o.changed
    [] n = "W4_repause"   -> o.paused
    [] OTHER              -> TRUE

(***************************************************************************)
(* Reference definition of the admission function on the projection.       *)
(* Where the statement is silent it follows the code: the first candidate  *)
(* in list order wins; zero replicas / no active ReplicaSet / OnDelete are *)
(* not held (a DaemonSet has no replicas check); only Deployment and       *)
(* CloneSet look at the single-revision condition.  Where the statement    *)
(* speaks it is the ideal function: a hold always carries the marker of    *)
(* the matched Rollout and never fails on an absent strategy block.        *)
(***************************************************************************)
First(i) == IF Cands(i) = {} THEN 0 ELSE CHOOSE k \in Cands(i) : \A m \in Cands(i) : k <= m
Effective(i) == First(i) # 0 /\ ~i.ros[First(i)].empty
TrafficOK(i) == i.ros[First(i)].traffic => i.single

RefEnters(i) ==
  /\ Selected(i) /\ ReleaseSure(i) /\ Effective(i)
  /\ CASE i.kind = "Deployment" -> Replicas(i) > 0 /\ i.rs >= 1 /\ TrafficOK(i)
       [] i.kind = "CloneSet"   -> Replicas(i) > 0 /\ TrafficOK(i)
       [] i.kind = "DaemonSet"  -> TRUE
       [] OTHER                 -> Replicas(i) > 0 /\ i.strategy # "ondelete"

RefMarker(i) == i.ros[First(i)].name

Ref(i) ==
  IF ~Selected(i) THEN i.cur
  ELSE IF i.kind = "Deployment" /\ InProgress(i) THEN
         [i.cur EXCEPT !.paused = IF i.style = "bluegreen" THEN i.cur.paused \/ ReleaseSure(i) ELSE TRUE,
                       !.marker = IF W1Ante(i) THEN RefMarker(i) ELSE i.cur.marker]
  ELSE IF ~RefEnters(i) THEN i.cur
  ELSE CASE i.kind = "Deployment" -> [i.cur EXCEPT !.paused = TRUE, !.marker = RefMarker(i)]
         [] i.kind = "CloneSet"   -> [i.cur EXCEPT !.partType = "str", !.partStr = "100%", !.partInt = 0, !.marker = RefMarker(i)]
         [] OTHER                 -> [i.cur EXCEPT !.partType = "int", !.partInt = MaxInt16, !.partStr = "", !.marker = RefMarker(i)]

ProjFields == {"paused", "partType", "partInt", "partStr", "marker"}

\* the paths the reference writes (for the frame property on the reference itself)
RefDiff(i) ==
  LET r == Ref(i)
      part == IF i.kind = "CloneSet" THEN <<"spec", "updateStrategy", "partition">> ELSE <<"spec", "updateStrategy", "rollingUpdate", "partition">>
  IN  (IF r.paused # i.cur.paused THEN {<<"spec", "paused">>} ELSE {}) \cup
      (IF r.marker # i.cur.marker THEN {<<"metadata", "annotations", InProgAnno>>} ELSE {}) \cup
      (IF r.partType # i.cur.partType \/ r.partInt # i.cur.partInt \/ r.partStr # i.cur.partStr THEN {part} ELSE {})

\* the reference as an output record (its diff is RefDiff, a set; the frame of the reference is FrameOK(i, RefDiff(i)))
RefOut(i) ==
  LET r == Ref(i)
  IN  [paused |-> r.paused, partType |-> r.partType, partInt |-> r.partInt, partStr |-> r.partStr, marker |-> r.marker,
       changed |-> r # i.cur, diff |-> <<>>]
=============================================================================
