--------------------------- MODULE CustomNetTrace ---------------------------
(***************************************************************************)
(* Function-level trace validation for CustomNet.tla (property C15): every *)
(* record is one execution of the REAL custom network provider (Initialize,*)
(* EnsureRoutes for a sequence of steps, one more EnsureRoutes, Finalise;  *)
(* and, on fresh objects, only the last step) on one input of the bounded  *)
(* domain, with the real luamanager and the shipped / generated scripts.   *)
(*   layer P: the property predicates on the REAL output                   *)
(*   layer C: equality with the reference definitions (drift only)         *)
(* Canonical strings (orig, afterSeq, afterLast, final, route canon) are   *)
(* sorted-key JSON of {spec, labels, annotations} produced by the driver's *)
(* own projection; they are compared here, not in the driver.              *)
(***************************************************************************)
EXTENDS CustomNet, Json, TLC, IOUtils

Cases == ndJsonDeserialize(IOEnv.VERIF_CASES)

Props == {"N_noPanic", "N1", "N2", "N3a", "N3b", "N4"}

Ran(c)     == c.panic = "" /\ c.err = ""
StepsOk(c) == Ran(c) /\ c.out.stepErrs = 0
LastStep(c) == Last(c.in.steps)
Refs(c)    == 1..Len(c.in.refs)
VSRefs(c)  == {i \in Refs(c) : c.in.refs[i].kind = "vs"}
GenRefs(c) == {i \in Refs(c) : c.in.refs[i].kind = "gen"}
RoutesIn(c, i) == c.in.refs[i].routes
SomeRoute(c, P(_)) == \E i \in VSRefs(c) : \E j \in 1..Len(RoutesIn(c, i)) : P(RoutesIn(c, i)[j])

Ante(n, c) ==
  CASE n = "N_noPanic" -> TRUE
    [] n = "N1"  -> StepsOk(c) /\ Len(c.in.steps) >= 2
    [] n = "N2"  -> Ran(c)
    [] n = "N3a" -> StepsOk(c) /\ LastStep(c).m = 0 /\ LastStep(c).w >= 0 /\ SomeRoute(c, SingleStable)
    [] n = "N3b" -> StepsOk(c) /\ SomeRoute(c, OtherHosts)
    [] n = "N4"  -> StepsOk(c) /\ c.out.reachedDone

\* the original route j of VirtualService i is found at position j + ins of the written one
Aligned(c, i) == LET o == c.out.refs[i] IN o.ins >= 0 /\ Len(o.rts) = Len(RoutesIn(c, i)) + o.ins

Holds(n, c) ==
  CASE n = "N_noPanic" -> c.panic = ""
    [] n = "N1"  -> \A i \in Refs(c) : HistoryIndependent(c.out.refs[i].afterSeq, c.out.refs[i].afterLast)
    [] n = "N2"  -> c.out.finErr = "" /\ \A i \in Refs(c) : Restored(c.out.refs[i].orig, c.out.refs[i].final, c.out.refs[i].snapAfter)
    [] n = "N3a" -> \A i \in VSRefs(c) :
                      /\ Aligned(c, i)
                      /\ \A j \in 1..Len(RoutesIn(c, i)) :
                           SingleStable(RoutesIn(c, i)[j]) =>
                             SplitExact(RoutesIn(c, i)[j], c.out.refs[i].rts[j + c.out.refs[i].ins].dests, LastStep(c).w, c.in.sameSvc)
    [] n = "N3b" -> \A i \in VSRefs(c) :
                      /\ Aligned(c, i)
                      /\ \A j \in 1..Len(RoutesIn(c, i)) :
                           OtherHosts(RoutesIn(c, i)[j]) => c.out.refs[i].rts[j + c.out.refs[i].ins].canon = c.out.refs[i].orts[j]
    [] n = "N4"  -> c.out.err2 = "" /\ NoWrite(c.out.done2, c.out.eff2)

(* layer C *)
RefProj(c, i) == Script(c.in.refs[i].script, c.in.refs[i].orig, LastStep(c))
RealDests(c, i) == [j \in 1..Len(c.out.refs[i].rts) |-> c.out.refs[i].rts[j].dests]

DriftFields(c) ==
  IF ~StepsOk(c) THEN {}
  ELSE {f \in {"proj", "frame", "routes", "snapshot", "converge", "writeCalls"} :
          CASE f = "proj"       -> \E i \in GenRefs(c) : c.out.refs[i].proj # RefProj(c, i)
            [] f = "frame"      -> \E i \in GenRefs(c) : c.out.refs[i].frameAfter # c.out.refs[i].frameOrig
            [] f = "routes"     -> \E i \in VSRefs(c) : RealDests(c, i) # RefVSDests(RoutesIn(c, i), LastStep(c), c.in.sameSvc)
            [] f = "snapshot"   -> \E i \in Refs(c) : ~c.out.refs[i].snapDuring
            [] f = "converge"   -> ~c.out.reachedDone \/ c.out.lastCalls > 2
            [] f = "writeCalls" -> c.out.wc2 # 0}

VARIABLES l, cnt
Init == l = 1 /\ cnt = [n \in Props |-> 0]
Next ==
  /\ l <= Len(Cases)
  /\ l' = l + 1
  /\ LET c == Cases[l]
         bad == {n \in Props : Ante(n, c) /\ ~Holds(n, c)}
     IN  /\ cnt' = [n \in Props |-> IF Ante(n, c) THEN cnt[n] + 1 ELSE cnt[n]]
         /\ (bad = {} \/ PrintT(<<"BAD", c.id, bad>>))
         /\ (DriftFields(c) = {} \/ PrintT(<<"DRIFT", c.id, "fn", DriftFields(c)>>))
Spec == Init /\ [][Next]_<<l, cnt>>
Accepted == (l = Len(Cases) + 1) => PrintT(<<"TRACE-DONE", Len(Cases), Len(Cases), ToJson(cnt)>>)
=============================================================================
