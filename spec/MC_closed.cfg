SPECIFICATION Spec
INVARIANTS Inv_C04a Inv_C04b Inv_C04c Inv_C05 Inv_C05tr Inv_C10b Inv_C18b
PROPERTIES Act_C01 Act_C02 Act_C03 Act_C10 Act_C11 Act_C18
CHECK_DEADLOCK FALSE
