SPECIFICATION Spec
CONSTANT Full = TRUE
INVARIANT L_steps
INVARIANT L_conflict
INVARIANT L_immutable
INVARIANT L_updateStricter
INVARIANT L_shape
CHECK_DEADLOCK FALSE
