SPECIFICATION Spec
CONSTANT MaxLen = 3
INVARIANT InvN1
INVARIANT InvN2
PROPERTY ActN4
CHECK_DEADLOCK FALSE
