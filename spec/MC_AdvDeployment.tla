--------------------------- MODULE MC_AdvDeployment ---------------------------
(***************************************************************************)
(* Exhaustive TLC check of the reference definitions of AdvDeployment.tla   *)
(* closed with the same environment as the real-code exploration           *)
(* (harness/cmd/fn-advdeploy): ReplicaSet controller / kubelet (one pod    *)
(* becomes available / unavailable), the user scaling the deployment, the  *)
(* partition being raised.                                                 *)
(*   MC_AdvDeployment.cfg       D1..D4 as action properties of every Sync  *)
(*                              step, D5 as the bounded fair run from      *)
(*                              every reachable state (invariant)          *)
(*   MC_AdvDeployment_Live.cfg  D5 as a temporal property under weak       *)
(*                              fairness of Sync and of pod availability   *)
(*                              once the environment has calmed down       *)
(***************************************************************************)
EXTENDS AdvDeployment

CONSTANTS RMax,      \* deployment sizes 1..RMax
          RMax2      \* sizes explored with two old ReplicaSets (<= RMax)

VARIABLES st,        \* the abstract state record of AdvDeployment.tla
          sy,        \* the step that led here was a Sync of the controller
          calm       \* Live spec only: the environment has calmed down (only Sync / pods becoming available)
vars == <<st, sy, calm>>

Pcts == {0, 34, 50, 99, 100}
Partitions(r) == [t : {"int"}, v : 0..r] \cup [t : {"pct"}, v : Pcts]
Fences == [t : {"int"}, v : {0, 1, 2}] \cup [t : {"pct"}, v : {25, 50}]
RCap(x) == IF NOld(x) = 2 THEN RMax2 ELSE RMax

InitOf(r, p, sg, un) ==
  LET base == [R |-> r, r0 |-> r, pt |-> p.t, pv |-> p.v, st |-> sg.t, sv |-> sg.v, ut |-> un.t, uv |-> un.v,
               nx |-> FALSE, n |-> Gone, olds |-> <<>>]
      full == RSrec(r, r, r, r + Surge(base))
  IN  {[base EXCEPT !.olds = <<full>>]}
        \cup {[base EXCEPT !.olds = <<[full EXCEPT !.s = k, !.a = k], [full EXCEPT !.s = r - k, !.a = r - k]>>] :
                k \in IF r <= RMax2 THEN 1..(r - 1) ELSE {}}

\* only old ReplicaSets, R available pods, the new revision has just been requested
InitStates ==
  UNION { UNION { UNION { UNION { InitOf(r, p, sg, un) :
            un \in {u \in Fences : ~(u.t = "int" /\ u.v = 0 /\ sg.t = "int" /\ sg.v = 0)} } :
            sg \in Fences } :
            p \in Partitions(r) } :
            r \in 1..RMax }

Init == st \in InitStates /\ sy = FALSE /\ calm = FALSE

SyncAct == st' = RefSync(st) /\ sy' = TRUE

\* 2 / 3 back-to-back syncs before the ReplicaSet controller reacts (stale statuses), then its reaction
SyncStaleAct == \E k \in {2, 3} : StaleOk(st, k, FALSE) /\ st' = SyncStaleWith(st, k, FALSE) /\ sy' = TRUE

AvailUp ==
  /\ sy' = FALSE
  /\ \/ st.nx /\ st.n.a < st.n.s /\ st' = [st EXCEPT !.n.a = @ + 1]
     \/ \E i \in 1..NOld(st) : st.olds[i].a < st.olds[i].s /\ st' = [st EXCEPT !.olds[i].a = @ + 1]

AvailDown ==
  /\ sy' = FALSE
  /\ \/ st.nx /\ st.n.a > 0 /\ st' = [st EXCEPT !.n.a = @ - 1]
     \/ \E i \in 1..NOld(st) : st.olds[i].a > 0 /\ st' = [st EXCEPT !.olds[i].a = @ - 1]

ScaleAct ==
  /\ sy' = FALSE
  /\ \E r \in 1..RCap(st) : r # st.R /\ st' = [st EXCEPT !.R = r]

\* a raise allows strictly more new-revision pods at the current size and not fewer at any size
IsRaise(pt, pv, qt, qv, R) ==
  /\ LimitOf(qt, qv, R) > LimitOf(pt, pv, R)
  /\ \A r \in 1..RMax : LimitOf(qt, qv, r) >= LimitOf(pt, pv, r)

RaiseAct ==
  /\ sy' = FALSE
  /\ \E p \in Partitions(st.R) :
        /\ IsRaise(st.pt, st.pv, p.t, p.v, st.R)
        /\ st' = [st EXCEPT !.pt = p.t, !.pv = p.v]

Env == AvailUp \/ AvailDown \/ ScaleAct \/ RaiseAct

Next == (SyncAct \/ SyncStaleAct \/ Env) /\ UNCHANGED calm
Spec == Init /\ [][Next]_vars

(***************************************************************************)
(* D1..D4: every Sync step of the reference                                *)
(***************************************************************************)
P_D1 == [][sy' => D1(st, st')]_vars
P_D2 == [][sy' => D2(st, st')]_vars
P_D3 == [][sy' => D3(st, st')]_vars
P_D4 == [][sy' => D4(st, st')]_vars

RSOK(r) == r.s >= 0 /\ r.a >= 0 /\ r.a <= r.s /\ (r.s = 0 => r = Gone) /\ (r.s > 0 => r.d >= 1 /\ r.m >= 1)
TypeOK ==
  /\ st.R \in 1..RMax /\ NOld(st) \in 1..2
  /\ RSOK(st.n) /\ (~st.nx => st.n = Gone)
  /\ \A i \in 1..NOld(st) : RSOK(st.olds[i])

\* D5, bounded form: from every reachable state whose partition covers all replicas the fair schedule
\* (Sync, every pod becomes available) reaches a fixed point, and that fixed point is the new revision only
I_D5 == Covers(st) => LET r == FairRun(st, FairBudget(st), FALSE) IN r.fix /\ Converged(r.x)

(***************************************************************************)
(* D5 as a temporal property: at some point the environment calms down     *)
(* (no more unavailability, scaling, partition changes); from then on Sync *)
(* and "a pod becomes available" are weakly fair.                          *)
(***************************************************************************)
CalmDown == ~calm /\ calm' = TRUE /\ UNCHANGED <<st, sy>>
NextLive ==
  \/ ~calm /\ (SyncAct \/ SyncStaleAct \/ Env) /\ UNCHANGED calm
  \/ CalmDown
  \/ calm /\ (SyncAct \/ AvailUp) /\ UNCHANGED calm
SpecLive == Init /\ [][NextLive]_vars /\ WF_vars(calm /\ SyncAct /\ UNCHANGED calm) /\ WF_vars(calm /\ AvailUp /\ UNCHANGED calm)
L_D5 == (calm /\ Covers(st)) ~> Converged(st)
=============================================================================
