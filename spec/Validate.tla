------------------------------ MODULE Validate ------------------------------
(***************************************************************************)
(* The Rollout validating admission handler of Kruise Rollouts (property    *)
(* C09, second sentence: "Validation also keeps the structural promises    *)
(* the controllers depend on: non-empty, non-decreasing steps, one Rollout *)
(* per workload, and no change of workload reference, traffic routing,     *)
(* style or step count while a release is progressing").                   *)
(*                                                                         *)
(* Code anchored (one operator per validate* function):                    *)
(*   pkg/webhook/rollout/validating/rollout_create_update_handler.go       *)
(*       Handle, validateRollout, validateRolloutUpdate,                   *)
(*       validateRolloutConflict, validateRolloutSpec,                     *)
(*       validateRolloutSpecObjectRef, validateRolloutSpecStrategy,        *)
(*       validateRolloutSpecCanaryStrategy / ...BlueGreenStrategy,         *)
(*       validateRolloutSpecCanaryTraffic, validateRolloutSpecCanarySteps, *)
(*       GetContextFromv1beta1Rollout                                      *)
(*   pkg/webhook/rollout/validating/validate_v1alphal_rollout.go           *)
(*       the v1alpha1 twins, GetContextFromv1alpha1Rollout                 *)
(*   api/v1beta1/rollout_types.go GetRollingStyle, IsRealPartition         *)
(*   api/v1alpha1/conversion.go ConvertFrom (a stored blue-green Rollout   *)
(*       is served through v1alpha1 with an empty spec and status)         *)
(*                                                                         *)
(* Abstract input `in` (one admission request and the API server's state): *)
(*   ver    "v1beta1" | "v1alpha1"      version of the request             *)
(*   op     "CREATE" | "UPDATE"                                            *)
(*   name   name of the submitted Rollout                                  *)
(*   limit  PartitionReplicasLimitWithTraffic                              *)
(*   new, old : Spec   (old = new for CREATE)                              *)
(*   phase  stored status.phase of the updated object                      *)
(*   others sequence of [name, sameNs, wl, deleting, disabled, strat]:     *)
(*          the other stored (v1beta1) Rollouts                            *)
(* Spec = [strat : "canary"|"blueGreen"|"none"|"both", extra : BOOLEAN,    *)
(*         anno, annoFold : STRING, wl : WL, steps : Seq(Step),            *)
(*         tr : Seq(TR), paused, disabled : BOOLEAN]                       *)
(* WL   = [present, group, version, kind, name]                            *)
(* Step = [rk : "none"|"int"|"pct"|"bad", rv, tk : "none"|"pct"|"bad", tv, *)
(*         hasW, w, m : 0 (absent) | 1 (empty list) | 2 (one match), pause]*)
(* TR   = [svc, svcName, grace, ing : "none"|"named"|"empty", ingName,     *)
(*         gw : "none"|"named"|"empty"|"noname", gwName,                   *)
(*         custom : -1 (absent) | 0 (empty list) | 1]                      *)
(* Abstract output: [allowed : BOOLEAN, why : set of failing components].  *)
(***************************************************************************)
EXTENDS Integers, Sequences, FiniteSets

NoWl == [present |-> FALSE, group |-> "", version |-> "", kind |-> "", name |-> ""]

\* util.IsSupportedWorkload compares group and kind only
SupportedGK == { <<"apps", "ReplicaSet">>, <<"apps", "Deployment">>, <<"apps", "StatefulSet">>,
                 <<"apps.kruise.io", "CloneSet">>, <<"apps.kruise.io", "StatefulSet">>, <<"apps.kruise.io", "DaemonSet">> }
BlueGreenGK == { <<"apps", "Deployment">>, <<"apps.kruise.io", "CloneSet">> }
GK(wl) == <<wl.group, wl.kind>>
IsNativeDeployment(wl) == wl.present /\ wl.group = "apps" /\ wl.version = "v1" /\ wl.kind = "Deployment"

\* the workload two references resolve to (util.ControllerFinder looks a workload up by group, kind,
\* namespace and name; the version of the reference plays no role)
SameWorkload(a, b) == a.present /\ b.present /\ a.group = b.group /\ a.kind = b.kind /\ a.name = b.name

Range(s) == {s[i] : i \in DOMAIN s}
Progressing(phase) == phase \in {"Progressing", "Terminating"}

(***************************************************************************)
(* v1beta1                                                                 *)
(***************************************************************************)
\* RolloutStrategy.GetRollingStyle (strat = "none" dereferences nil: never evaluated on such a spec)
RollingStyleB(s) == IF s.strat \in {"blueGreen", "both"} THEN "BlueGreen" ELSE IF s.extra THEN "Canary" ELSE "Partition"

\* GetContextFromv1beta1Rollout (with IsRealPartition)
ContextB(s) ==
  IF s.strat = "none" THEN ""
  ELSE IF RollingStyleB(s) = "BlueGreen" THEN "BlueGreen"
  ELSE IF RollingStyleB(s) = "Canary" /\ IsNativeDeployment(s.wl) THEN "Canary" ELSE "Partition"

\* validateRolloutSpecObjectRef
ValidateObjectRefB(style, wl) ==
  IF GK(wl) \notin SupportedGK THEN {"ref"}
  ELSE IF style = "BlueGreen" /\ GK(wl) \notin BlueGreenGK THEN {"ref"} ELSE {}

\* replicas scaled to 100 (GetScaledValueFromIntOrPercent(replicas, 100, true)) is rv for both kinds
ReplicasOK(st) == st.rk \in {"int", "pct"} /\ st.rv > 0 /\ ~(st.rk = "pct" /\ st.rv > 100)
\* IsPercentageCanaryReplicasType: nil or string
IsPctType(st) == st.rk # "int"

StepOKB(style, limit, st) ==
  /\ st.rk # "none"
  /\ ReplicasOK(st)
  /\ \/ st.tk = "none" /\ st.m < 2                      \* no traffic strategy for this step
     \/ /\ ~(style = "Partition" /\ st.rk = "pct" /\ st.rv > limit)
        /\ \/ st.tk = "none"
           \/ /\ st.tk = "pct"
              /\ IF style = "BlueGreen" THEN st.tv >= 0 /\ st.tv <= 100 ELSE st.tv > 0 /\ st.tv <= 100

NonDecreasingB(steps) ==
  \A i \in 2..Len(steps) : (IsPctType(steps[i-1]) = IsPctType(steps[i])) => steps[i].rv >= steps[i-1].rv

\* validateRolloutSpecCanarySteps
ValidateStepsB(style, limit, steps) ==
  IF Len(steps) > 0 /\ (\A i \in DOMAIN steps : StepOKB(style, limit, steps[i])) /\ NonDecreasingB(steps) THEN {} ELSE {"steps"}

\* validateRolloutSpecCanaryTraffic (shared shape of both versions)
TrafficRefOK(t) ==
  /\ t.grace >= 0
  /\ t.svc
  /\ ~(t.gw = "none" /\ t.ing = "none" /\ t.custom = -1)
  /\ t.ing # "empty"
  /\ t.gw \notin {"empty", "noname"}
ValidateTraffic(tr) == IF Len(tr) <= 1 /\ (\A i \in DOMAIN tr : TrafficRefOK(tr[i])) THEN {} ELSE {"traffic"}

\* validateRolloutSpecStrategy + validateRolloutSpecCanaryStrategy / validateRolloutSpecBlueGreenStrategy
ValidateStrategyB(style, limit, s) ==
  IF s.strat \in {"none", "both"} THEN {"strategy"}
  ELSE ValidateStepsB(style, limit, s.steps) \cup ValidateTraffic(s.tr)

\* validateRolloutConflict: reflect.DeepEqual of the whole reference (apiVersion, kind, name)
ConflictB(in, s) ==
  IF \E i \in DOMAIN in.others : in.others[i].sameNs /\ in.others[i].name # in.name /\ in.others[i].wl = s.wl
  THEN {"conflict"} ELSE {}

\* validateRollout
ValidateRolloutB(in, s) ==
  ValidateObjectRefB(ContextB(s), s.wl) \cup ValidateStrategyB(ContextB(s), in.limit, s) \cup ConflictB(in, s)

\* validateRolloutUpdate (after validateRollout passed): first difference wins
ImmutableB(in) ==
  IF ~Progressing(in.phase) THEN {}
  ELSE IF in.old.wl # in.new.wl THEN {"immRef"}
  ELSE IF in.old.tr # in.new.tr THEN {"immTraffic"}
  ELSE IF RollingStyleB(in.old) # RollingStyleB(in.new) THEN {"immStyle"}
  ELSE IF Len(in.old.steps) # Len(in.new.steps) THEN {"immSteps"} ELSE {}

HandleB(in) ==
  LET e == ValidateRolloutB(in, in.new)
  IN  IF e # {} \/ in.op = "CREATE" THEN e ELSE ImmutableB(in)

(***************************************************************************)
(* v1alpha1                                                                *)
(***************************************************************************)
\* what the API server serves through v1alpha1 for a stored Rollout (ConvertFrom): a blue-green
\* Rollout keeps its metadata only
ViewWl(ver, strat, wl) == IF ver = "v1alpha1" /\ strat = "blueGreen" THEN NoWl ELSE wl
ViewPhase(in) == IF in.ver = "v1alpha1" /\ in.old.strat = "blueGreen" THEN "" ELSE in.phase

\* GetContextFromv1alpha1Rollout; it dereferenced spec.objectRef.workloadRef without a nil check until fix
\* FX-C09-validate-missing-workloadref (kept as the definition of the formerly panicking shape)
ContextAPanicked(s) == s.strat = "canary" /\ s.annoFold \in {"", "canary"} /\ ~s.wl.present
ContextAPanics(s) == FALSE
ContextA(s) == IF s.annoFold \in {"", "canary"} /\ IsNativeDeployment(s.wl) THEN "Canary" ELSE "Partition"

\* validateV1alpha1RolloutSpecObjectRef
ValidateObjectRefA(wl) == IF ~wl.present \/ GK(wl) \notin SupportedGK THEN {"ref"} ELSE {}
\* validateV1alpha1RolloutRollingStyle
ValidateStyleA(s) == IF s.annoFold \in {"", "canary", "partition"} THEN {} ELSE {"style"}

StepOKA(style, limit, st) ==
  /\ st.hasW \/ st.rk # "none"
  /\ IF st.rk # "none"
     THEN /\ ReplicasOK(st)
          /\ ~(style = "Partition" /\ st.rk = "pct" /\ st.rv > limit /\ (st.m >= 1 \/ st.hasW))
     ELSE /\ ~(style = "Partition" /\ st.w > limit)
          /\ st.w > 0 /\ st.w <= 100

\* replicas of a step, the weight standing in for absent replicas
EffA(st) == IF st.rk = "none" THEN st.w ELSE st.rv

NonDecreasingA(steps, isTraffic) ==
  \A i \in 2..Len(steps) :
    /\ ~(isTraffic /\ steps[i].hasW /\ steps[i-1].hasW /\ steps[i].w < steps[i-1].w)
    /\ (IsPctType(steps[i-1]) = IsPctType(steps[i])) => EffA(steps[i]) >= EffA(steps[i-1])

\* validateV1alpha1RolloutSpecCanarySteps
ValidateStepsA(style, limit, steps, isTraffic) ==
  IF Len(steps) > 0 /\ (\A i \in DOMAIN steps : StepOKA(style, limit, steps[i])) /\ NonDecreasingA(steps, isTraffic) THEN {} ELSE {"steps"}

\* validateV1alpha1RolloutSpecStrategy / ...CanaryStrategy
ValidateStrategyA(limit, s) ==
  IF s.strat # "canary" THEN {"strategy"}
  ELSE ValidateStepsA(ContextA(s), limit, s.steps, Len(s.tr) > 0) \cup ValidateTraffic(s.tr)

\* validateV1alpha1RolloutConflict: both references non-nil and deeply equal
ConflictA(in, s) ==
  IF \E i \in DOMAIN in.others :
        LET o == in.others[i] v == ViewWl(in.ver, o.strat, o.wl)
        IN  o.sameNs /\ o.name # in.name /\ v.present /\ s.wl.present /\ v = s.wl
  THEN {"conflict"} ELSE {}

\* validateV1alpha1Rollout
ValidateRolloutA(in, s) ==
  ValidateObjectRefA(s.wl) \cup ValidateStyleA(s) \cup ValidateStrategyA(in.limit, s) \cup ConflictA(in, s)

\* validateV1alpha1RolloutUpdate (step-count rule since fix FX-C09-validate-alpha-step-count)
ImmutableA(in) ==
  IF ~Progressing(ViewPhase(in)) THEN {}
  ELSE IF in.old.wl # in.new.wl THEN {"immRef"}
  ELSE IF in.old.tr # in.new.tr THEN {"immTraffic"}
  ELSE IF in.old.annoFold # in.new.annoFold THEN {"immStyle"}
  ELSE IF Len(in.old.steps) # Len(in.new.steps) THEN {"immSteps"} ELSE {}

HandleA(in) ==
  LET e == ValidateRolloutA(in, in.new)
  IN  IF e # {} \/ in.op = "CREATE" THEN e ELSE ImmutableA(in)

(***************************************************************************)
(* Reference definition of the handler                                     *)
(***************************************************************************)
RefPanics(in)  == in.ver = "v1alpha1" /\ ContextAPanics(in.new)
RefWhy(in)     == IF in.ver = "v1beta1" THEN HandleB(in) ELSE HandleA(in)
RefAllowed(in) == RefWhy(in) = {}

(***************************************************************************)
(* Property operators: what C09 promises about an ADMITTED request         *)
(***************************************************************************)
\* size of a step as the controllers read it: replicas, or (v1alpha1) the weight as a percentage
SizeKind(ver, st) ==
  IF st.rk = "int" THEN "int" ELSE IF st.rk = "pct" THEN "pct"
  ELSE IF ver = "v1alpha1" /\ st.rk = "none" /\ st.hasW THEN "pct" ELSE "undef"
SizeVal(st) == IF st.rk \in {"int", "pct"} THEN st.rv ELSE st.w

\* non-empty, and no decrease between consecutive steps whose sizes are comparable (both absolute or
\* both percentages: the rule the validation documents)
StepsPromise(ver, steps) ==
  /\ Len(steps) >= 1
  /\ \A i \in 2..Len(steps) :
       (SizeKind(ver, steps[i-1]) = SizeKind(ver, steps[i]) /\ SizeKind(ver, steps[i]) # "undef")
          => SizeVal(steps[i]) >= SizeVal(steps[i-1])

\* one Rollout per workload: no other live Rollout of the namespace refers to the same workload
ConflictPromise(in) ==
  ~\E i \in DOMAIN in.others :
      LET o == in.others[i]
      IN  o.sameNs /\ o.name # in.name /\ ~o.deleting /\ SameWorkload(o.wl, in.new.wl)

\* style as the user selects it
StyleP(ver, s) ==
  IF s.strat = "blueGreen" THEN "BlueGreen"
  ELSE IF ver = "v1beta1" THEN (IF s.extra THEN "Canary" ELSE "Partition")
  ELSE (IF s.annoFold = "partition" THEN "Partition" ELSE "Canary")
\* the old spec is always the stored one (for a blue-green Rollout updated through v1alpha1 it is a
\* v1beta1 spec)
OldVer(in) == IF in.old.strat = "blueGreen" THEN "v1beta1" ELSE in.ver

SameRef(a, b) == (~a.present /\ ~b.present) \/ SameWorkload(a, b)
ImmutablePromise(in) ==
  /\ SameRef(in.old.wl, in.new.wl)
  /\ in.old.tr = in.new.tr
  /\ StyleP(OldVer(in), in.old) = StyleP(in.ver, in.new)
  /\ Len(in.old.steps) = Len(in.new.steps)

=============================================================================
