SPECIFICATION Spec
PROPERTY Termination
CHECK_DEADLOCK FALSE
