SPECIFICATION Spec
CONSTANT MaxPods = 2
CONSTANT Small = FALSE
INVARIANT Lemma
CHECK_DEADLOCK FALSE
