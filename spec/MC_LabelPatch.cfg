SPECIFICATION Spec
CONSTANT MaxPods = 3
CONSTANT Small = TRUE
INVARIANT Lemma
CHECK_DEADLOCK FALSE
