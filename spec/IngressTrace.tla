---------------------------- MODULE IngressTrace ----------------------------
(***************************************************************************)
(* Function-level trace validation for Ingress.tla (property C14): every   *)
(* record is one execution of the REAL ingress provider (EnsureRoutes per  *)
(* step until it returns true, one more EnsureRoutes, finally Finalise) on *)
(* one (stable Ingress, class, step sequence) of the bounded domain; every *)
(* step also carries the REAL result of entering that step first on a     *)
(* fresh store with the same Ingress and class (`fresh`).                  *)
(*   layer P: the property predicates on the REAL output                   *)
(*   layer C: equality with the reference definitions (drift only)         *)
(***************************************************************************)
EXTENDS Ingress, Json, IOUtils

Cases == ndJsonDeserialize(IOEnv.VERIF_CASES)

Props == {"I_noPanic", "I1_exists", "I1_paths", "I2", "I3", "I4", "I5"}

N(c)  == Len(c.in.steps)
S(c)  == c.out.steps
Ok(c) == c.panic = "" /\ c.err = ""

\* steps 1..i are all of a kind the class's script handles
AllSupported(c, i) == \A j \in 1..i : Supported(c.in.cls, c.in.steps[j])

Ante(n, c) ==
  CASE n = "I_noPanic" -> TRUE
    [] n = "I1_exists" -> Ok(c) /\ AllSupported(c, 1)
    [] n = "I1_paths"  -> Ok(c) /\ \E i \in 1..N(c) : S(c)[i].exists
    [] n = "I2"        -> Ok(c) /\ AllSupported(c, N(c)) /\ S(c)[N(c)].done /\ S(c)[N(c)].exists
                                /\ S(c)[N(c)].fresh.done /\ S(c)[N(c)].fresh.exists
    [] n = "I3"        -> Ok(c)
    [] n = "I4"        -> Ok(c)
    [] n = "I5"        -> Ok(c) /\ \E i \in 1..N(c) : S(c)[i].done

Holds(n, c) ==
  CASE n = "I_noPanic" -> c.panic = ""
       \* entering a step of a supported kind (after supported steps only) succeeds and the canary Ingress exists
    [] n = "I1_exists" -> \A i \in 1..N(c) : AllSupported(c, i) => S(c)[i].err = "" /\ S(c)[i].done /\ S(c)[i].exists
       \* I1: exactly the stable paths pointing at the stable Service, re-targeted to the canary Service, hosts preserved
    [] n = "I1_paths"  -> \A i \in 1..N(c) : S(c)[i].exists => PathsExact(c.in.rules, c.in.canarySvc, S(c)[i].rules)
       \* I2: annotations after the sequence ending in step x = annotations after entering x first (real vs real)
    [] n = "I2"        -> AnnSet(S(c)[N(c)].ann) = AnnSet(S(c)[N(c)].fresh.ann)
       \* I3: the stored stable Ingress is byte-identical after every operation
    [] n = "I3"        -> (\A i \in 1..N(c) : S(c)[i].stableSame) /\ c.out.fin.stableSame
       \* I4: Finalise removes the canary Ingress
    [] n = "I4"        -> c.out.fin.gone /\ c.out.fin.err = ""
       \* I5 (C07): after EnsureRoutes returned true one more call returns true without an effective write
    [] n = "I5"        -> \A i \in 1..N(c) : S(c)[i].done => S(c)[i].againDone /\ S(c)[i].againErr = "" /\ S(c)[i].againWrites = 0

DriftFields(c) ==
  IF ~Ok(c) THEN {}
  ELSE LET cls == c.in.cls
           freshAnn == \E i \in 1..N(c) : /\ Supported(cls, c.in.steps[i]) /\ S(c)[i].fresh.done /\ S(c)[i].fresh.exists
                                          /\ AnnSet(S(c)[i].fresh.ann) # Fresh(cls, AnnSet(c.in.ann), c.in.steps[i])
           freshCalls == \E i \in 1..N(c) : Supported(cls, c.in.steps[i]) /\ S(c)[i].fresh.done /\ S(c)[i].fresh.calls # 3
           rules == \E i \in 1..N(c) : S(c)[i].exists /\ S(c)[i].rules # RefCanaryRules(c.in.rules, c.in.canarySvc)
           fin == c.out.fin.before /\ ~(c.out.fin.modified /\ c.out.fin.calls = 2)
       IN  (IF freshAnn THEN {"freshAnn"} ELSE {}) \cup (IF freshCalls THEN {"freshCalls"} ELSE {})
           \cup (IF rules THEN {"rules"} ELSE {}) \cup (IF fin THEN {"finalise"} ELSE {})

VARIABLES l, cnt
Init == l = 1 /\ cnt = [n \in Props |-> 0]
Next ==
  /\ l <= Len(Cases)
  /\ l' = l + 1
  /\ LET c == Cases[l]
         bad == {n \in Props : Ante(n, c) /\ ~Holds(n, c)}
     IN  /\ cnt' = [n \in Props |-> IF Ante(n, c) THEN cnt[n] + 1 ELSE cnt[n]]
         /\ (bad = {} \/ PrintT(<<"BAD", c.id, bad>>))
         /\ (DriftFields(c) = {} \/ PrintT(<<"DRIFT", c.id, "fn", DriftFields(c)>>))
Spec == Init /\ [][Next]_<<l, cnt>>
Accepted == (l = Len(Cases) + 1) => PrintT(<<"TRACE-DONE", Len(Cases), Len(Cases), ToJson(cnt)>>)
=============================================================================
