--------------------------- MODULE MC_LabelPatch ---------------------------
(* Exhaustive check of LabelPatch!LemmaRef on the reference definition of one labelling pass:
   one TLC state per (configuration, sequence of at most MaxPods pods over the alphabet below).
   Pod sequences are built one pod per step so that the workers share the search. *)
EXTENDS LabelPatch
CONSTANTS MaxPods, Small   \* Small = TRUE: reduced alphabet / configurations (used with MaxPods = 3)
VARIABLES cfg, pods

St(rep, pct) == [rep |-> rep, pct |-> pct]
Plans == { <<St(2, -1)>>, <<St(-1, 50)>>,
           <<St(1, -1), St(3, -1)>>, <<St(-1, 20), St(-1, 100)>>, <<St(2, -1), St(1, -1)>>,
           <<St(1, -1), St(2, -1), St(4, -1)>>, <<St(-1, 10), St(-1, 50), St(-1, 100)>> }
SmallPlans == { <<St(2, -1)>>, <<St(1, -1), St(3, -1)>>, <<St(2, -1), St(1, -1)>>,
                <<St(-1, 10), St(-1, 50), St(-1, 100)>> }
Configs == { [plan |-> p, R |-> r, cur |-> c, filter |-> f] :
               p \in (IF Small THEN SmallPlans ELSE Plans), r \in (IF Small THEN {3} ELSE {2, 5}),
               c \in 0..2, f \in {"none", "unordered"} }

\* raw label values and their numeric reading
Bids == {"", "abc", "-1", "0", "1", "2", "3", "4"}
BkFor(n, b) ==
  CASE b = ""    -> "none"
    [] b = "abc" -> "nonnum"
    [] b = "-1"  -> "neg"
    [] b = "0"   -> "zero"
    [] OTHER     -> LET v == CHOOSE v \in 1..4 : ToString(v) = b IN IF v <= n THEN "in" ELSE "high"

Labels == { <<"none", "">>, <<"none", "1">>, <<"foreign", "1">>, <<"foreign", "0">>,
            <<"cur", "">>, <<"cur", "abc">>, <<"cur", "-1">>, <<"cur", "0">>, <<"cur", "1">>, <<"cur", "2">>, <<"cur", "4">> }
Kinds  == { <<"new", "cs", "crh">>, <<"old", "cs", "crh">>, <<"new", "rs", "none">>, <<"old", "rs", "none">>,
            <<"new", "cs", "pth">>, <<"unknown", "cs", "none">> }

\* the pod filter is only installed for CloneSet / StatefulSet / DaemonSet pods (never for the
\* ReplicaSet-owned pods of a Deployment), so "rs" pods appear with filter = "none" only
SmallLabels == { <<"none", "">>, <<"foreign", "1">>, <<"cur", "abc">>, <<"cur", "0">>, <<"cur", "1">>, <<"cur", "2">> }
SmallKinds  == { <<"new", "cs", "crh", FALSE>>, <<"new", "cs", "crh", TRUE>>, <<"old", "cs", "crh", FALSE>>, <<"new", "rs", "none", FALSE>> }
PodTypes(n, f) ==
  IF Small THEN
  { [rev |-> k[1], own |-> k[2], hash |-> k[3], term |-> k[4], rid |-> lb[1], bid |-> lb[2], bk |-> BkFor(n, lb[2]), nnu |-> u] :
      k \in {kk \in SmallKinds : f = "none" \/ kk[2] # "rs"}, lb \in SmallLabels,
      u \in (IF f = "none" THEN {FALSE} ELSE BOOLEAN) }
  ELSE
  { [rev |-> k[1], own |-> k[2], hash |-> k[3], term |-> t, rid |-> lb[1], bid |-> lb[2], bk |-> BkFor(n, lb[2]), nnu |-> u] :
      k \in {kk \in Kinds : f = "none" \/ kk[2] # "rs"}, t \in BOOLEAN, lb \in Labels,
      u \in (IF f = "none" THEN {FALSE} ELSE BOOLEAN) }

\* the context fields the real controller derives (cloneset control.go CalculateBatchContext)
Ctx ==
  LET nnu     == Cardinality({k \in DOMAIN pods : pods[k].nnu})
      step    == cfg.plan[cfg.cur + 1]
      planned == PlannedOf(step, cfg.R)
      desired == IF nnu > 0 THEN nnu + PlannedOf(step, cfg.R - nnu) ELSE planned
  IN  [plan |-> cfg.plan, R |-> cfg.R, cur |-> cfg.cur, filter |-> cfg.filter,
       planned |-> planned, desired |-> desired, pods |-> pods]

Init == cfg \in {c \in Configs : c.cur < Len(c.plan)} /\ pods = <<>>
Next == /\ Len(pods) < MaxPods
        /\ \E t \in PodTypes(Len(cfg.plan), cfg.filter) : pods' = Append(pods, t)
        /\ UNCHANGED cfg
Spec == Init /\ [][Next]_<<cfg, pods>>

NnuFits == Cardinality({k \in DOMAIN pods : pods[k].nnu}) <= cfg.R
Lemma == NnuFits => LemmaRef(Ctx)
=============================================================================
