---------------------------- MODULE GatewayTrace ----------------------------
(***************************************************************************)
(* Function-level trace validation for Gateway.tla (property C13): every   *)
(* record is one execution of the REAL Gateway API provider on one user    *)
(* HTTPRoute of the bounded domain: EnsureRoutes for every step of a step  *)
(* sequence (until it reports done, plus one extra call), then Finalise.   *)
(*   layer P: the property predicates on the REAL rules after every op     *)
(*   layer C: equality with the reference definitions (drift only), per    *)
(*            operation, computed from the REAL state before the operation *)
(***************************************************************************)
EXTENDS Gateway, Json, TLC, IOUtils

Cases == ndJsonDeserialize(IOEnv.VERIF_CASES)

Props == {"G_noPanic", "G1", "G2", "G3", "G4_clean", "G4_kept", "G4_split", "G5"}

NSteps(c) == Len(c.in.steps)
Orig(c)   == c.in.route
\* the route before / after operation k (operations 1..NSteps are the steps, NSteps+1 is Finalise)
Pre(c, k)  == IF k = 1 THEN Orig(c) ELSE c.out.ops[k - 1].rules
Post(c, k) == c.out.ops[k].rules
Final(c)   == Post(c, NSteps(c) + 1)

Complete(c) == c.panic = "" /\ c.err = "" /\ Len(c.out.ops) = NSteps(c) + 1
StepsOf(c, kind) == {k \in 1..NSteps(c) : c.in.steps[k].kind = kind}

Ante(n, c) ==
  CASE n = "G_noPanic" -> TRUE
    [] n = "G1"        -> Complete(c) /\ StepsOf(c, "W") # {}
    [] n = "G2"        -> Complete(c) /\ StepsOf(c, "M") # {}
    [] OTHER           -> Complete(c)

Holds(n, c) ==
  CASE n = "G_noPanic" -> c.panic = "" /\ c.err = ""
    [] n = "G1"        -> \A k \in StepsOf(c, "W") : G1(Pre(c, k), Post(c, k), c.in.steps[k].w)
    [] n = "G2"        -> \A k \in StepsOf(c, "M") : G2(Pre(c, k), Post(c, k), c.in.steps[k].matches)
    [] n = "G3"        -> \A k \in 1..(NSteps(c) + 1) : G3(Orig(c), Post(c, k))
    [] n = "G4_clean"  -> G4clean(Orig(c), Final(c))
    [] n = "G4_kept"   -> G4kept(Orig(c), Final(c))
    [] n = "G4_split"  -> G4split(Orig(c), Final(c))
    \* C07c: EnsureRoutes reaches its fixed point; once it reported done, one more call reports
    \* done again and performs no effective write
    [] n = "G5"        -> \A k \in 1..NSteps(c) : c.out.ops[k].conv /\ c.out.ops[k].xdone /\ ~c.out.ops[k].xwrote

RefPost(c, k) ==
  IF k <= NSteps(c) THEN RefStep(Pre(c, k), c.in.steps[k]) ELSE RefFinalise(Pre(c, k), Orig(c))

DriftFields(c) ==
  IF ~Complete(c) THEN {}
  ELSE {c.out.ops[k].kind : k \in {x \in 1..(NSteps(c) + 1) : RefPost(c, x) # Post(c, x)}}
         \cup (IF \E k \in 1..(NSteps(c) + 1) : c.out.ops[k].calls > 2 \/ ~c.out.ops[k].conv \/ ~c.out.ops[k].xdone \/ c.out.ops[k].xwrote
               THEN {"calls"} ELSE {})

\* The failing predicates of a case are printed once per (predicate, class of the input) and chunk:
\* the class is the tuple of the descriptor's signature_fields (lib/fn/gateway.json), so every
\* signature the python side distinguishes still gets its first witness, while the thousands of
\* further cases of an already reported class are only counted (nbad).
Class(c) == <<c.in.backendless, c.in.sharedSplit, c.in.pathFirst, c.in.weightThenMatch>>

VARIABLES l, cnt, seen, nbad
Init == l = 1 /\ cnt = [n \in Props |-> 0] /\ seen = {} /\ nbad = [n \in Props |-> 0]
Next ==
  /\ l <= Len(Cases)
  /\ l' = l + 1
  /\ LET c == Cases[l]
         bad == {n \in Props : Ante(n, c) /\ ~Holds(n, c)}
         new == {n \in bad : <<n, Class(c)>> \notin seen}
     IN  /\ cnt' = [n \in Props |-> IF Ante(n, c) THEN cnt[n] + 1 ELSE cnt[n]]
         /\ nbad' = [n \in Props |-> IF n \in bad THEN nbad[n] + 1 ELSE nbad[n]]
         /\ seen' = seen \cup {<<n, Class(c)>> : n \in bad}
         /\ (new = {} \/ PrintT(<<"BAD", c.id, new>>))
         /\ (DriftFields(c) = {} \/ PrintT(<<"DRIFT", c.id, "fn", DriftFields(c)>>))
Spec == Init /\ [][Next]_<<l, cnt, seen, nbad>>
Accepted == (l = Len(Cases) + 1) => PrintT(<<"BAD-COUNT", ToJson(nbad)>>) /\ PrintT(<<"TRACE-DONE", Len(Cases), Len(Cases), ToJson(cnt)>>)
=============================================================================
