---------------------------- MODULE RolloutsTrace ----------------------------
(***************************************************************************)
(* Trace validation: TLC is the oracle for transitions recorded from the   *)
(* REAL controllers by the harness explorer.                               *)
(*                                                                         *)
(*   VERIF_STATES : ndjson, one distinct abstract state per line {id, s}   *)
(*   VERIF_TRANS  : ndjson, one real transition per line                   *)
(*                  {pre, act, base, fault, post, mids, panic, ...}        *)
(*                                                                         *)
(* Layer P (verdicts): every property predicate of RolloutsProps on every  *)
(*   recorded transition, and every state invariant on every post state    *)
(*   and on every mid state (the state after each single API write).       *)
(* Layer C (conformance, drift only): post = Step(pre, act) of the model   *)
(*   Rollouts.tla restricted to the fields the model claims (ModelView).   *)
(*                                                                         *)
(* The spec is a counter over the file, so validation is linear. Failing   *)
(* (line, predicate) pairs are printed as <<"BAD", line, names>> /         *)
(* <<"DRIFT", line, fields>>; TLC itself always terminates normally, and   *)
(* the orchestrator turns the printed pairs into verdicts and replays.     *)
(***************************************************************************)
EXTENDS RolloutsModel, Json, TLC, IOUtils

States == ndJsonDeserialize(IOEnv.VERIF_STATES)
Trans  == ndJsonDeserialize(IOEnv.VERIF_TRANS)
CheckConformance == IOEnv.VERIF_CONFORM = "1"

St(i) == States[i].s

VARIABLES l, cnt   \* cnt[name] = number of consumed transitions on which the property's antecedent held

BadProps(i) ==
  LET t == Trans[i]
      p == St(t.pre)
      q == St(t.post)
  IN  {n \in ActionProps : ~ActHolds(n, p, t, q)}
      \* state invariants are reported at their onset: the transition (or the single API write inside
      \* it) after which the invariant is false although it held before
      \cup {n \in StateProps : StateHolds(n, p) /\ ~StateHolds(n, q)}
      \cup {n \in MidProps : StateHolds(n, p) /\ \E k \in 1..Len(t.mids) : ~StateHolds(n, St(t.mids[k]))}

Drift(i) ==
  LET t == Trans[i]
      p == St(t.pre)
      q == St(t.post)
  IN  IF CheckConformance /\ t.fault = "" /\ t.panic = "" /\ Modelled(p, t.base)
      THEN LET succ == StepSet(p, t.base) IN
           IF \E x \in succ : ViewDiff(ModelView(x), ModelView(q)) = {} THEN {}
           ELSE IF succ = {} THEN {"no-successor"}
           ELSE ViewDiff(ModelView(CHOOSE x \in succ : TRUE), ModelView(q))
      ELSE {}

Unmodelled(i) ==
  LET t == Trans[i] IN CheckConformance /\ t.fault = "" /\ ~Modelled(St(t.pre), t.base)

Hits(i) ==
  LET t == Trans[i]
      p == St(t.pre)
      q == St(t.post)
  IN  {n \in ActionProps : ActAnte(n, p, t, q)} \cup {n \in StateProps : StateAnte(n, q)}

TraceInit == l = 1 /\ cnt = [n \in ActionProps \cup StateProps |-> 0]

TraceNext ==
  /\ l <= Len(Trans)
  /\ l' = l + 1
  /\ cnt' = [n \in DOMAIN cnt |-> IF n \in Hits(l) THEN cnt[n] + 1 ELSE cnt[n]]
  /\ (BadProps(l) = {} \/ PrintT(<<"BAD", l, BadProps(l)>>))
  /\ (Drift(l) = {} \/ PrintT(<<"DRIFT", l, Trans[l].base, Drift(l)>>))
  /\ (~Unmodelled(l) \/ PrintT(<<"UNMODELLED", l, Trans[l].base>>))

TraceSpec == TraceInit /\ [][TraceNext]_<<l, cnt>>

\* acceptance: every line was consumed
TraceAccepted == (l = Len(Trans) + 1) => PrintT(<<"TRACE-DONE", Len(Trans), Len(States), ToJson(cnt)>>)
=============================================================================
