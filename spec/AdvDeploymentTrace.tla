------------------------- MODULE AdvDeploymentTrace -------------------------
(***************************************************************************)
(* Trace validation for AdvDeployment.tla (property C17): every record is   *)
(* one transition of the REAL advanced deployment controller explored by   *)
(* harness/cmd/fn-advdeploy:                                               *)
(*   act = "Sync"      one real syncDeployment + patchExtraStatus followed *)
(*                     by the ReplicaSet controller's reaction             *)
(*   act = "Converge"  the fair schedule (Sync, every pod available)       *)
(*                     repeated on the real code to a fixed point          *)
(*   layer P: D1..D5 on the REAL post-state                                *)
(*   layer C: equality with RefSync / FairRun / the arithmetic (drift)     *)
(***************************************************************************)
EXTENDS AdvDeployment, Json, IOUtils

Cases == ndJsonDeserialize(IOEnv.VERIF_CASES)

Props == {"D1", "D2", "D3", "D4", "D5"}

Pre(c) == [R |-> c.in.R, pt |-> c.in.pt, pv |-> c.in.pv, st |-> c.in.st, sv |-> c.in.sv, ut |-> c.in.ut, uv |-> c.in.uv,
           r0 |-> c.in.r0, nx |-> c.in.nx, n |-> c.in.n, olds |-> c.in.olds]
Post(c) == [Pre(c) EXCEPT !.r0 = c.in.R, !.nx = c.out.nx, !.n = c.out.n, !.olds = c.out.olds]
Start(c) == [Pre(c) EXCEPT !.r0 = c.in.R]      \* a convergence run starts with a sync

\* a panic leaves no post-state; a sync that returned an error still has one and is judged on it.
\* Ante = the clause speaks about this step (counted in TRACE-DONE), Holds = what it demands.
SyncActs == {"Sync", "Sync2", "Sync3"}     \* Sync2 / Sync3: 2 / 3 back-to-back syncs on stale ReplicaSet statuses
KOf(c) == IF c.in.act = "Sync2" THEN 2 ELSE 3
Ante(n, c) ==
  /\ c.panic = ""
  /\ CASE n = "D1" -> c.in.act \in SyncActs /\ A1(Pre(c), Post(c))
       [] n = "D2" -> c.in.act \in SyncActs /\ A2(Pre(c), Post(c))
       [] n = "D3" -> c.in.act \in SyncActs /\ A3(Pre(c), Post(c))
       [] n = "D4" -> c.in.act \in SyncActs /\ A4(Pre(c), Post(c))
       [] n = "D5" -> c.in.act = "Converge" /\ Covers(Pre(c))

Holds(n, c) ==
  CASE n = "D1" -> C1(Pre(c), Post(c))
    [] n = "D2" -> C2(Pre(c), Post(c))
    [] n = "D3" -> C3(Pre(c), Post(c))
    [] n = "D4" -> C4(Pre(c), Post(c))
    [] n = "D5" -> c.out.fix /\ Converged(Post(c))

\* drift that the two deviations of the code named in AdvDeployment.tla (CodeSync) explain is tagged
\* "code", anything else "fn"
DriftBase(c) ==
  IF c.panic # "" THEN "fn"
  ELSE IF c.in.act = "Sync" THEN (IF Post(c) = CodeSync(Pre(c)) THEN "code" ELSE "fn")
  ELSE IF c.in.act \in {"Sync2", "Sync3"} THEN (IF Post(c) = SyncStaleWith(Pre(c), KOf(c), TRUE) THEN "code" ELSE "fn")
  ELSE LET r == FairRun(Start(c), FairBudget(Pre(c)), TRUE)
       IN  IF r.fix = c.out.fix /\ r.x = Post(c) THEN "code" ELSE "fn"

DriftFields(c) ==
  IF c.panic # "" THEN {"panic"}
  ELSE
    LET x   == Pre(c)
        ref == IF c.in.act = "Sync" THEN [fix |-> FALSE, x |-> RefSync(x)]
               ELSE IF c.in.act \in {"Sync2", "Sync3"} THEN [fix |-> FALSE, x |-> SyncStaleWith(x, KOf(c), FALSE)]
               ELSE FairRun(Start(c), FairBudget(x), FALSE)
    IN  {f \in {"nx", "n", "olds"} : ref.x[f] # c.out[f]}
          \cup (IF ref.fix # c.out.fix THEN {"fix"} ELSE {})
          \cup (IF c.err # "" /\ c.in.act \notin {"Sync2", "Sync3"} THEN {"err"} ELSE {})
          \cup (IF c.in.act \in {"Sync2", "Sync3"} /\ ~StaleOk(x, KOf(c), FALSE) /\ ~StaleOk(x, KOf(c), TRUE) THEN {"staleok"} ELSE {})
          \cup (IF c.in.L # Limit(x) THEN {"L"} ELSE {})
          \cup (IF c.in.surge # Surge(x) THEN {"surge"} ELSE {})
          \cup (IF c.in.unav # MaxUnav(x) THEN {"unav"} ELSE {})
          \cup (IF (c.in.act = "Converge") # Covers(x) /\ c.in.act = "Converge" THEN {"covers"} ELSE {})

VARIABLES l, cnt
Init == l = 1 /\ cnt = [n \in Props |-> 0]
Next ==
  /\ l <= Len(Cases)
  /\ l' = l + 1
  /\ LET c == Cases[l]
         bad == {n \in Props : Ante(n, c) /\ ~Holds(n, c)}
     IN  /\ cnt' = [n \in Props |-> IF Ante(n, c) THEN cnt[n] + 1 ELSE cnt[n]]
         /\ (bad = {} \/ PrintT(<<"BAD", c.id, bad>>))
         /\ (DriftFields(c) = {} \/ PrintT(<<"DRIFT", c.id, DriftBase(c), DriftFields(c)>>))
Spec == Init /\ [][Next]_<<l, cnt>>
Accepted == (l = Len(Cases) + 1) => PrintT(<<"TRACE-DONE", Len(Cases), Len(Cases), ToJson(cnt)>>)
=============================================================================
