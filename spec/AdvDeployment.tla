--------------------------- MODULE AdvDeployment ---------------------------
(***************************************************************************)
(* The built-in "advanced deployment" controller of Kruise Rollouts for     *)
(* partition-style Deployments (property C17) as a small state machine.     *)
(*                                                                         *)
(* Code anchored:                                                          *)
(*   pkg/controller/deployment/deployment_controller.go  syncDeployment    *)
(*   pkg/controller/deployment/rolling.go   rolloutRolling,                *)
(*       reconcileNewReplicaSet, reconcileOldReplicaSets,                  *)
(*       cleanupUnhealthyReplicas, scaleDownOldReplicaSetsForRollingUpdate,*)
(*       scaleUpOldReplicaSets, ScaleDownLimitForOld                       *)
(*   pkg/controller/deployment/sync.go      isScalingEvent, scale,         *)
(*       getNewReplicaSet, scaleReplicaSet                                 *)
(*   pkg/controller/deployment/util/deployment_util.go  NewRSNewReplicas,  *)
(*       NewRSReplicasLimit, ResolveFenceposts, MaxSurge, MaxUnavailable,  *)
(*       GetProportion, FindActiveOrLatest, IsSaturated                    *)
(*                                                                         *)
(* Abstract state (one record):                                            *)
(*   R                deployment spec.replicas (>= 1)                      *)
(*   pt, pv           partition: "int" count or "pct" percentage           *)
(*   st, sv / ut, uv  maxSurge / maxUnavailable, "int" or "pct"            *)
(*   r0               R as of the last sync: R # r0 means the user changed *)
(*                    the size and no sync has run since (the size is      *)
(*                    being changed even where the controller's annotation *)
(*                    bookkeeping cannot see it); not visible to the       *)
(*                    controller                                           *)
(*   nx               the new ReplicaSet exists                            *)
(*   n                new ReplicaSet  [s, a, d, m]                         *)
(*   olds             sequence of 1-2 old ReplicaSets [s, a, d, m], oldest *)
(*                    first (creation time and revision increase)          *)
(* with s = spec.replicas (= status.replicas: the ReplicaSet controller    *)
(* creates / deletes pods at once), a = available (= ready) pods, d / m =  *)
(* the desired-replicas / max-replicas annotations (-1 = absent; an        *)
(* inactive ReplicaSet, s = 0, is kept in the canonical form 0,0,-1,-1     *)
(* because nothing reads its annotations before the next scale-up rewrites *)
(* them).                                                                  *)
(*                                                                         *)
(* RefSync is the REFERENCE definition of one controller sync followed by  *)
(* the ReplicaSet controller's reaction (a scaled-down ReplicaSet deletes  *)
(* its not-ready pods first: a' = min(a, s')).  Real transitions are       *)
(* compared with it for drift only; the verdicts are D1..D5 below.         *)
(***************************************************************************)
EXTENDS Arith, TLC

RSrec(s, a, d, m) == [s |-> s, a |-> a, d |-> d, m |-> m]
Gone == RSrec(0, 0, -1, -1)
Canon(r) == IF r.s = 0 THEN Gone ELSE [r EXCEPT !.a = Min(r.a, r.s)]

RECURSIVE SumOver(_, _)
SumOver(f, S) == IF S = {} THEN 0 ELSE LET i == CHOOSE i \in S : TRUE IN f[i] + SumOver(f, S \ {i})

\* intstr.GetScaledValueFromIntOrPercent
ScaledVal(t, v, total, up) == IF t = "pct" THEN (IF up THEN ScaledUp(v, total) ELSE ScaledDown(v, total)) ELSE v

\* deploymentutil.NewRSReplicasLimit: pods of the new revision the partition allows
LimitOf(pt, pv, R) ==
  LET cl == Max(Min(ScaledVal(pt, pv, R, TRUE), R), 0)
  IN  IF R > 1 /\ pt = "pct" /\ pv # 100 THEN Min(cl, R - 1) ELSE cl
Limit(x) == LimitOf(x.pt, x.pv, x.R)

\* deploymentutil.ResolveFenceposts / MaxSurge / MaxUnavailable
Surge(x) == ScaledVal(x.st, x.sv, x.R, TRUE)
MaxUnav(x) ==
  LET u == ScaledVal(x.ut, x.uv, x.R, FALSE)
      f == IF Surge(x) = 0 /\ u = 0 THEN 1 ELSE u
  IN  IF x.R = 0 THEN 0 ELSE Min(f, x.R)

NOld(x) == Len(x.olds)
\* every ReplicaSet in creation order: olds, then the new one (if it exists)
AllRS(x) == IF x.nx THEN Append(x.olds, x.n) ELSE x.olds
NewS(x) == IF x.nx THEN x.n.s ELSE 0
NewA(x) == IF x.nx THEN x.n.a ELSE 0
OldSum(x)   == SumOver([i \in 1..NOld(x) |-> x.olds[i].s], 1..NOld(x))
OldAvail(x) == SumOver([i \in 1..NOld(x) |-> x.olds[i].a], 1..NOld(x))
AvailSum(x) == OldAvail(x) + NewA(x)

\* sync.go isScalingEvent: an active ReplicaSet whose desired-replicas annotation differs from spec.replicas
Scaling(x) == \E i \in 1..Len(AllRS(x)) : AllRS(x)[i].s > 0 /\ AllRS(x)[i].d # -1 /\ AllRS(x)[i].d # x.R

(***************************************************************************)
(* helpers over a vector v of ReplicaSets (function 1..n -> record)        *)
(***************************************************************************)
\* scaleReplicaSet: new size plus refreshed replicas annotations
SetSize(v, i, size, x) == [v EXCEPT ![i] = [s |-> size, a |-> v[i].a, d |-> x.R, m |-> x.R + Surge(x)]]

\* the unique sequence over S sorted by the strict total order Less
SortIdx(S, Less(_, _)) ==
  LET k == Cardinality(S)
  IN  CHOOSE q \in [1..k -> S] : \A i, j \in 1..k : i < j => (q[i] # q[j] /\ ~Less(q[j], q[i]))

\* cleanupUnhealthyReplicas: visit idxs in order, remove unavailable pods up to the budget
RECURSIVE Cleanup(_, _, _, _, _)
Cleanup(v, idxs, budget, done, x) ==
  IF idxs = <<>> \/ done >= budget THEN [v |-> v, done |-> done, err |-> FALSE]
  ELSE LET i == Head(idxs)
       IN  IF v[i].s = 0 \/ v[i].s = v[i].a THEN Cleanup(v, Tail(idxs), budget, done, x)
           \* a stale status (more available pods than spec.replicas): "invalid request to scale down", the sync aborts
           ELSE IF v[i].a > v[i].s THEN [v |-> v, done |-> done, err |-> TRUE]
           ELSE LET c == Min(budget - done, v[i].s - v[i].a)
                IN  Cleanup(SetSize(v, i, v[i].s - c, x), Tail(idxs), budget, done + c, x)

\* scaleDownOldReplicaSetsForRollingUpdate loop
RECURSIVE TakeDown(_, _, _, _, _)
TakeDown(v, idxs, total, done, x) ==
  IF idxs = <<>> \/ done >= total THEN v
  ELSE LET i == Head(idxs)
       IN  IF v[i].s = 0 THEN TakeDown(v, Tail(idxs), total, done, x)
           ELSE LET c == Min(v[i].s, total - done)
                IN  TakeDown(SetSize(v, i, v[i].s - c, x), Tail(idxs), total, done + c, x)

\* integer.RoundToInt32(a / b) for a >= 0, b > 0
RoundDiv(a, b) == (2 * a + b) \div (2 * b)
\* getReplicaSetFraction
Fraction(r, x) == IF r.m <= 0 THEN 0 ELSE RoundDiv(r.s * (x.R + Surge(x)), r.m) - r.s

\* the proportional loop of scale(): sizes accumulated in visiting order
RECURSIVE Proportions(_, _, _, _, _, _)
Proportions(v, idxs, toAdd, added, size, x) ==
  IF idxs = <<>> THEN [size |-> size, added |-> added]
  ELSE LET i == Head(idxs)
           p == IF toAdd = 0 \/ v[i].s = 0 \/ toAdd = added THEN 0
                ELSE LET fr == Fraction(v[i], x)
                         al == toAdd - added
                     IN  IF toAdd > 0 THEN Min(fr, al) ELSE Max(fr, al)
       IN  Proportions(v, Tail(idxs), toAdd, added + p, [size EXCEPT ![i] = v[i].s + p], x)

RECURSIVE ApplySizes(_, _, _, _)
ApplySizes(v, idxs, size, x) ==
  IF idxs = <<>> THEN v ELSE ApplySizes(SetSize(v, Head(idxs), size[Head(idxs)], x), Tail(idxs), size, x)

SeqOf(S) == SortIdx(S, LAMBDA i, j : i < j)           \* creation order

(***************************************************************************)
(* sync.go scale(): the deployment's size was changed                      *)
(***************************************************************************)
\* Code = TRUE reproduces two deviations of the code from the reference:
\*   * deploymentutil.NewRSReplicasLowerBound: a freshly created new ReplicaSet gets at least one pod
\*     when maxSurge resolves to 0, whatever the partition allows;
\*   * scale() returns early when the only active ReplicaSet already has spec.replicas pods and leaves
\*     its stale desired-replicas annotation in place (the deployment then stays "scaling" for ever).
ScaleVec(x, Code) ==
  LET v0     == AllRS(x)
      n      == Len(v0)
      no     == NOld(x)
      active == {i \in 1..n : v0[i].s > 0}
  IN
  IF Cardinality(active) <= 1 THEN
       \* FindActiveOrLatest: the only active ReplicaSet, else the newest one
       LET k == IF active # {} THEN CHOOSE i \in active : TRUE ELSE n
       IN  IF Code /\ v0[k].s = x.R THEN v0 ELSE SetSize(v0, k, x.R, x)
  ELSE IF x.nx /\ x.n.s = x.R /\ x.n.d = x.R /\ x.n.a = x.R THEN
       \* IsSaturated(new): every active old ReplicaSet goes to zero
       [i \in 1..n |-> IF i <= no /\ v0[i].s > 0 THEN SetSize(v0, i, 0, x)[i] ELSE v0[i]]
  ELSE \* proportional scaling of all active ReplicaSets towards spec.replicas
       LET toAdd0 == x.R - SumOver([i \in 1..n |-> v0[i].s], active)
           cl     == IF toAdd0 < 0 THEN Cleanup(v0, SeqOf(1..no), -toAdd0, 0, x) ELSE [v |-> v0, done |-> 0, err |-> FALSE]
           v1     == cl.v
           toAdd  == toAdd0 + cl.done
           act1   == {i \in 1..n : v1[i].s > 0}
           order  == IF toAdd > 0 THEN SortIdx(act1, LAMBDA i, j : v1[i].s > v1[j].s \/ (v1[i].s = v1[j].s /\ i > j))
                     ELSE SortIdx(act1, LAMBDA i, j : v1[i].s > v1[j].s \/ (v1[i].s = v1[j].s /\ i < j))
           pr     == Proportions(v1, order, toAdd, 0, [i \in 1..n |-> v1[i].s], x)
           size   == IF toAdd # 0 /\ order # <<>>
                     THEN [pr.size EXCEPT ![order[1]] = Max(0, pr.size[order[1]] + toAdd - pr.added)]
                     ELSE pr.size
       IN  ApplySizes(v1, order, size, x)

(***************************************************************************)
(* rolling.go rolloutRolling: the normal partition-style rollout           *)
(***************************************************************************)
\* deploymentutil.NewRSNewReplicas
NewReplicas(x, newS, total) ==
  IF total > newS THEN
       IF newS >= Limit(x) THEN newS
       ELSE IF total >= x.R + Surge(x) THEN newS
       ELSE Min(newS + Min(x.R + Surge(x) - total, x.R - newS), Limit(x))
  ELSE x.R

\* rolling.go ScaleDownLimitForOld: old pods in excess of what the partition reserves for them
DownLimit(x, oldPods, newS) == oldPods - (x.R - Max(Limit(x), newS))

RollVec(x, Code) ==
  LET no    == NOld(x)
      n     == no + 1
      oldT  == OldSum(x)
      c0    == NewReplicas(x, 0, oldT)
      cNew  == IF Code /\ Surge(x) = 0 THEN Max(c0, Min(1, x.R)) ELSE c0
      v0    == IF x.nx THEN AllRS(x)
               ELSE Append(x.olds, [s |-> cNew, a |-> 0, d |-> x.R, m |-> x.R + Surge(x)])
      newS  == v0[n].s
      newA  == v0[n].a
      total == oldT + newS
      want  == IF newS = x.R THEN newS
               ELSE IF newS > x.R THEN x.R
               ELSE NewReplicas(x, newS, total)
  IN
  IF want # newS THEN SetSize(v0, n, want, x)          \* reconcileNewReplicaSet scaled: done for this sync
  ELSE IF oldT = 0 THEN v0
  ELSE
    LET actOld == {i \in 1..no : v0[i].s > 0}
        lim    == DownLimit(x, oldT, newS)
    IN
    IF lim <= 0 THEN
         \* scaleUpOldReplicaSets: the biggest (older on ties) old ReplicaSet gets the missing pods
         IF lim = 0 THEN v0
         ELSE LET k == SortIdx(actOld, LAMBDA i, j : v0[i].s > v0[j].s \/ (v0[i].s = v0[j].s /\ i < j))[1]
              IN  SetSize(v0, k, v0[k].s - lim, x)
    ELSE
      LET minAvail == x.R - MaxUnav(x)
          maxDown  == Min(total - minAvail - (newS - newA), lim)
      IN
      IF maxDown <= 0 THEN v0
      ELSE
        LET cl     == Cleanup(v0, SeqOf(actOld), maxDown, 0, x)
            v1     == cl.v
            avail  == SumOver([i \in 1..n |-> v1[i].a], actOld \cup {n})
            old1   == SumOver([i \in 1..n |-> v1[i].s], actOld)
            cnt    == Min(avail - minAvail, DownLimit(x, old1, newS))
        IN  IF cl.err \/ avail <= minAvail THEN v1
            ELSE TakeDown(v1, SortIdx(actOld, LAMBDA i, j : i > j), cnt, 0, x)   \* larger revision first

(***************************************************************************)
(* one sync + the ReplicaSet controller's reaction                         *)
(***************************************************************************)
FromVec(x, v, hasNew) ==
  [x EXCEPT !.olds = [i \in 1..NOld(x) |-> Canon(v[i])],
            !.r0   = x.R,
            !.nx   = hasNew,
            !.n    = IF hasNew THEN Canon(v[NOld(x) + 1]) ELSE Gone]

SyncWith(x, Code) ==
  IF Scaling(x) THEN FromVec(x, ScaleVec(x, Code), x.nx)
  ELSE FromVec(x, RollVec(x, Code), TRUE)

\* The same sync BEFORE the ReplicaSet controller has reacted: spec.replicas as written, the statuses as they were
\* (a status may now show more available pods than spec.replicas: stale)
RawCanon(r) == IF r.s = 0 THEN Gone ELSE r
RawFromVec(x, v, hasNew) ==
  [x EXCEPT !.olds = [i \in 1..NOld(x) |-> RawCanon(v[i])],
            !.r0   = x.R,
            !.nx   = hasNew,
            !.n    = IF hasNew THEN RawCanon(v[NOld(x) + 1]) ELSE Gone]
SyncRawWith(x, Code) ==
  IF Scaling(x) THEN RawFromVec(x, ScaleVec(x, Code), x.nx)
  ELSE RawFromVec(x, RollVec(x, Code), TRUE)
Stale(x) == \E i \in 1..Len(AllRS(x)) : AllRS(x)[i].a > AllRS(x)[i].s
\* k back-to-back syncs on stale statuses, then the reaction; defined while every intermediate state is stale and
\* the size is not being changed (StaleOk), k = 2, 3
StaleMid(x, k, Code) == IF k = 2 THEN SyncRawWith(x, Code) ELSE SyncRawWith(SyncRawWith(x, Code), Code)
StaleOk(x, k, Code) ==
  /\ x.R = x.r0 /\ ~Scaling(x)
  /\ LET m1 == SyncRawWith(x, Code) IN Stale(m1) /\ ~Scaling(m1)
  /\ k = 3 => LET m2 == StaleMid(x, 3, Code) IN Stale(m2) /\ ~Scaling(m2)
SyncStaleWith(x, k, Code) == SyncWith(StaleMid(x, k, Code), Code)

RefSync(x)  == SyncWith(x, FALSE)      \* the reference definition
CodeSync(x) == SyncWith(x, TRUE)       \* the reference plus the two deviations of the code

(***************************************************************************)
(* environment                                                             *)
(***************************************************************************)
AllAvailable(x) ==
  [x EXCEPT !.olds = [i \in 1..NOld(x) |-> [x.olds[i] EXCEPT !.a = x.olds[i].s]],
            !.n    = [x.n EXCEPT !.a = x.n.s]]

\* fair schedule of D5: Sync, every pod becomes available, repeated to a fixed point (budgeted)
RECURSIVE FairRun(_, _, _)
FairRun(x, budget, Code) ==
  LET y == AllAvailable(SyncWith(x, Code))
  IN  IF y = x THEN [fix |-> TRUE, x |-> x]
      ELSE IF budget <= 1 THEN [fix |-> FALSE, x |-> y]
      ELSE FairRun(y, budget - 1, Code)
FairBudget(x) == 6 * (x.R + 4) + 10

(***************************************************************************)
(* the property C17, clause by clause, on one Sync step pre -> post        *)
(***************************************************************************)
\* the size is being changed: the controller's bookkeeping says so, or the user has just changed it
Resizing(x) == Scaling(x) \/ x.R # x.r0
\* Each clause is claimed for Sync steps of a deployment whose size is not being changed (~Resizing):
\* antecedent A_k (when the clause speaks) and consequent C_k (what it demands of the post-state).
\* D1  never grows the new ReplicaSet beyond the number of pods the current partition allows
A1(pre, post) == ~Resizing(pre)
C1(pre, post) == NewS(post) <= Max(NewS(pre), Limit(pre))
\* D2  never shrinks the old ReplicaSets below what the partition reserves for them
A2(pre, post) == ~Resizing(pre) /\ OldSum(post) < OldSum(pre)
C2(pre, post) == OldSum(post) >= pre.R - Max(Limit(pre), NewS(post))
\* D3  never scales the new ReplicaSet up so that the total exceeds replicas + maxSurge
A3(pre, post) == ~Resizing(pre) /\ NewS(post) > NewS(pre)
C3(pre, post) == NewS(post) + OldSum(post) <= pre.R + Surge(pre)
\* D4  never scales down available old pods so that fewer than replicas - maxUnavailable stay available
A4(pre, post) == ~Resizing(pre) /\ OldAvail(post) < OldAvail(pre)
C4(pre, post) == AvailSum(post) >= pre.R - MaxUnav(pre)
D1(pre, post) == A1(pre, post) => C1(pre, post)
D2(pre, post) == A2(pre, post) => C2(pre, post)
D3(pre, post) == A3(pre, post) => C3(pre, post)
D4(pre, post) == A4(pre, post) => C4(pre, post)
\* D5  when the partition covers all replicas the deployment converges to the new revision only
Covers(x) == Limit(x) = x.R
Converged(x) == x.nx /\ x.n.s = x.R /\ x.n.a = x.R /\ OldSum(x) = 0
=============================================================================
