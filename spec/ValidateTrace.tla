---------------------------- MODULE ValidateTrace ----------------------------
(***************************************************************************)
(* Function-level trace validation (binding B4) for Validate.tla: every    *)
(* record is one execution of the REAL RolloutCreateUpdateHandler.Handle   *)
(* (v1beta1 and v1alpha1, CREATE and UPDATE) on one admission request of   *)
(* the bounded domain, against a simulated API server holding the other    *)
(* Rollouts.                                                               *)
(*   layer P: what C09 promises about the REAL answer                      *)
(*     V_noPanic    the handler never panics                               *)
(*     V_steps      admitted => steps non-empty and never decreasing       *)
(*                  between comparable consecutive steps                   *)
(*     V_conflict   admitted => no other live Rollout of the namespace     *)
(*                  refers to the same workload                            *)
(*     V_immutable  admitted UPDATE of a Progressing / Terminating Rollout *)
(*                  => workload reference, traffic routing, style and step *)
(*                  count unchanged                                        *)
(*   layer C: equality with the reference definition RefAllowed / RefWhy / *)
(*            RefPanics (drift only)                                       *)
(***************************************************************************)
EXTENDS Validate, Json, TLC, IOUtils

Cases == ndJsonDeserialize(IOEnv.VERIF_CASES)

Props == {"V_noPanic", "V_steps", "V_conflict", "V_immutable"}

Admitted(c) == c.panic = "" /\ c.err = "" /\ c.out.allowed

Ante(n, c) ==
  CASE n = "V_noPanic"   -> TRUE
    [] n = "V_steps"     -> Admitted(c)
    [] n = "V_conflict"  -> Admitted(c) /\ Len(c.in.others) > 0
    [] n = "V_immutable" -> Admitted(c) /\ c.in.op = "UPDATE" /\ Progressing(c.in.phase)

Holds(n, c) ==
  CASE n = "V_noPanic"   -> c.panic = ""
    [] n = "V_steps"     -> StepsPromise(c.in.ver, c.in.new.steps)
    [] n = "V_conflict"  -> ConflictPromise(c.in)
    [] n = "V_immutable" -> ImmutablePromise(c.in)

DriftFields(c) ==
  IF c.err # "" THEN {}
  ELSE IF c.panic # "" \/ RefPanics(c.in) THEN (IF RefPanics(c.in) # (c.panic # "") THEN {"panic"} ELSE {})
  ELSE (IF RefAllowed(c.in) # c.out.allowed THEN {"allowed"} ELSE {}) \cup
       (IF RefWhy(c.in) # Range(c.out.why) THEN {"why"} ELSE {})

VARIABLES l, cnt
Init == l = 1 /\ cnt = [n \in Props |-> 0]
Next ==
  /\ l <= Len(Cases)
  /\ l' = l + 1
  /\ LET c == Cases[l]
         bad == {n \in Props : Ante(n, c) /\ ~Holds(n, c)}
     IN  /\ cnt' = [n \in Props |-> IF Ante(n, c) THEN cnt[n] + 1 ELSE cnt[n]]
         /\ (bad = {} \/ PrintT(<<"BAD", c.id, bad>>))
         /\ (DriftFields(c) = {} \/ PrintT(<<"DRIFT", c.id, "fn", DriftFields(c)>>))
Spec == Init /\ [][Next]_<<l, cnt>>
Accepted == (l = Len(Cases) + 1) => PrintT(<<"TRACE-DONE", Len(Cases), Len(Cases), ToJson(cnt)>>)
=============================================================================
