---------------------------- MODULE MC_CustomNet ----------------------------
(* Exhaustive check of the reference definitions of CustomNet.tla:
   (a) the provider state machine (snapshot on first touch, Script(snapshot, step), restore) for every
       generated script, every original projection of a small domain and every step sequence up to
       MaxLen, with an idempotent re-application and Finalise at any point: N1, N2, N4 as invariants /
       action property;
   (b) the reference model of the shipped VirtualService script on every list of up to two plain
       routes, every weight 0..100, both canary styles: N3a / N3b (an ASSUME, evaluated once). *)
EXTENDS CustomNet, TLC
CONSTANTS MaxLen

Scripts == {"ident", "set", "setDeep", "append", "meta", "all", "metaMatch"}
Origs == [w : {Absent, 7}, dw : {Absent, 3}, items : {<<>>, <<100>>}, annw : {Absent}, lab : {0}, nm : {Absent}]
Steps == [w : {0, 1, 50, 100}, m : {0}] \cup [w : {NoTraffic}, m : {0, 1, 2}] \cup [w : {50}, m : {1}]

VARIABLES sc, orig, r, hist, fin
vars == <<sc, orig, r, hist, fin>>

Init == sc \in Scripts /\ orig \in Origs /\ r = Fresh(orig) /\ hist = <<>> /\ fin = FALSE

StepA(st) == ~fin /\ Len(hist) < MaxLen /\ r' = Ensure(sc, r, st) /\ hist' = Append(hist, st) /\ UNCHANGED <<sc, orig, fin>>
Again     == ~fin /\ hist # <<>> /\ r' = Ensure(sc, r, Last(hist)) /\ UNCHANGED <<sc, orig, hist, fin>>
Finalise  == ~fin /\ r' = Fin(r) /\ fin' = TRUE /\ UNCHANGED <<sc, orig, hist>>
Next == (\E st \in Steps : StepA(st)) \/ Again \/ Finalise
Spec == Init /\ [][Next]_vars

\* N1: the written configuration is Script(original, last step), whatever came before
InvN1 == (~fin /\ hist # <<>>) =>
           /\ HistoryIndependent(r.cur, Ensure(sc, Fresh(orig), Last(hist)).cur)
           /\ r = RunSeq(sc, Fresh(orig), hist)
           /\ r.snap = <<orig>>
\* N2: Finalise gives back the original and drops the snapshot, after any history (also the empty one)
InvN2 == fin => Restored(orig, r.cur, r.snap # <<>>)
\* N4: applying the same step again changes nothing
ActN4 == [][(hist' = hist /\ fin' = fin) => r' = r]_vars

(* (b) *)
Hosts == {"stable", "stableFq", "other", "otherFq", "stablePfx"}
SingleRoutes == {[dests |-> <<[h |-> h, s |-> s, w |-> w]>>, um |-> "none"] : h \in Hosts, s \in {"", "base"}, w \in {-1, 100}}
TwoRoutes == {[dests |-> <<[h |-> "stable", s |-> "", w |-> 80], [h |-> o, s |-> "", w |-> 20]>>, um |-> "none"] : o \in {"other", "otherFq"}}
PlainRoutes == SingleRoutes \cup TwoRoutes
OddRoutes == {[dests |-> <<[h |-> h, s |-> "", w |-> w]>>, um |-> um] : h \in {"stable", "stableNs", "other"}, w \in {-1, 50}, um \in {"none", "uri"}}
Lists(S) == {<<a>> : a \in S} \cup {<<a, b>> : a \in S, b \in S}

ASSUME \A rt \in PlainRoutes : Plain(rt)
ASSUME \A rs \in Lists(PlainRoutes), w \in 0..100, same \in BOOLEAN : LemmaVS(rs, w, same)
ASSUME \A rs \in Lists(PlainRoutes \cup OddRoutes), m \in 1..2, same \in BOOLEAN : LemmaVSMatches(rs, m, same)
=============================================================================
