// fn-conversion: the real API version conversion of openkruise/rollouts (api/v1alpha1/conversion.go:
// Rollout.ConvertTo / ConvertFrom, BatchRelease.ConvertTo / ConvertFrom) over the presence/absence
// lattice of every optional block the CRD schemas admit, crossed with small value sets (property C20).
//
//	dir = "alpha": a v1alpha1 object a0 is converted to v1beta1 (ConvertTo), the result is serialised
//	               and decoded again (what the API server stores), converted back (ConvertFrom) and
//	               serialised / decoded again (what a v1alpha1 client reads): x0 = P(a0), y1 = P(stored
//	               v1beta1), x2 = P(read-back v1alpha1).
//	dir = "beta":  a v1beta1 object b0 is read through v1alpha1 (ConvertFrom) and written back
//	               (ConvertTo): x0 = P(b0), y1 = P(v1alpha1 view), x2 = P(v1beta1 after the
//	               read-modify-write). Non-canary v1beta1 Rollouts (blue-green / no strategy) are only
//	               read (stages = 1).
//
// P(..) is the driver's own projection of the typed structs to a canonical abstract record (it never
// calls the conversion code); the abstract meaning M and every verdict are computed by TLC from these
// projections (spec/Conversion.tla, spec/ConversionTrace.tla).
package main

import (
	"encoding/json"
	"fmt"
	"reflect"
	"regexp"
	"sort"
	"strconv"
	"strings"
	"time"

	"github.com/openkruise/rollouts/api/v1alpha1"
	"github.com/openkruise/rollouts/api/v1beta1"
	corev1 "k8s.io/api/core/v1"
	metav1 "k8s.io/apimachinery/pkg/apis/meta/v1"
	"k8s.io/apimachinery/pkg/util/intstr"
	gatewayv1beta1 "sigs.k8s.io/gateway-api/apis/v1beta1"

	"verif/harness/fnlib"
)

// NONE is the sentinel of an absent optional integer (JSON null is never emitted).
const NONE = -9999

const (
	styleKey = "rollouts.kruise.io/rolling-style"
	trKey    = "rollouts.kruise.io/trafficrouting"
	otherKey = "example.com/owner"
)

// ---------------------------------------------------------------------------------------------
// abstract input
// ---------------------------------------------------------------------------------------------

type StepIn struct {
	W int    `json:"w"` // weight (alpha) / traffic percent (beta); NONE = absent
	R string `json:"r"` // replicas: "none" | "int:N" | "str:S"
	P int    `json:"p"` // pause.duration; NONE = absent
	M int    `json:"m"` // matches: 0 nil, 1 one match/one header, 2 two matches (exact, regex, default type), 3 one match without headers, 4 empty list
	H bool   `json:"h"` // requestHeaderModifier present
	X int    `json:"x"` // beta only, not expressible in v1alpha1: 0 none, 1 a match with path + queryParams, 2 traffic "20" (no percent sign), 3 traffic "abc%"
}

type RouteIn struct {
	Ing   int `json:"ing"`   // 0 absent, 1 name only, 2 classType + name
	Gw    int `json:"gw"`    // 0 absent, 1 block without httpRouteName, 2 with httpRouteName
	Cust  int `json:"cust"`  // number of customNetworkRefs
	Grace int `json:"grace"` // gracePeriodSeconds
}

type In struct {
	Kind     string `json:"kind"`     // "Rollout" | "BatchRelease"
	Dir      string `json:"dir"`      // "alpha" | "beta"
	Wref     bool   `json:"wref"`     // workloadRef block present (always true for beta: a struct)
	Strategy string `json:"strategy"` // Rollout: "canary" | "none" | "bluegreen" | "both"; BatchRelease: "plan"

	StepsMode    string    `json:"stepsMode"` // "nil" | "list"
	Steps        []StepIn  `json:"steps"`
	RoutingsMode string    `json:"routingsMode"` // "nil" | "list"
	Routings     []RouteIn `json:"routings"`
	FT           string    `json:"ft"`    // failureThreshold: "none" | "int" | "str"
	Patch        string    `json:"patch"` // patchPodTemplateMetadata: "none" | "empty" | "full"
	DisableSvc   bool      `json:"disableSvc"`
	Paused       bool      `json:"paused"`
	Disabled     bool      `json:"disabled"`
	RolloutID    string    `json:"rolloutID"`

	StyleAnn string `json:"styleAnn"` // rolling-style annotation: "-" absent, else the literal value
	TrAnn    string `json:"trAnn"`    // trafficrouting annotation: "-" absent, else the literal value
	OtherAnn bool   `json:"otherAnn"` // an unrelated annotation is present

	EnableExtra bool   `json:"enableExtra"` // beta Rollout canary.enableExtraWorkloadForCanary; BatchRelease releasePlan.enableExtraWorkloadForCanary
	Trref       string `json:"trref"`       // beta Rollout canary.trafficRoutingRef
	BetaOnly    bool   `json:"betaOnly"`    // beta: a step uses something v1alpha1 cannot express (path / query matches, non-percent traffic)
	AnnConflict bool   `json:"annConflict"` // beta: the metadata still carries a v1alpha1 style / trafficrouting annotation that contradicts the spec

	Status string `json:"status"` // Rollout: "none" | "plain" | "canary"; BatchRelease: "none" | "full"
	Cursor int    `json:"cursor"` // value variant of the status cursor

	// BatchRelease only
	BatchesMode      string   `json:"batchesMode"` // "nil" | "list"
	Batches          []string `json:"batches"`     // "int:N" | "str:S"
	BatchPartition   int      `json:"batchPartition"`
	FinalizingPolicy string   `json:"finalizingPolicy"`
	SpecStyle        string   `json:"specStyle"` // spec.releasePlan.rollingStyle literal
}

func baseIn(kind, dir string) In {
	return In{Kind: kind, Dir: dir, Wref: true, Strategy: "canary", StepsMode: "nil", Steps: []StepIn{}, RoutingsMode: "nil", Routings: []RouteIn{},
		FT: "none", Patch: "none", StyleAnn: "-", TrAnn: "-", Status: "none", BatchesMode: "nil", Batches: []string{}, BatchPartition: NONE}
}

// ---------------------------------------------------------------------------------------------
// abstract projections (canonical records; every field always present, fixed types)
// ---------------------------------------------------------------------------------------------

type StepP struct {
	Weight     int        `json:"weight"`
	TrafficRaw string     `json:"trafficRaw"` // beta: the literal traffic string when it is not of the form "<int>%"
	Replicas   string     `json:"replicas"`
	Pause      int        `json:"pause"`
	Matches    [][]string `json:"matches"`    // header matches "name|type|value"
	ExtraMatch bool       `json:"extraMatch"` // beta only: a match carries path / queryParams
	Hdrmod     string     `json:"hdrmod"`
}

type RouteP struct {
	Service string   `json:"service"`
	Grace   int      `json:"grace"`
	Ingress string   `json:"ingress"`
	Gateway string   `json:"gateway"`
	Customs []string `json:"customs"`
}

type CSP struct {
	Owg      int    `json:"owg"`
	Orid     string `json:"orid"`
	Hash     string `json:"hash"`
	Stable   string `json:"stable"`
	Canary   string `json:"canary"`
	Pth      string `json:"pth"`
	Replicas int    `json:"replicas"`
	Ready    int    `json:"ready"`
	Next     int    `json:"next"`
	Cur      int    `json:"cur"`
	State    string `json:"state"`
	Message  string `json:"message"`
	Lut      string `json:"lut"`
	Fin      string `json:"fin"`
}

type StatusP struct {
	Og       int      `json:"og"`
	Phase    string   `json:"phase"`
	Message  string   `json:"message"`
	Conds    []string `json:"conds"`
	HasCS    bool     `json:"hasCS"`
	CS       CSP      `json:"cs"`
	TopIdx   int      `json:"topIdx"`   // beta only
	TopState string   `json:"topState"` // beta only
	HasBG    bool     `json:"hasBG"`    // beta only
}

// PR is the projection of a Rollout of either version.
type PR struct {
	Ver         string   `json:"ver"`
	Wref        string   `json:"wref"`     // "none" | "apiVersion|kind|name"
	Strategy    string   `json:"strategy"` // "canary" | "none" | "bluegreen" | "both"
	Paused      bool     `json:"paused"`
	Disabled    bool     `json:"disabled"`
	RolloutID   string   `json:"rolloutID"` // alpha only (deprecated)
	DisableSvc  bool     `json:"disableSvc"`
	FT          string   `json:"ft"`
	Steps       []StepP  `json:"steps"`
	Routings    []RouteP `json:"routings"`
	Patch       string   `json:"patch"`
	StyleAnn    string   `json:"styleAnn"` // lower-cased annotation value, "" when absent
	TrAnn       string   `json:"trAnn"`
	OtherAnn    string   `json:"otherAnn"`
	EnableExtra bool     `json:"enableExtra"` // beta only
	Trref       string   `json:"trref"`       // beta only
	Status      StatusP  `json:"status"`
}

type BRStatusP struct {
	Stable       string   `json:"stable"`
	Update       string   `json:"update"`
	Og           int      `json:"og"`
	Orid         string   `json:"orid"`
	Owr          int      `json:"owr"`
	Hash         string   `json:"hash"`
	Collision    int      `json:"collision"`
	Phase        string   `json:"phase"`
	Conds        []string `json:"conds"`
	Message      string   `json:"message"` // beta only
	BatchState   string   `json:"batchState"`
	CurrentBatch int      `json:"currentBatch"`
	ReadyTime    string   `json:"readyTime"`
	Updated      int      `json:"updated"`
	UpdatedReady int      `json:"updatedReady"`
	NoNeed       int      `json:"noNeed"`
}

// PBR is the projection of a BatchRelease of either version.
type PBR struct {
	Ver              string    `json:"ver"`
	Wref             string    `json:"wref"`
	Batches          []string  `json:"batches"`
	BatchPartition   int       `json:"partition"`
	RolloutID        string    `json:"rolloutID"`
	FT               string    `json:"ft"`
	FinalizingPolicy string    `json:"finalizing"`
	Patch            string    `json:"patch"`
	SpecStyle        string    `json:"specStyle"` // lower-cased spec.releasePlan.rollingStyle
	StyleAnn         string    `json:"styleAnn"`  // lower-cased annotation value, "" when absent
	OtherAnn         string    `json:"otherAnn"`
	EnableExtra      bool      `json:"enableExtra"`
	Status           BRStatusP `json:"status"`
}

type Out struct {
	X0     interface{} `json:"x0"`
	Y1     interface{} `json:"y1"`
	X2     interface{} `json:"x2"`
	Mut0   []string    `json:"mut0"` // parts of the first conversion's source object the conversion modified
	Mut1   []string    `json:"mut1"` // same for the second conversion
	Stages int         `json:"stages"`
}

// ---------------------------------------------------------------------------------------------
// small canonical encoders
// ---------------------------------------------------------------------------------------------

func isP(p *intstr.IntOrString) string {
	if p == nil {
		return "none"
	}
	if p.Type == intstr.Int {
		return fmt.Sprintf("int:%d", p.IntVal)
	}
	return "str:" + p.StrVal
}

func isV(s string) *intstr.IntOrString {
	switch {
	case s == "none":
		return nil
	case strings.HasPrefix(s, "int:"):
		n, _ := strconv.Atoi(s[4:])
		v := intstr.FromInt(n)
		return &v
	default:
		v := intstr.FromString(s[4:])
		return &v
	}
}

func i32P(p *int32) int {
	if p == nil {
		return NONE
	}
	return int(*p)
}

func i32V(n int) *int32 {
	if n == NONE {
		return nil
	}
	v := int32(n)
	return &v
}

func timeP(t *metav1.Time) string {
	if t == nil {
		return "nil"
	}
	if t.IsZero() {
		return "zero"
	}
	return t.UTC().Format(time.RFC3339)
}

func mapP(m map[string]string) string {
	var ks []string
	for k := range m {
		ks = append(ks, k)
	}
	sort.Strings(ks)
	var out []string
	for _, k := range ks {
		out = append(out, k+"="+m[k])
	}
	return "{" + strings.Join(out, ",") + "}"
}

func hdrmodP(f *gatewayv1beta1.HTTPHeaderFilter) string {
	if f == nil {
		return "none"
	}
	var set, add []string
	for _, h := range f.Set {
		set = append(set, string(h.Name)+"="+h.Value)
	}
	for _, h := range f.Add {
		add = append(add, string(h.Name)+"="+h.Value)
	}
	return "set[" + strings.Join(set, ",") + "]add[" + strings.Join(add, ",") + "]remove[" + strings.Join(f.Remove, ",") + "]"
}

func headersP(hs []gatewayv1beta1.HTTPHeaderMatch) []string {
	out := []string{}
	for _, h := range hs {
		t := "nil"
		if h.Type != nil {
			t = string(*h.Type)
		}
		out = append(out, string(h.Name)+"|"+t+"|"+h.Value)
	}
	return out
}

func annP(m map[string]string, key string, lower bool) string {
	v := m[key]
	if lower {
		v = strings.ToLower(v)
	}
	return v
}

var pctRe = regexp.MustCompile(`^-?[0-9]+%$`)

var (
	t1 = metav1.NewTime(time.Date(2024, 3, 1, 10, 0, 0, 0, time.UTC))
	t2 = metav1.NewTime(time.Date(2024, 3, 1, 10, 5, 30, 0, time.UTC))
)

// ---------------------------------------------------------------------------------------------
// builders: abstract input -> concrete typed objects
// ---------------------------------------------------------------------------------------------

func headerMatches(code int) [][]gatewayv1beta1.HTTPHeaderMatch {
	exact, re := gatewayv1beta1.HeaderMatchExact, gatewayv1beta1.HeaderMatchRegularExpression
	switch code {
	case 1:
		return [][]gatewayv1beta1.HTTPHeaderMatch{{{Type: &exact, Name: "user-agent", Value: "pc"}}}
	case 2:
		return [][]gatewayv1beta1.HTTPHeaderMatch{
			{{Type: &exact, Name: "user-agent", Value: "pc"}, {Type: &re, Name: "name", Value: "^v2.*"}},
			{{Name: "x-canary", Value: "true"}},
		}
	case 3:
		return [][]gatewayv1beta1.HTTPHeaderMatch{nil}
	case 4:
		return [][]gatewayv1beta1.HTTPHeaderMatch{}
	}
	return nil
}

func hdrmodV(h bool) *gatewayv1beta1.HTTPHeaderFilter {
	if !h {
		return nil
	}
	return &gatewayv1beta1.HTTPHeaderFilter{Set: []gatewayv1beta1.HTTPHeader{{Name: "x-gray", Value: "1"}}, Remove: []string{"x-old"}}
}

func annotations(in In) map[string]string {
	var m map[string]string
	put := func(k, v string) {
		if m == nil {
			m = map[string]string{}
		}
		m[k] = v
	}
	if in.StyleAnn != "-" {
		put(styleKey, in.StyleAnn)
	}
	if in.TrAnn != "-" {
		put(trKey, in.TrAnn)
	}
	if in.OtherAnn {
		put(otherKey, "team-a")
	}
	return m
}

func patchAlpha(mode string) *v1alpha1.PatchPodTemplateMetadata {
	switch mode {
	case "empty":
		return &v1alpha1.PatchPodTemplateMetadata{}
	case "full":
		return &v1alpha1.PatchPodTemplateMetadata{Annotations: map[string]string{"a1": "x", "a2": "y"}, Labels: map[string]string{"l1": "z"}}
	}
	return nil
}

func patchBeta(mode string) *v1beta1.PatchPodTemplateMetadata {
	switch mode {
	case "empty":
		return &v1beta1.PatchPodTemplateMetadata{}
	case "full":
		return &v1beta1.PatchPodTemplateMetadata{Annotations: map[string]string{"a1": "x", "a2": "y"}, Labels: map[string]string{"l1": "z"}}
	}
	return nil
}

func ftV(mode string) *intstr.IntOrString {
	switch mode {
	case "int":
		v := intstr.FromInt(2)
		return &v
	case "str":
		v := intstr.FromString("20%")
		return &v
	}
	return nil
}

func conditionsAlpha() []v1alpha1.RolloutCondition {
	return []v1alpha1.RolloutCondition{
		{Type: v1alpha1.RolloutConditionProgressing, Status: corev1.ConditionTrue, LastUpdateTime: t1, LastTransitionTime: t2, Reason: v1alpha1.ProgressingReasonInRolling, Message: "rolling"},
		{Type: v1alpha1.RolloutConditionSucceeded, Status: corev1.ConditionFalse, Reason: "r", Message: ""},
	}
}

func conditionsBeta() []v1beta1.RolloutCondition {
	return []v1beta1.RolloutCondition{
		{Type: v1beta1.RolloutConditionProgressing, Status: corev1.ConditionTrue, LastUpdateTime: t1, LastTransitionTime: t2, Reason: v1beta1.ProgressingReasonInRolling, Message: "rolling"},
		{Type: v1beta1.RolloutConditionSucceeded, Status: corev1.ConditionFalse, Reason: "r", Message: ""},
	}
}

// cursor value variants of a Rollout canaryStatus
func cursorCS(v int) CSP {
	switch v {
	case 1:
		return CSP{Owg: 3, Orid: "rid-1", Hash: "hash-1", Stable: "stable-v1", Canary: "canary-v2", Pth: "pth-v2", Replicas: 2, Ready: 1, Next: 3, Cur: 2, State: "StepPaused", Message: "paused", Lut: "t1", Fin: ""}
	case 2:
		return CSP{Owg: 7, Orid: "", Hash: "hash-2", Stable: "stable-v1", Canary: "canary-v2", Pth: "pth-v2", Replicas: 10, Ready: 10, Next: -1, Cur: 4, State: "Completed", Message: "", Lut: "nil", Fin: "ReleaseWorkloadControl"}
	case 3:
		return CSP{Owg: 1, Orid: "", Hash: "", Stable: "", Canary: "canary-v3", Pth: "", Replicas: 0, Ready: 0, Next: 1, Cur: 0, State: "StepUpgrade", Message: "", Lut: "t2", Fin: ""}
	}
	return CSP{Lut: "nil"} // every required field at its zero value
}

func lutV(s string) *metav1.Time {
	switch s {
	case "t1":
		t := t1
		return &t
	case "t2":
		t := t2
		return &t
	}
	return nil
}

func buildAlphaRollout(in In) *v1alpha1.Rollout {
	r := &v1alpha1.Rollout{ObjectMeta: metav1.ObjectMeta{Namespace: "default", Name: "demo", Generation: 4, Labels: map[string]string{"app": "demo"}, Annotations: annotations(in)}}
	if in.Wref {
		r.Spec.ObjectRef.WorkloadRef = &v1alpha1.WorkloadRef{APIVersion: "apps/v1", Kind: "Deployment", Name: "demo"}
	}
	r.Spec.Strategy.Paused = in.Paused
	r.Spec.Disabled = in.Disabled
	r.Spec.DeprecatedRolloutID = in.RolloutID
	if in.Strategy == "canary" {
		c := &v1alpha1.CanaryStrategy{FailureThreshold: ftV(in.FT), PatchPodTemplateMetadata: patchAlpha(in.Patch), DisableGenerateCanaryService: in.DisableSvc}
		if in.StepsMode == "list" {
			c.Steps = []v1alpha1.CanaryStep{}
			for _, s := range in.Steps {
				st := v1alpha1.CanaryStep{Replicas: isV(s.R), Pause: v1alpha1.RolloutPause{Duration: i32V(s.P)}}
				st.Weight = i32V(s.W)
				st.RequestHeaderModifier = hdrmodV(s.H)
				if hm := headerMatches(s.M); hm != nil {
					st.Matches = []v1alpha1.HttpRouteMatch{}
					for _, h := range hm {
						st.Matches = append(st.Matches, v1alpha1.HttpRouteMatch{Headers: h})
					}
				}
				c.Steps = append(c.Steps, st)
			}
		}
		if in.RoutingsMode == "list" {
			c.TrafficRoutings = []v1alpha1.TrafficRoutingRef{}
			for i, t := range in.Routings {
				ref := v1alpha1.TrafficRoutingRef{Service: fmt.Sprintf("svc-%d", i), GracePeriodSeconds: int32(t.Grace)}
				switch t.Ing {
				case 1:
					ref.Ingress = &v1alpha1.IngressTrafficRouting{Name: "ing-demo"}
				case 2:
					ref.Ingress = &v1alpha1.IngressTrafficRouting{ClassType: "aliyun-alb", Name: "ing-demo"}
				}
				switch t.Gw {
				case 1:
					ref.Gateway = &v1alpha1.GatewayTrafficRouting{}
				case 2:
					n := "route-demo"
					ref.Gateway = &v1alpha1.GatewayTrafficRouting{HTTPRouteName: &n}
				}
				for j := 0; j < t.Cust; j++ {
					ref.CustomNetworkRefs = append(ref.CustomNetworkRefs, v1alpha1.CustomNetworkRef{APIVersion: "networking.istio.io/v1alpha3", Kind: []string{"VirtualService", "DestinationRule"}[j%2], Name: fmt.Sprintf("net-%d", j)})
				}
				c.TrafficRoutings = append(c.TrafficRoutings, ref)
			}
		}
		r.Spec.Strategy.Canary = c
	}
	switch in.Status {
	case "plain", "canary":
		r.Status.ObservedGeneration = 4
		r.Status.Phase = v1alpha1.RolloutPhaseProgressing
		r.Status.Message = "rollout is progressing"
		r.Status.Conditions = conditionsAlpha()
	}
	if in.Status == "canary" {
		c := cursorCS(in.Cursor)
		r.Status.CanaryStatus = &v1alpha1.CanaryStatus{ObservedWorkloadGeneration: int64(c.Owg), ObservedRolloutID: c.Orid, RolloutHash: c.Hash, StableRevision: c.Stable,
			CanaryRevision: c.Canary, PodTemplateHash: c.Pth, CanaryReplicas: int32(c.Replicas), CanaryReadyReplicas: int32(c.Ready), NextStepIndex: int32(c.Next),
			CurrentStepIndex: int32(c.Cur), CurrentStepState: v1alpha1.CanaryStepState(c.State), Message: c.Message, LastUpdateTime: lutV(c.Lut), FinalisingStep: v1alpha1.FinalizeStateType(c.Fin)}
	}
	return r
}

func betaSteps(in In) []v1beta1.CanaryStep {
	if in.StepsMode != "list" {
		return nil
	}
	steps := []v1beta1.CanaryStep{}
	for _, s := range in.Steps {
		st := v1beta1.CanaryStep{Replicas: isV(s.R), Pause: v1beta1.RolloutPause{Duration: i32V(s.P)}}
		if s.W != NONE {
			tr := fmt.Sprintf("%d%%", s.W)
			st.Traffic = &tr
		}
		st.RequestHeaderModifier = hdrmodV(s.H)
		if hm := headerMatches(s.M); hm != nil {
			st.Matches = []v1beta1.HttpRouteMatch{}
			for _, h := range hm {
				st.Matches = append(st.Matches, v1beta1.HttpRouteMatch{Headers: h})
			}
		}
		switch s.X {
		case 1:
			pt, pv := gatewayv1beta1.PathMatchPathPrefix, "/v2"
			st.Matches = append(st.Matches, v1beta1.HttpRouteMatch{Path: &gatewayv1beta1.HTTPPathMatch{Type: &pt, Value: &pv},
				QueryParams: []gatewayv1beta1.HTTPQueryParamMatch{{Name: "gray", Value: "1"}}})
		case 2:
			tr := "20"
			st.Traffic = &tr
		case 3:
			tr := "abc%"
			st.Traffic = &tr
		}
		steps = append(steps, st)
	}
	return steps
}

func betaRoutings(in In) []v1beta1.TrafficRoutingRef {
	if in.RoutingsMode != "list" {
		return nil
	}
	out := []v1beta1.TrafficRoutingRef{}
	for i, t := range in.Routings {
		ref := v1beta1.TrafficRoutingRef{Service: fmt.Sprintf("svc-%d", i), GracePeriodSeconds: int32(t.Grace)}
		switch t.Ing {
		case 1:
			ref.Ingress = &v1beta1.IngressTrafficRouting{Name: "ing-demo"}
		case 2:
			ref.Ingress = &v1beta1.IngressTrafficRouting{ClassType: "aliyun-alb", Name: "ing-demo"}
		}
		switch t.Gw {
		case 1:
			ref.Gateway = &v1beta1.GatewayTrafficRouting{}
		case 2:
			n := "route-demo"
			ref.Gateway = &v1beta1.GatewayTrafficRouting{HTTPRouteName: &n}
		}
		for j := 0; j < t.Cust; j++ {
			ref.CustomNetworkRefs = append(ref.CustomNetworkRefs, v1beta1.ObjectRef{APIVersion: "networking.istio.io/v1alpha3", Kind: []string{"VirtualService", "DestinationRule"}[j%2], Name: fmt.Sprintf("net-%d", j)})
		}
		out = append(out, ref)
	}
	return out
}

func buildBetaRollout(in In) *v1beta1.Rollout {
	r := &v1beta1.Rollout{ObjectMeta: metav1.ObjectMeta{Namespace: "default", Name: "demo", Generation: 4, Labels: map[string]string{"app": "demo"}, Annotations: annotations(in)}}
	r.Spec.WorkloadRef = v1beta1.ObjectRef{APIVersion: "apps/v1", Kind: "Deployment", Name: "demo"}
	r.Spec.Strategy.Paused = in.Paused
	r.Spec.Disabled = in.Disabled
	if in.Strategy == "canary" || in.Strategy == "both" {
		r.Spec.Strategy.Canary = &v1beta1.CanaryStrategy{Steps: betaSteps(in), TrafficRoutings: betaRoutings(in), FailureThreshold: ftV(in.FT), PatchPodTemplateMetadata: patchBeta(in.Patch),
			EnableExtraWorkloadForCanary: in.EnableExtra, TrafficRoutingRef: in.Trref, DisableGenerateCanaryService: in.DisableSvc}
	}
	if in.Strategy == "bluegreen" || in.Strategy == "both" {
		r.Spec.Strategy.BlueGreen = &v1beta1.BlueGreenStrategy{Steps: betaSteps(in), TrafficRoutings: betaRoutings(in), FailureThreshold: ftV(in.FT), TrafficRoutingRef: in.Trref, DisableGenerateCanaryService: in.DisableSvc}
	}
	switch in.Status {
	case "plain", "canary":
		r.Status.ObservedGeneration = 4
		r.Status.Phase = v1beta1.RolloutPhaseProgressing
		r.Status.Message = "rollout is progressing"
		r.Status.Conditions = conditionsBeta()
	}
	if in.Status == "canary" {
		c := cursorCS(in.Cursor)
		r.Status.CanaryStatus = &v1beta1.CanaryStatus{CommonStatus: v1beta1.CommonStatus{ObservedWorkloadGeneration: int64(c.Owg), ObservedRolloutID: c.Orid, RolloutHash: c.Hash, StableRevision: c.Stable,
			PodTemplateHash: c.Pth, CurrentStepIndex: int32(c.Cur), NextStepIndex: int32(c.Next), FinalisingStep: v1beta1.FinalisingStepType(c.Fin), CurrentStepState: v1beta1.CanaryStepState(c.State),
			Message: c.Message, LastUpdateTime: lutV(c.Lut)}, CanaryRevision: c.Canary, CanaryReplicas: int32(c.Replicas), CanaryReadyReplicas: int32(c.Ready)}
		// the controller mirrors the cursor at the top level of the v1beta1 status (v1beta1-only fields)
		r.Status.CurrentStepIndex = int32(c.Cur)
		r.Status.CurrentStepState = v1beta1.CanaryStepState(c.State)
	}
	return r
}

func brStatusValues(in In) BRStatusP {
	if in.Status != "full" {
		return BRStatusP{Collision: NONE, NoNeed: NONE, ReadyTime: "nil", Conds: []string{}}
	}
	switch in.Cursor {
	case 1:
		return BRStatusP{Stable: "stable-v1", Update: "update-v2", Og: 4, Orid: "rid-1", Owr: 10, Hash: "plan-hash", Collision: 1, Phase: "Progressing", BatchState: "Verifying", CurrentBatch: 2,
			ReadyTime: "t1", Updated: 5, UpdatedReady: 4, NoNeed: 0}
	}
	return BRStatusP{Stable: "stable-v1", Update: "update-v2", Og: 4, Orid: "", Owr: 10, Hash: "plan-hash", Collision: NONE, Phase: "Progressing", BatchState: "Ready", CurrentBatch: 0,
		ReadyTime: "nil", Updated: 1, UpdatedReady: 1, NoNeed: NONE}
}

func buildAlphaBR(in In) *v1alpha1.BatchRelease {
	r := &v1alpha1.BatchRelease{ObjectMeta: metav1.ObjectMeta{Namespace: "default", Name: "demo", Generation: 4, Annotations: annotations(in)}}
	if in.Wref {
		r.Spec.TargetRef.WorkloadRef = &v1alpha1.WorkloadRef{APIVersion: "apps.kruise.io/v1alpha1", Kind: "CloneSet", Name: "demo"}
	}
	p := &r.Spec.ReleasePlan
	if in.BatchesMode == "list" {
		p.Batches = []v1alpha1.ReleaseBatch{}
		for _, b := range in.Batches {
			p.Batches = append(p.Batches, v1alpha1.ReleaseBatch{CanaryReplicas: *isV(b)})
		}
	}
	p.BatchPartition = i32V(in.BatchPartition)
	p.RolloutID = in.RolloutID
	p.FailureThreshold = ftV(in.FT)
	p.FinalizingPolicy = v1alpha1.FinalizingPolicyType(in.FinalizingPolicy)
	p.PatchPodTemplateMetadata = patchAlpha(in.Patch)
	p.RollingStyle = v1alpha1.RollingStyleType(in.SpecStyle)
	p.EnableExtraWorkloadForCanary = in.EnableExtra
	if in.Status == "full" {
		s := brStatusValues(in)
		r.Status = v1alpha1.BatchReleaseStatus{Conditions: conditionsAlpha(), StableRevision: s.Stable, UpdateRevision: s.Update, ObservedGeneration: int64(s.Og), ObservedRolloutID: s.Orid,
			ObservedWorkloadReplicas: int32(s.Owr), CollisionCount: i32V(s.Collision), ObservedReleasePlanHash: s.Hash, Phase: v1alpha1.RolloutPhase(s.Phase),
			CanaryStatus: v1alpha1.BatchReleaseCanaryStatus{CurrentBatchState: v1alpha1.BatchReleaseBatchStateType(s.BatchState), CurrentBatch: int32(s.CurrentBatch), BatchReadyTime: lutV(s.ReadyTime),
				UpdatedReplicas: int32(s.Updated), UpdatedReadyReplicas: int32(s.UpdatedReady), NoNeedUpdateReplicas: i32V(s.NoNeed)}}
	}
	return r
}

func buildBetaBR(in In) *v1beta1.BatchRelease {
	r := &v1beta1.BatchRelease{ObjectMeta: metav1.ObjectMeta{Namespace: "default", Name: "demo", Generation: 4, Annotations: annotations(in)}}
	if in.Wref {
		r.Spec.WorkloadRef = v1beta1.ObjectRef{APIVersion: "apps.kruise.io/v1alpha1", Kind: "CloneSet", Name: "demo"}
	}
	p := &r.Spec.ReleasePlan
	if in.BatchesMode == "list" {
		p.Batches = []v1beta1.ReleaseBatch{}
		for _, b := range in.Batches {
			p.Batches = append(p.Batches, v1beta1.ReleaseBatch{CanaryReplicas: *isV(b)})
		}
	}
	p.BatchPartition = i32V(in.BatchPartition)
	p.RolloutID = in.RolloutID
	p.FailureThreshold = ftV(in.FT)
	p.FinalizingPolicy = v1beta1.FinalizingPolicyType(in.FinalizingPolicy)
	p.PatchPodTemplateMetadata = patchBeta(in.Patch)
	p.RollingStyle = v1beta1.RollingStyleType(in.SpecStyle)
	p.EnableExtraWorkloadForCanary = in.EnableExtra
	if in.Status == "full" {
		s := brStatusValues(in)
		r.Status = v1beta1.BatchReleaseStatus{Conditions: conditionsBeta(), StableRevision: s.Stable, UpdateRevision: s.Update, ObservedGeneration: int64(s.Og), ObservedRolloutID: s.Orid,
			ObservedWorkloadReplicas: int32(s.Owr), CollisionCount: i32V(s.Collision), ObservedReleasePlanHash: s.Hash, Phase: v1beta1.RolloutPhase(s.Phase),
			CanaryStatus: v1beta1.BatchReleaseCanaryStatus{CurrentBatchState: v1beta1.BatchReleaseBatchStateType(s.BatchState), CurrentBatch: int32(s.CurrentBatch), BatchReadyTime: lutV(s.ReadyTime),
				UpdatedReplicas: int32(s.Updated), UpdatedReadyReplicas: int32(s.UpdatedReady), NoNeedUpdateReplicas: i32V(s.NoNeed)}}
	}
	return r
}

// ---------------------------------------------------------------------------------------------
// projections: concrete typed objects -> canonical abstract records (independent of conversion.go)
// ---------------------------------------------------------------------------------------------

func lutP(t *metav1.Time) string {
	switch {
	case t == nil:
		return "nil"
	case t.Equal(&t1):
		return "t1"
	case t.Equal(&t2):
		return "t2"
	}
	return timeP(t)
}

func condP(typ, status string, lut, ltt metav1.Time, reason, msg string) string {
	return strings.Join([]string{typ, status, timeP(&lut), timeP(&ltt), reason, msg}, "|")
}

func patchP(has bool, ann, labels map[string]string) string {
	if !has {
		return "none"
	}
	return "A" + mapP(ann) + "L" + mapP(labels)
}

func projAlphaRollout(r *v1alpha1.Rollout) PR {
	p := PR{Ver: "alpha", Wref: "none", Strategy: "none", Paused: r.Spec.Strategy.Paused, Disabled: r.Spec.Disabled, RolloutID: r.Spec.DeprecatedRolloutID, FT: "none",
		Steps: []StepP{}, Routings: []RouteP{}, Patch: "none", StyleAnn: annP(r.Annotations, styleKey, true), TrAnn: annP(r.Annotations, trKey, false), OtherAnn: annP(r.Annotations, otherKey, false)}
	if w := r.Spec.ObjectRef.WorkloadRef; w != nil {
		p.Wref = w.APIVersion + "|" + w.Kind + "|" + w.Name
	}
	if c := r.Spec.Strategy.Canary; c != nil {
		p.Strategy = "canary"
		p.DisableSvc = c.DisableGenerateCanaryService
		p.FT = isP(c.FailureThreshold)
		if c.PatchPodTemplateMetadata != nil {
			p.Patch = patchP(true, c.PatchPodTemplateMetadata.Annotations, c.PatchPodTemplateMetadata.Labels)
		}
		for _, s := range c.Steps {
			sp := StepP{Weight: i32P(s.Weight), Replicas: isP(s.Replicas), Pause: i32P(s.Pause.Duration), Matches: [][]string{}, Hdrmod: hdrmodP(s.RequestHeaderModifier)}
			for _, m := range s.Matches {
				sp.Matches = append(sp.Matches, headersP(m.Headers))
			}
			p.Steps = append(p.Steps, sp)
		}
		for _, t := range c.TrafficRoutings {
			rp := RouteP{Service: t.Service, Grace: int(t.GracePeriodSeconds), Ingress: "none", Gateway: "none", Customs: []string{}}
			if t.Ingress != nil {
				rp.Ingress = t.Ingress.ClassType + "|" + t.Ingress.Name
			}
			if t.Gateway != nil {
				rp.Gateway = "nil"
				if t.Gateway.HTTPRouteName != nil {
					rp.Gateway = "name=" + *t.Gateway.HTTPRouteName
				}
			}
			for _, cr := range t.CustomNetworkRefs {
				rp.Customs = append(rp.Customs, cr.APIVersion+"|"+cr.Kind+"|"+cr.Name)
			}
			p.Routings = append(p.Routings, rp)
		}
	}
	st := StatusP{Og: int(r.Status.ObservedGeneration), Phase: string(r.Status.Phase), Message: r.Status.Message, Conds: []string{}, CS: CSP{Lut: "nil"}}
	for _, c := range r.Status.Conditions {
		st.Conds = append(st.Conds, condP(string(c.Type), string(c.Status), c.LastUpdateTime, c.LastTransitionTime, c.Reason, c.Message))
	}
	if c := r.Status.CanaryStatus; c != nil {
		st.HasCS = true
		st.CS = CSP{Owg: int(c.ObservedWorkloadGeneration), Orid: c.ObservedRolloutID, Hash: c.RolloutHash, Stable: c.StableRevision, Canary: c.CanaryRevision, Pth: c.PodTemplateHash,
			Replicas: int(c.CanaryReplicas), Ready: int(c.CanaryReadyReplicas), Next: int(c.NextStepIndex), Cur: int(c.CurrentStepIndex), State: string(c.CurrentStepState), Message: c.Message,
			Lut: lutP(c.LastUpdateTime), Fin: string(c.FinalisingStep)}
	}
	p.Status = st
	return p
}

func projBetaRollout(r *v1beta1.Rollout) PR {
	w := r.Spec.WorkloadRef
	p := PR{Ver: "beta", Wref: w.APIVersion + "|" + w.Kind + "|" + w.Name, Strategy: "none", Paused: r.Spec.Strategy.Paused, Disabled: r.Spec.Disabled, FT: "none",
		Steps: []StepP{}, Routings: []RouteP{}, Patch: "none", StyleAnn: annP(r.Annotations, styleKey, true), TrAnn: annP(r.Annotations, trKey, false), OtherAnn: annP(r.Annotations, otherKey, false)}
	switch {
	case r.Spec.Strategy.Canary != nil && r.Spec.Strategy.BlueGreen != nil:
		p.Strategy = "both"
	case r.Spec.Strategy.Canary != nil:
		p.Strategy = "canary"
	case r.Spec.Strategy.BlueGreen != nil:
		p.Strategy = "bluegreen"
	}
	if c := r.Spec.Strategy.Canary; c != nil {
		p.DisableSvc = c.DisableGenerateCanaryService
		p.FT = isP(c.FailureThreshold)
		p.EnableExtra = c.EnableExtraWorkloadForCanary
		p.Trref = c.TrafficRoutingRef
		if c.PatchPodTemplateMetadata != nil {
			p.Patch = patchP(true, c.PatchPodTemplateMetadata.Annotations, c.PatchPodTemplateMetadata.Labels)
		}
		for _, s := range c.Steps {
			sp := StepP{Weight: NONE, Replicas: isP(s.Replicas), Pause: i32P(s.Pause.Duration), Matches: [][]string{}, Hdrmod: hdrmodP(s.RequestHeaderModifier)}
			if s.Traffic != nil {
				if pctRe.MatchString(*s.Traffic) {
					n, err := strconv.Atoi(strings.TrimSuffix(*s.Traffic, "%"))
					if err == nil {
						sp.Weight = n
					} else {
						sp.TrafficRaw = *s.Traffic
					}
				} else {
					sp.TrafficRaw = "raw:" + *s.Traffic
				}
			}
			for _, m := range s.Matches {
				sp.Matches = append(sp.Matches, headersP(m.Headers))
				if m.Path != nil || len(m.QueryParams) > 0 {
					sp.ExtraMatch = true
				}
			}
			p.Steps = append(p.Steps, sp)
		}
		for _, t := range c.TrafficRoutings {
			rp := RouteP{Service: t.Service, Grace: int(t.GracePeriodSeconds), Ingress: "none", Gateway: "none", Customs: []string{}}
			if t.Ingress != nil {
				rp.Ingress = t.Ingress.ClassType + "|" + t.Ingress.Name
			}
			if t.Gateway != nil {
				rp.Gateway = "nil"
				if t.Gateway.HTTPRouteName != nil {
					rp.Gateway = "name=" + *t.Gateway.HTTPRouteName
				}
			}
			for _, cr := range t.CustomNetworkRefs {
				rp.Customs = append(rp.Customs, cr.APIVersion+"|"+cr.Kind+"|"+cr.Name)
			}
			p.Routings = append(p.Routings, rp)
		}
	}
	st := StatusP{Og: int(r.Status.ObservedGeneration), Phase: string(r.Status.Phase), Message: r.Status.Message, Conds: []string{}, CS: CSP{Lut: "nil"},
		TopIdx: int(r.Status.CurrentStepIndex), TopState: string(r.Status.CurrentStepState), HasBG: r.Status.BlueGreenStatus != nil}
	for _, c := range r.Status.Conditions {
		st.Conds = append(st.Conds, condP(string(c.Type), string(c.Status), c.LastUpdateTime, c.LastTransitionTime, c.Reason, c.Message))
	}
	if c := r.Status.CanaryStatus; c != nil {
		st.HasCS = true
		st.CS = CSP{Owg: int(c.ObservedWorkloadGeneration), Orid: c.ObservedRolloutID, Hash: c.RolloutHash, Stable: c.StableRevision, Canary: c.CanaryRevision, Pth: c.PodTemplateHash,
			Replicas: int(c.CanaryReplicas), Ready: int(c.CanaryReadyReplicas), Next: int(c.NextStepIndex), Cur: int(c.CurrentStepIndex), State: string(c.CurrentStepState), Message: c.Message,
			Lut: lutP(c.LastUpdateTime), Fin: string(c.FinalisingStep)}
	}
	p.Status = st
	return p
}

func projAlphaBR(r *v1alpha1.BatchRelease) PBR {
	pl := r.Spec.ReleasePlan
	p := PBR{Ver: "alpha", Wref: "none", Batches: []string{}, BatchPartition: i32P(pl.BatchPartition), RolloutID: pl.RolloutID, FT: isP(pl.FailureThreshold), FinalizingPolicy: string(pl.FinalizingPolicy),
		Patch: "none", SpecStyle: strings.ToLower(string(pl.RollingStyle)), StyleAnn: annP(r.Annotations, styleKey, true), OtherAnn: annP(r.Annotations, otherKey, false), EnableExtra: pl.EnableExtraWorkloadForCanary}
	if w := r.Spec.TargetRef.WorkloadRef; w != nil {
		p.Wref = w.APIVersion + "|" + w.Kind + "|" + w.Name
	}
	for _, b := range pl.Batches {
		cr := b.CanaryReplicas
		p.Batches = append(p.Batches, isP(&cr))
	}
	if pl.PatchPodTemplateMetadata != nil {
		p.Patch = patchP(true, pl.PatchPodTemplateMetadata.Annotations, pl.PatchPodTemplateMetadata.Labels)
	}
	s := r.Status
	st := BRStatusP{Stable: s.StableRevision, Update: s.UpdateRevision, Og: int(s.ObservedGeneration), Orid: s.ObservedRolloutID, Owr: int(s.ObservedWorkloadReplicas), Hash: s.ObservedReleasePlanHash,
		Collision: i32P(s.CollisionCount), Phase: string(s.Phase), Conds: []string{}, BatchState: string(s.CanaryStatus.CurrentBatchState), CurrentBatch: int(s.CanaryStatus.CurrentBatch),
		ReadyTime: lutP(s.CanaryStatus.BatchReadyTime), Updated: int(s.CanaryStatus.UpdatedReplicas), UpdatedReady: int(s.CanaryStatus.UpdatedReadyReplicas), NoNeed: i32P(s.CanaryStatus.NoNeedUpdateReplicas)}
	for _, c := range s.Conditions {
		st.Conds = append(st.Conds, condP(string(c.Type), string(c.Status), c.LastUpdateTime, c.LastTransitionTime, c.Reason, c.Message))
	}
	p.Status = st
	return p
}

func projBetaBR(r *v1beta1.BatchRelease) PBR {
	pl := r.Spec.ReleasePlan
	w := r.Spec.WorkloadRef
	p := PBR{Ver: "beta", Wref: w.APIVersion + "|" + w.Kind + "|" + w.Name, Batches: []string{}, BatchPartition: i32P(pl.BatchPartition), RolloutID: pl.RolloutID, FT: isP(pl.FailureThreshold),
		FinalizingPolicy: string(pl.FinalizingPolicy), Patch: "none", SpecStyle: strings.ToLower(string(pl.RollingStyle)), StyleAnn: annP(r.Annotations, styleKey, true), OtherAnn: annP(r.Annotations, otherKey, false),
		EnableExtra: pl.EnableExtraWorkloadForCanary}
	for _, b := range pl.Batches {
		cr := b.CanaryReplicas
		p.Batches = append(p.Batches, isP(&cr))
	}
	if pl.PatchPodTemplateMetadata != nil {
		p.Patch = patchP(true, pl.PatchPodTemplateMetadata.Annotations, pl.PatchPodTemplateMetadata.Labels)
	}
	s := r.Status
	st := BRStatusP{Stable: s.StableRevision, Update: s.UpdateRevision, Og: int(s.ObservedGeneration), Orid: s.ObservedRolloutID, Owr: int(s.ObservedWorkloadReplicas), Hash: s.ObservedReleasePlanHash,
		Collision: i32P(s.CollisionCount), Phase: string(s.Phase), Conds: []string{}, Message: s.Message, BatchState: string(s.CanaryStatus.CurrentBatchState), CurrentBatch: int(s.CanaryStatus.CurrentBatch),
		ReadyTime: lutP(s.CanaryStatus.BatchReadyTime), Updated: int(s.CanaryStatus.UpdatedReplicas), UpdatedReady: int(s.CanaryStatus.UpdatedReadyReplicas), NoNeed: i32P(s.CanaryStatus.NoNeedUpdateReplicas)}
	for _, c := range s.Conditions {
		st.Conds = append(st.Conds, condP(string(c.Type), string(c.Status), c.LastUpdateTime, c.LastTransitionTime, c.Reason, c.Message))
	}
	p.Status = st
	return p
}

// ---------------------------------------------------------------------------------------------
// running the real conversions
// ---------------------------------------------------------------------------------------------

// store serialises and decodes an object: what the API server keeps / what a client receives.
func store(from interface{}, into interface{}) error {
	b, err := json.Marshal(from)
	if err != nil {
		return err
	}
	return json.Unmarshal(b, into)
}

func mutated(before, after interface{}) []string {
	out := []string{}
	bv, av := reflect.ValueOf(before).Elem(), reflect.ValueOf(after).Elem()
	bm := bv.FieldByName("ObjectMeta").Interface().(metav1.ObjectMeta)
	am := av.FieldByName("ObjectMeta").Interface().(metav1.ObjectMeta)
	if !reflect.DeepEqual(bm.Annotations, am.Annotations) {
		out = append(out, "annotations")
	}
	bm.Annotations, am.Annotations = nil, nil
	if !reflect.DeepEqual(bm, am) {
		out = append(out, "metadata")
	}
	if !reflect.DeepEqual(bv.FieldByName("Spec").Interface(), av.FieldByName("Spec").Interface()) {
		out = append(out, "spec")
	}
	if !reflect.DeepEqual(bv.FieldByName("Status").Interface(), av.FieldByName("Status").Interface()) {
		out = append(out, "status")
	}
	return out
}

func runRolloutAlpha(in In) (interface{}, error) {
	a0 := buildAlphaRollout(in)
	out := Out{X0: projAlphaRollout(a0), Stages: 2}
	snap := a0.DeepCopy()
	b1 := &v1beta1.Rollout{}
	if err := a0.ConvertTo(b1); err != nil {
		return nil, fmt.Errorf("ConvertTo: %v", err)
	}
	out.Mut0 = mutated(snap, a0)
	b1s := &v1beta1.Rollout{}
	if err := store(b1, b1s); err != nil {
		return nil, fmt.Errorf("store v1beta1: %v", err)
	}
	out.Y1 = projBetaRollout(b1s)
	snap1 := b1s.DeepCopy()
	a2 := &v1alpha1.Rollout{}
	if err := a2.ConvertFrom(b1s); err != nil {
		return nil, fmt.Errorf("ConvertFrom: %v", err)
	}
	out.Mut1 = mutated(snap1, b1s)
	a2s := &v1alpha1.Rollout{}
	if err := store(a2, a2s); err != nil {
		return nil, fmt.Errorf("store v1alpha1: %v", err)
	}
	out.X2 = projAlphaRollout(a2s)
	return out, nil
}

func runRolloutBeta(in In) (interface{}, error) {
	b0 := buildBetaRollout(in)
	x0 := projBetaRollout(b0)
	out := Out{X0: x0, Stages: 2}
	snap := b0.DeepCopy()
	a1 := &v1alpha1.Rollout{}
	if err := a1.ConvertFrom(b0); err != nil {
		return nil, fmt.Errorf("ConvertFrom: %v", err)
	}
	out.Mut0 = mutated(snap, b0)
	a1s := &v1alpha1.Rollout{}
	if err := store(a1, a1s); err != nil {
		return nil, fmt.Errorf("store v1alpha1: %v", err)
	}
	out.Y1 = projAlphaRollout(a1s)
	if in.Strategy != "canary" {
		// blue-green / empty strategy: v1alpha1 cannot express it; only the read direction is exercised
		out.Stages, out.X2, out.Mut1 = 1, x0, []string{}
		return out, nil
	}
	snap1 := a1s.DeepCopy()
	b2 := &v1beta1.Rollout{}
	if err := a1s.ConvertTo(b2); err != nil {
		return nil, fmt.Errorf("ConvertTo: %v", err)
	}
	out.Mut1 = mutated(snap1, a1s)
	b2s := &v1beta1.Rollout{}
	if err := store(b2, b2s); err != nil {
		return nil, fmt.Errorf("store v1beta1: %v", err)
	}
	out.X2 = projBetaRollout(b2s)
	return out, nil
}

func runBRAlpha(in In) (interface{}, error) {
	a0 := buildAlphaBR(in)
	out := Out{X0: projAlphaBR(a0), Stages: 2}
	snap := a0.DeepCopy()
	b1 := &v1beta1.BatchRelease{}
	if err := a0.ConvertTo(b1); err != nil {
		return nil, fmt.Errorf("ConvertTo: %v", err)
	}
	out.Mut0 = mutated(snap, a0)
	b1s := &v1beta1.BatchRelease{}
	if err := store(b1, b1s); err != nil {
		return nil, fmt.Errorf("store v1beta1: %v", err)
	}
	out.Y1 = projBetaBR(b1s)
	snap1 := b1s.DeepCopy()
	a2 := &v1alpha1.BatchRelease{}
	if err := a2.ConvertFrom(b1s); err != nil {
		return nil, fmt.Errorf("ConvertFrom: %v", err)
	}
	out.Mut1 = mutated(snap1, b1s)
	a2s := &v1alpha1.BatchRelease{}
	if err := store(a2, a2s); err != nil {
		return nil, fmt.Errorf("store v1alpha1: %v", err)
	}
	out.X2 = projAlphaBR(a2s)
	return out, nil
}

func runBRBeta(in In) (interface{}, error) {
	b0 := buildBetaBR(in)
	out := Out{X0: projBetaBR(b0), Stages: 2}
	snap := b0.DeepCopy()
	a1 := &v1alpha1.BatchRelease{}
	if err := a1.ConvertFrom(b0); err != nil {
		return nil, fmt.Errorf("ConvertFrom: %v", err)
	}
	out.Mut0 = mutated(snap, b0)
	a1s := &v1alpha1.BatchRelease{}
	if err := store(a1, a1s); err != nil {
		return nil, fmt.Errorf("store v1alpha1: %v", err)
	}
	out.Y1 = projAlphaBR(a1s)
	snap1 := a1s.DeepCopy()
	b2 := &v1beta1.BatchRelease{}
	if err := a1s.ConvertTo(b2); err != nil {
		return nil, fmt.Errorf("ConvertTo: %v", err)
	}
	out.Mut1 = mutated(snap1, a1s)
	b2s := &v1beta1.BatchRelease{}
	if err := store(b2, b2s); err != nil {
		return nil, fmt.Errorf("store v1beta1: %v", err)
	}
	out.X2 = projBetaBR(b2s)
	return out, nil
}

// ---------------------------------------------------------------------------------------------
// the bounded domain
// ---------------------------------------------------------------------------------------------

type domain struct {
	w     *fnlib.Writer
	count map[string]int
}

func (d *domain) emit(in In) {
	if in.Dir == "beta" && in.Kind == "Rollout" {
		// a v1alpha1-encoding annotation in the v1beta1 object's metadata that contradicts its spec
		styleOf := "partition"
		if in.EnableExtra {
			styleOf = "canary"
		}
		in.AnnConflict = (in.StyleAnn != "-" && strings.ToLower(in.StyleAnn) != styleOf) || (in.TrAnn != "-" && in.TrAnn != in.Trref)
		for _, st := range in.Steps {
			if st.X != 0 {
				in.BetaOnly = true
			}
		}
	}
	if in.Dir == "beta" && in.Kind == "BatchRelease" {
		in.AnnConflict = in.StyleAnn != "-" && strings.ToLower(in.StyleAnn) != strings.ToLower(in.SpecStyle)
	}
	d.count[in.Kind+"/"+in.Dir]++
	d.w.Run(in, func() (interface{}, error) {
		switch in.Kind + "/" + in.Dir {
		case "Rollout/alpha":
			return runRolloutAlpha(in)
		case "Rollout/beta":
			return runRolloutBeta(in)
		case "BatchRelease/alpha":
			return runBRAlpha(in)
		default:
			return runBRBeta(in)
		}
	})
}

func stepLists(thorough bool) [][]StepIn {
	ws, rs, ps, ms, hs := []int{NONE, 20}, []string{"none", "int:2"}, []int{NONE, 60}, []int{0, 1}, []bool{false}
	if thorough {
		ws, rs, ps, ms, hs = []int{NONE, 0, 20, 100}, []string{"none", "int:2", "str:50%"}, []int{NONE, 0, 60}, []int{0, 1, 2, 3, 4}, []bool{false, true}
	}
	lists := [][]StepIn{}
	for _, w := range ws {
		for _, r := range rs {
			for _, p := range ps {
				for _, m := range ms {
					for _, h := range hs {
						lists = append(lists, []StepIn{{W: w, R: r, P: p, M: m, H: h}})
					}
				}
			}
		}
	}
	// multi-step plans mixing every shape
	lists = append(lists, []StepIn{{W: 5, R: "none", P: NONE, M: 0}, {W: 50, R: "int:2", P: 60, M: 2, H: true}, {W: 100, R: "str:100%", P: 0, M: 3}})
	lists = append(lists, []StepIn{{W: NONE, R: "str:10%", P: NONE, M: 1}, {W: NONE, R: "none", P: NONE, M: 1, H: true}, {W: 0, R: "none", P: 30, M: 4}, {W: -5, R: "int:0", P: NONE, M: 0}})
	return lists
}

func routingLists(thorough bool) [][]RouteIn {
	lists := [][]RouteIn{}
	for ing := 0; ing <= 1; ing++ {
		for gw := 0; gw <= 1; gw++ {
			for cust := 0; cust <= 1; cust++ {
				lists = append(lists, []RouteIn{{Ing: ing, Gw: gw * 2, Cust: cust, Grace: 3}})
			}
		}
	}
	lists = append(lists, []RouteIn{{Ing: 2, Gw: 1, Cust: 2, Grace: 0}, {Ing: 1, Gw: 0, Cust: 0, Grace: 10}})
	if thorough {
		lists = append(lists, []RouteIn{{Ing: 2, Gw: 0, Cust: 0, Grace: 0}}, []RouteIn{{Ing: 0, Gw: 1, Cust: 2, Grace: 5}})
	}
	return lists
}

type stepsChoice struct {
	mode  string
	steps []StepIn
}

type routesChoice struct {
	mode   string
	routes []RouteIn
}

func stepsChoices(thorough bool) []stepsChoice {
	out := []stepsChoice{{"nil", []StepIn{}}, {"list", []StepIn{}}}
	for _, l := range stepLists(thorough) {
		out = append(out, stepsChoice{"list", l})
	}
	return out
}

func routesChoices(thorough bool) []routesChoice {
	out := []routesChoice{{"nil", []RouteIn{}}}
	if thorough {
		out = append(out, routesChoice{"list", []RouteIn{}})
	}
	for _, l := range routingLists(thorough) {
		out = append(out, routesChoice{"list", l})
	}
	return out
}

type statusChoice struct {
	status string
	cursor int
}

// rolloutBases: representative Rollout shapes (no steps / multi-step plans x no routing / two routings).
func rolloutBases(dir string) []In {
	sc, rc := stepsChoices(false), routesChoices(false)
	bases := []In{}
	for _, s := range []stepsChoice{sc[0], sc[len(sc)-2], sc[len(sc)-1]} {
		for _, r := range []routesChoice{rc[0], rc[len(rc)-1]} {
			in := baseIn("Rollout", dir)
			in.StepsMode, in.Steps, in.RoutingsMode, in.Routings = s.mode, s.steps, r.mode, r.routes
			bases = append(bases, in)
		}
	}
	return bases
}

func batchChoices() []stepsChoice {
	mk := func(bs ...string) stepsChoice {
		out := stepsChoice{mode: "list", steps: []StepIn{}}
		for _, b := range bs {
			out.steps = append(out.steps, StepIn{R: b})
		}
		return out
	}
	return []stepsChoice{{"nil", []StepIn{}}, mk(), mk("int:1"), mk("str:20%"), mk("int:1", "str:50%", "str:100%"), mk("int:0", "int:5", "str:abc")}
}

func brIn(dir string, bc stepsChoice) In {
	in := baseIn("BatchRelease", dir)
	in.Strategy, in.BatchesMode = "plan", bc.mode
	for _, s := range bc.steps {
		in.Batches = append(in.Batches, s.R)
	}
	return in
}

// Part 1 (enumerated first, small): the optional blocks the conversion code dereferences, absent.
func (d *domain) nilBlocks(thorough bool) {
	statuses := []statusChoice{{"none", 0}, {"plain", 0}, {"canary", 1}}
	// v1alpha1 Rollout: spec.objectRef.workloadRef and / or spec.strategy.canary absent
	for _, wref := range []bool{true, false} {
		for _, strategy := range []string{"none", "canary"} {
			if wref && strategy == "canary" {
				continue
			}
			bases := rolloutBases("alpha")
			if strategy == "none" {
				bases = bases[:1]
			}
			for _, b := range bases {
				for _, st := range statuses {
					for _, style := range []string{"-", "partition"} {
						for _, tr := range []string{"-", "tr-demo"} {
							in := b
							in.Wref, in.Strategy, in.Status, in.Cursor, in.StyleAnn, in.TrAnn = wref, strategy, st.status, st.cursor, style, tr
							d.emit(in)
						}
					}
				}
			}
		}
	}
	// v1alpha1 BatchRelease: spec.targetReference.workloadRef absent
	for _, bc := range batchChoices() {
		for _, bp := range []int{NONE, 1} {
			for _, st := range []statusChoice{{"none", 0}, {"full", 1}} {
				for _, style := range [][2]string{{"", "-"}, {"Partition", "partition"}} {
					for _, extra := range []bool{false, true} {
						in := brIn("alpha", bc)
						in.Wref, in.BatchPartition, in.Status, in.Cursor, in.SpecStyle, in.StyleAnn, in.EnableExtra = false, bp, st.status, st.cursor, style[0], style[1], extra
						d.emit(in)
					}
				}
			}
		}
	}
	// v1beta1 Rollouts v1alpha1 cannot express (read direction only): blue-green, both, no strategy block at all
	for _, strat := range []string{"bluegreen", "both", "none"} {
		for _, b := range rolloutBases("beta") {
			for _, st := range []statusChoice{{"none", 0}, {"canary", 1}} {
				for _, other := range []bool{false, true} {
					in := b
					in.Strategy, in.Status, in.Cursor, in.OtherAnn = strat, st.status, st.cursor, other
					if strat == "none" {
						in.StepsMode, in.Steps, in.RoutingsMode, in.Routings = "nil", []StepIn{}, "nil", []RouteIn{}
					}
					d.emit(in)
				}
			}
		}
	}
	// canary-strategy v1beta1 Rollouts using step fields v1alpha1 cannot express (must still convert without crashing)
	for x := 1; x <= 3; x++ {
		for _, m := range []int{0, 1, 2} {
			for _, w := range []int{NONE, 20} {
				for _, r := range []string{"none", "int:2"} {
					for _, extra := range []bool{false, true} {
						in := baseIn("Rollout", "beta")
						in.StepsMode, in.Steps, in.EnableExtra = "list", []StepIn{{W: w, R: r, P: NONE, M: m, X: x}, {W: 100, R: "str:100%", P: 0, M: 0}}, extra
						d.emit(in)
					}
				}
			}
		}
	}
}

// Part 2 (small): the style encodings of a BatchRelease and the flags outside the listed meaning.
func (d *domain) stylesAndFlags(thorough bool) {
	specStyles := []string{"", "Partition", "Canary", "BlueGreen"}
	alphaAnns, betaAnns := []string{"-", "partition", "canary", "bluegreen"}, []string{"-", "partition", "canary", "bluegreen"}
	rids, patches := []string{""}, []string{"none"}
	if thorough {
		alphaAnns = []string{"-", "", "partition", "Partition", "canary", "Canary", "bluegreen", "BlueGreen", "other"}
		betaAnns = []string{"-", "partition", "canary", "Canary", "bluegreen", "other"}
		rids, patches = []string{"", "rid-1"}, []string{"none", "full"}
	}
	bcs := batchChoices()
	for _, dir := range []string{"alpha", "beta"} {
		anns := alphaAnns
		if dir == "beta" {
			anns = betaAnns
		}
		for _, ss := range specStyles {
			for _, ann := range anns {
				for _, extra := range []bool{false, true} {
					for _, bc := range []stepsChoice{bcs[0], bcs[4]} {
						for _, st := range []statusChoice{{"none", 0}, {"full", 1}} {
							for _, rid := range rids {
								for _, patch := range patches {
									in := brIn(dir, bc)
									in.SpecStyle, in.StyleAnn, in.EnableExtra, in.Status, in.Cursor, in.RolloutID, in.Patch = ss, ann, extra, st.status, st.cursor, rid, patch
									d.emit(in)
								}
							}
						}
					}
				}
			}
		}
	}
	// Rollout: disableGenerateCanaryService (both versions have the field), deprecated rolloutID (v1alpha1 only)
	for _, b := range rolloutBases("beta") {
		for _, extra := range []bool{false, true} {
			for _, trref := range []string{"", "tr-demo"} {
				for _, paused := range []bool{false, true} {
					for _, ann := range []bool{false, true} {
						in := b
						in.DisableSvc, in.EnableExtra, in.Trref, in.Paused = true, extra, trref, paused
						if ann { // annotations as left behind by an earlier write through v1alpha1
							in.StyleAnn = "partition"
							if extra {
								in.StyleAnn = "canary"
							}
							if trref != "" {
								in.TrAnn = trref
							}
						}
						d.emit(in)
					}
				}
			}
		}
	}
	for _, b := range rolloutBases("alpha") {
		for _, svc := range []bool{false, true} {
			for _, rid := range []string{"", "rid-1"} {
				for _, style := range []string{"-", "partition"} {
					for _, paused := range []bool{false, true} {
						if !svc && rid == "" {
							continue
						}
						in := b
						in.DisableSvc, in.RolloutID, in.StyleAnn, in.Paused = svc, rid, style, paused
						d.emit(in)
					}
				}
			}
		}
	}
}

// alphaLattice crosses the optional blocks of a v1alpha1 Rollout.
func (d *domain) alphaLattice(statuses []statusChoice, styles, trs []string, sc []stepsChoice, rc []routesChoice, patches, fts []string) {
	for _, st := range statuses {
		for _, style := range styles {
			for _, tr := range trs {
				in := baseIn("Rollout", "alpha")
				in.Status, in.Cursor, in.StyleAnn, in.TrAnn = st.status, st.cursor, style, tr
				for _, s := range sc {
					for _, r := range rc {
						for _, patch := range patches {
							for _, ft := range fts {
								in.StepsMode, in.Steps, in.RoutingsMode, in.Routings, in.Patch, in.FT = s.mode, s.steps, r.mode, r.routes, patch, ft
								d.emit(in)
							}
						}
					}
				}
			}
		}
	}
}

// Part 3: v1alpha1 Rollouts, the presence / absence lattice of every optional block x value sets.
func (d *domain) rolloutAlpha(thorough bool) {
	sc, rc := stepsChoices(false), routesChoices(false)
	statuses := []statusChoice{{"none", 0}, {"plain", 0}, {"canary", 1}}
	styles, trs := []string{"-", "partition"}, []string{"-", "tr-demo"}
	if !thorough {
		d.alphaLattice(statuses, styles, trs, sc, rc, []string{"none", "full"}, []string{"none", "int"})
	} else {
		d.alphaLattice(append(statuses, statusChoice{"canary", 0}, statusChoice{"canary", 2}), []string{"-", "partition", "canary", "Partition"}, trs, sc, rc,
			[]string{"none", "full"}, []string{"none", "int"})
		// the same lattice over the larger value sets of steps / routings
		d.alphaLattice([]statusChoice{{"canary", 1}}, styles, trs, stepsChoices(true), routesChoices(true), []string{"none", "full"}, []string{"none", "int", "str"})
	}
	for _, b := range rolloutBases("alpha") {
		for _, style := range []string{"-", "", "partition", "Partition", "PARTITION", "canary", "Canary", "bluegreen", "other"} {
			for _, tr := range []string{"-", "", "tr-demo"} {
				for _, other := range []bool{false, true} {
					for _, flags := range []int{0, 1, 2, 3} {
						in := b
						in.StyleAnn, in.TrAnn, in.OtherAnn = style, tr, other
						in.Paused, in.Disabled = flags&1 != 0, flags&2 != 0
						d.emit(in)
					}
				}
			}
		}
		for _, patch := range []string{"none", "empty", "full"} {
			for _, ft := range []string{"none", "int", "str"} {
				for _, st := range []statusChoice{{"none", 0}, {"plain", 0}, {"canary", 0}, {"canary", 1}, {"canary", 2}, {"canary", 3}} {
					in := b
					in.Patch, in.FT, in.Status, in.Cursor = patch, ft, st.status, st.cursor
					d.emit(in)
				}
			}
		}
	}
}

// betaLattice crosses the optional blocks of a canary-strategy v1beta1 Rollout (v1alpha1-expressible fields only).
func (d *domain) betaLattice(statuses []statusChoice, anns []string, sc []stepsChoice, rc []routesChoice, patches, fts []string) {
	for _, st := range statuses {
		for _, extra := range []bool{false, true} {
			for _, trref := range []string{"", "tr-demo"} {
				for _, ann := range anns {
					in := baseIn("Rollout", "beta")
					in.Status, in.Cursor, in.EnableExtra, in.Trref = st.status, st.cursor, extra, trref
					if ann == "consistent" { // as left behind by an earlier write through v1alpha1
						in.StyleAnn = "partition"
						if extra {
							in.StyleAnn = "canary"
						}
						if trref != "" {
							in.TrAnn = trref
						}
					}
					for _, s := range sc {
						for _, r := range rc {
							for _, patch := range patches {
								for _, ft := range fts {
									in.StepsMode, in.Steps, in.RoutingsMode, in.Routings, in.Patch, in.FT = s.mode, s.steps, r.mode, r.routes, patch, ft
									d.emit(in)
								}
							}
						}
					}
				}
			}
		}
	}
}

// Part 4: canary-strategy v1beta1 Rollouts restricted to v1alpha1-expressible fields.
func (d *domain) rolloutBeta(thorough bool) {
	sc, rc := stepsChoices(false), routesChoices(false)
	if !thorough {
		d.betaLattice([]statusChoice{{"none", 0}, {"canary", 1}}, []string{"none", "consistent"}, sc, rc, []string{"none", "full"}, []string{"none", "int"})
	} else {
		d.betaLattice([]statusChoice{{"none", 0}, {"plain", 0}, {"canary", 1}, {"canary", 2}}, []string{"none", "consistent"}, sc, rc, []string{"none", "full"}, []string{"none", "int"})
		d.betaLattice([]statusChoice{{"canary", 1}}, []string{"none"}, stepsChoices(true), routesChoices(true), []string{"none", "full"}, []string{"none", "int", "str"})
	}
	// value sets, including left-over v1alpha1 annotations that contradict the spec
	for _, b := range rolloutBases("beta") {
		for _, style := range []string{"-", "partition", "canary", "Canary", "other"} {
			for _, tr := range []string{"-", "tr-demo", "tr-other"} {
				for _, extra := range []bool{false, true} {
					for _, trref := range []string{"", "tr-demo"} {
						for _, other := range []bool{false, true} {
							for _, flags := range []int{0, 1, 2, 3} {
								in := b
								in.StyleAnn, in.TrAnn, in.EnableExtra, in.Trref, in.OtherAnn = style, tr, extra, trref, other
								in.Paused, in.Disabled = flags&1 != 0, flags&2 != 0
								d.emit(in)
							}
						}
					}
				}
			}
		}
		for _, patch := range []string{"none", "empty", "full"} {
			for _, ft := range []string{"none", "int", "str"} {
				for _, st := range []statusChoice{{"none", 0}, {"plain", 0}, {"canary", 0}, {"canary", 1}, {"canary", 2}, {"canary", 3}} {
					in := b
					in.Patch, in.FT, in.Status, in.Cursor = patch, ft, st.status, st.cursor
					d.emit(in)
				}
			}
		}
	}
}

// Part 5: BatchReleases, the presence / absence lattice x value sets (style encodings that agree with each other).
func (d *domain) batchRelease(dir string, thorough bool) {
	pairs := [][2]string{{"", "-"}, {"", "partition"}, {"", "canary"}, {"", "bluegreen"}, {"Partition", "partition"}, {"Canary", "canary"}, {"BlueGreen", "bluegreen"}}
	wrefs := []bool{true}
	if dir == "beta" {
		pairs = [][2]string{{"", "-"}, {"Partition", "-"}, {"Canary", "-"}, {"BlueGreen", "-"}, {"Partition", "partition"}, {"Canary", "canary"}, {"BlueGreen", "bluegreen"}}
		wrefs = []bool{true, false} // a struct in v1beta1: absent means the empty reference
	}
	fts, patches, fins := []string{"none", "int"}, []string{"none", "full"}, []string{"", "WaitResume"}
	rids := []string{""}
	statuses := []statusChoice{{"none", 0}, {"full", 1}}
	if thorough {
		fts, patches = []string{"none", "int", "str"}, []string{"none", "empty", "full"}
		rids = []string{"", "rid-1"}
		statuses = append(statuses, statusChoice{"full", 0})
	}
	for _, wref := range wrefs {
		for _, bc := range batchChoices() {
			for _, bp := range []int{NONE, 1} {
				for _, ft := range fts {
					for _, patch := range patches {
						for _, fin := range fins {
							for _, pair := range pairs {
								for _, extra := range []bool{false, true} {
									for _, rid := range rids {
										for _, st := range statuses {
											in := brIn(dir, bc)
											in.Wref, in.BatchPartition, in.FT, in.Patch, in.FinalizingPolicy = wref, bp, ft, patch, fin
											in.SpecStyle, in.StyleAnn, in.EnableExtra, in.RolloutID, in.Status, in.Cursor = pair[0], pair[1], extra, rid, st.status, st.cursor
											d.emit(in)
										}
									}
								}
							}
						}
					}
				}
			}
		}
	}
}

func main() {
	fl := fnlib.ParseFlags()
	w, err := fnlib.NewWriter(fl)
	if err != nil {
		panic(err)
	}
	thorough := fl.Tier == "thorough"
	d := &domain{w: w, count: map[string]int{}}
	d.nilBlocks(thorough)
	d.stylesAndFlags(thorough)
	d.rolloutAlpha(thorough)
	d.rolloutBeta(thorough)
	d.batchRelease("alpha", thorough)
	d.batchRelease("beta", thorough)
	extra := map[string]interface{}{}
	for k, v := range d.count {
		extra["cases_"+strings.ReplaceAll(k, "/", "_")] = v
	}
	w.Close(true, extra)
}
