// fn-advdeploy: explicit-state exploration (BFS, de-duplicated on the abstract state) of the REAL
// built-in advanced deployment controller (pkg/controller/deployment: syncDeployment +
// patchExtraStatus through the verif hook) closed with a simulated ReplicaSet controller and a
// simulated user (property C17).
//
// Abstract state (AdvDeployment.tla): deployment replicas R, partition / maxSurge / maxUnavailable
// (int or percent), the new ReplicaSet (exists?, spec.replicas s, available a, desired-replicas and
// max-replicas annotations d, m) and 1-2 old ReplicaSets (same four numbers each).
//
// Actions
//
//	Sync            one real syncDeployment + patchExtraStatus on concrete objects rebuilt from the
//	                abstract state (fake typed clientset + listers filled from it), followed by the
//	                ReplicaSet controller's reaction to spec changes: status.replicas follows
//	                spec.replicas, a scaled-down ReplicaSet deletes its not-ready pods first
//	                (available' = min(available, spec')).                       -> RECORDED (one case)
//	Converge        only from states whose partition covers R: the fair schedule "Sync, every pod
//	                becomes available" repeated to a fixed point (D5).            -> RECORDED (one case)
//	AvailUp/Down i  one pod of ReplicaSet i becomes available / unavailable      (environment)
//	Scale r         the user sets spec.replicas = r                              (environment)
//	Raise p         the user / BatchRelease raises the partition: strictly more new-revision pods
//	                allowed at the current size, not fewer at any size          (environment)
//
// The state also remembers spec.replicas as of the last sync (r0, invisible to the controller):
// R != r0 means the size is being changed even where the controller's desired-replicas bookkeeping
// cannot see it (no active ReplicaSet); D1-D4 are claimed for the other Sync steps only.
//
// Domain: quick R <= 3; thorough R <= 5 with one old ReplicaSet, R <= 4 with two; partitions
// {0..R, 0%, 34%, 50%, 99%, 100%}; maxSurge / maxUnavailable in {0, 1, 2, 25%, 50%} (not both 0); every
// availability vector; initial states: only old ReplicaSets with R available pods, new revision
// requested.
//
// Every recorded case is self-contained (the concrete objects are rebuilt from "in"), so `-only ID`
// re-runs the same exploration and writes just that case.
package main

import (
	"context"
	"encoding/json"
	"fmt"
	"runtime"
	"runtime/debug"
	"strings"
	"sync"
	"sync/atomic"
	"time"

	appsv1 "k8s.io/api/apps/v1"
	corev1 "k8s.io/api/core/v1"
	metav1 "k8s.io/apimachinery/pkg/apis/meta/v1"
	kruntime "k8s.io/apimachinery/pkg/runtime"
	"k8s.io/apimachinery/pkg/types"
	"k8s.io/apimachinery/pkg/util/intstr"
	"k8s.io/client-go/kubernetes/fake"
	appslisters "k8s.io/client-go/listers/apps/v1"
	"k8s.io/client-go/tools/cache"
	"k8s.io/klog/v2"
	utilpointer "k8s.io/utils/pointer"

	rolloutsv1alpha1 "github.com/openkruise/rollouts/api/v1alpha1"
	"github.com/openkruise/rollouts/pkg/controller/deployment"
	deploymentutil "github.com/openkruise/rollouts/pkg/controller/deployment/util"
	"github.com/openkruise/rollouts/pkg/util"

	"verif/harness/fnlib"
)

// ---------------------------------------------------------------------------------------------
// abstract state

type RS struct {
	S int `json:"s"` // spec.replicas (= status.replicas)
	A int `json:"a"` // status.availableReplicas (= readyReplicas)
	D int `json:"d"` // deployment.kubernetes.io/desired-replicas annotation, -1 = absent
	M int `json:"m"` // deployment.kubernetes.io/max-replicas annotation, -1 = absent
}

type State struct {
	R    int
	Pt   string // "int" | "pct"
	Pv   int
	St   string
	Sv   int
	Ut   string
	Uv   int
	Nx   bool // the new ReplicaSet exists
	N    RS
	Olds []RS
	// R0: spec.replicas as of the last sync. R != R0 = the user has changed the size and no sync has
	// run since (the size is being changed even where the controller's annotation bookkeeping cannot
	// see it); invisible to the controller.
	R0 int
}

func (s State) key() string {
	return fmt.Sprintf("%d|%s%d|%s%d|%s%d|%v|%v|%v|%v", s.R, s.Pt, s.Pv, s.St, s.Sv, s.Ut, s.Uv, s.Nx, s.N, s.Olds, s.R0)
}

func (s State) clone() State {
	c := s
	c.Olds = append([]RS(nil), s.Olds...)
	return c
}

// an inactive ReplicaSet's replicas annotations are dead (nothing reads them before the next
// scale-up rewrites them): canonical form -1/-1 keeps the abstract state small.
func canon(r RS) RS {
	if r.S == 0 {
		r.A, r.D, r.M = 0, -1, -1
	}
	if r.A > r.S {
		r.A = r.S
	}
	return r
}

// rawCanon: the ReplicaSet controller has NOT reacted yet: status.availableReplicas keeps its old value
// even where it exceeds the new spec.replicas (a stale status, as the informer cache shows it right
// after the deployment controller's own write)
func rawCanon(r RS) RS {
	if r.S == 0 {
		r.A, r.D, r.M = 0, -1, -1
	}
	return r
}

func stale(s State) bool {
	for _, o := range s.Olds {
		if o.A > o.S {
			return true
		}
	}
	return s.Nx && s.N.A > s.N.S
}

type IOS struct {
	T string
	V int
}

func ios(t string, v int) intstr.IntOrString {
	if t == "pct" {
		return intstr.FromString(fmt.Sprintf("%d%%", v))
	}
	return intstr.FromInt(v)
}

// ---------------------------------------------------------------------------------------------
// concrete world

const (
	ns    = "default"
	dname = "demo"
)

var t0 = time.Date(2024, 1, 1, 0, 0, 0, 0, time.UTC)

type nopRecorder struct{}

func (nopRecorder) Event(kruntime.Object, string, string, string)                  {}
func (nopRecorder) Eventf(kruntime.Object, string, string, string, ...interface{}) {}
func (nopRecorder) AnnotatedEventf(kruntime.Object, map[string]string, string, string, string, ...interface{}) {
}

func strategyOf(s State) rolloutsv1alpha1.DeploymentStrategy {
	sg, un := ios(s.St, s.Sv), ios(s.Ut, s.Uv)
	return rolloutsv1alpha1.DeploymentStrategy{
		RollingStyle:  rolloutsv1alpha1.PartitionRollingStyle,
		RollingUpdate: &appsv1.RollingUpdateDeployment{MaxUnavailable: &un, MaxSurge: &sg},
		Paused:        false,
		Partition:     ios(s.Pt, s.Pv),
	}
}

func template(image string) corev1.PodTemplateSpec {
	return corev1.PodTemplateSpec{
		ObjectMeta: metav1.ObjectMeta{Labels: map[string]string{"app": dname}},
		Spec:       corev1.PodSpec{Containers: []corev1.Container{{Name: "main", Image: image}}},
	}
}

func buildDeployment(s State) *appsv1.Deployment {
	st := strategyOf(s)
	sb, _ := json.Marshal(&st)
	newRev := fmt.Sprintf("%d", len(s.Olds)+1)
	d := &appsv1.Deployment{
		ObjectMeta: metav1.ObjectMeta{
			Namespace: ns, Name: dname, UID: types.UID("demo-uid"), Generation: 1,
			CreationTimestamp: metav1.NewTime(t0),
			Labels:            map[string]string{"app": dname, rolloutsv1alpha1.AdvancedDeploymentControlLabel: "true"},
			Annotations: map[string]string{
				util.BatchReleaseControlAnnotation:            `{"apiVersion":"rollouts.kruise.io/v1beta1","kind":"BatchRelease","name":"demo","uid":"br-uid","controller":true,"blockOwnerDeletion":true}`,
				rolloutsv1alpha1.DeploymentStrategyAnnotation: string(sb),
			},
		},
		Spec: appsv1.DeploymentSpec{
			Replicas: utilpointer.Int32(int32(s.R)),
			Paused:   true,
			Strategy: appsv1.DeploymentStrategy{Type: appsv1.RecreateDeploymentStrategyType},
			Selector: &metav1.LabelSelector{MatchLabels: map[string]string{"app": dname}},
			Template: template(fmt.Sprintf("demo:v%d", len(s.Olds)+1)),
		},
	}
	if s.Nx {
		// steady state: revision and extra status as the previous sync of this very state left them
		d.Annotations[deploymentutil.RevisionAnnotation] = newRev
		eb, _ := json.Marshal(&rolloutsv1alpha1.DeploymentExtraStatus{UpdatedReadyReplicas: int32(s.N.A),
			ExpectedUpdatedReplicas: deploymentutil.NewRSReplicasLimit(st.Partition, d)})
		d.Annotations[rolloutsv1alpha1.DeploymentExtraStatusAnnotation] = string(eb)
	}
	return d
}

func buildRS(d *appsv1.Deployment, name string, idx int, r RS, tmpl corev1.PodTemplateSpec, copyAnno bool) *appsv1.ReplicaSet {
	tmpl = *tmpl.DeepCopy()
	tmpl.Labels[appsv1.DefaultDeploymentUniqueLabelKey] = name
	rs := &appsv1.ReplicaSet{
		ObjectMeta: metav1.ObjectMeta{
			Namespace: ns, Name: name, UID: types.UID(name + "-uid"), Generation: 1,
			CreationTimestamp: metav1.NewTime(t0.Add(time.Duration(idx) * time.Hour)),
			Labels:            tmpl.Labels,
			OwnerReferences:   []metav1.OwnerReference{*metav1.NewControllerRef(d, appsv1.SchemeGroupVersion.WithKind("Deployment"))},
			Annotations:       map[string]string{deploymentutil.RevisionAnnotation: fmt.Sprintf("%d", idx)},
		},
		Spec: appsv1.ReplicaSetSpec{
			Replicas: utilpointer.Int32(int32(r.S)),
			Selector: &metav1.LabelSelector{MatchLabels: tmpl.Labels},
			Template: tmpl,
		},
		Status: appsv1.ReplicaSetStatus{Replicas: int32(maxInt(r.S, r.A)), FullyLabeledReplicas: int32(maxInt(r.S, r.A)), ReadyReplicas: int32(r.A), AvailableReplicas: int32(r.A), ObservedGeneration: 1},
	}
	if copyAnno {
		// steady state: the controller has already copied the deployment's annotations to its new RS
		for k, v := range d.Annotations {
			if k != deploymentutil.RevisionAnnotation {
				rs.Annotations[k] = v
			}
		}
	}
	if r.D >= 0 {
		rs.Annotations[deploymentutil.ReplicasAnnotation] = fmt.Sprintf("%d", r.D)
	}
	if r.M >= 0 {
		rs.Annotations[deploymentutil.MaxReplicasAnnotation] = fmt.Sprintf("%d", r.M)
	}
	return rs
}

func maxInt(a, b int) int {
	if a > b {
		return a
	}
	return b
}

func oldName(i int) string { return fmt.Sprintf("demo-old%d", i+1) }

type syncRes struct {
	post  State
	err   string
	panic string
}

func annoInt(rs *appsv1.ReplicaSet, k string) int {
	v, ok := rs.Annotations[k]
	if !ok {
		return -1
	}
	n := -1
	fmt.Sscanf(v, "%d", &n)
	return n
}

// realSync: one real syncDeployment + patchExtraStatus on the concrete image of s, then the
// ReplicaSet controller's reaction, projected back.
func realSync(s State, raw bool) (res syncRes) {
	canon := canon
	if raw {
		canon = rawCanon
	}
	res.post = s.clone()
	defer func() {
		if r := recover(); r != nil {
			var keep []string
			for _, l := range strings.Split(string(debug.Stack()), "\n") {
				if strings.Contains(l, "openkruise/rollouts") {
					keep = append(keep, strings.TrimSpace(l))
				}
				if len(keep) >= 6 {
					break
				}
			}
			res.panic = fmt.Sprintf("%v | %s", r, strings.Join(keep, " | "))
		}
	}()
	d := buildDeployment(s)
	objs := []kruntime.Object{d}
	for i, o := range s.Olds {
		objs = append(objs, buildRS(d, oldName(i), i+1, o, template(fmt.Sprintf("demo:v%d", i+1)), false))
	}
	if s.Nx {
		objs = append(objs, buildRS(d, "demo-new", len(s.Olds)+1, s.N, d.Spec.Template, true))
	}
	cs := fake.NewSimpleClientset(objs...)
	dIdx := cache.NewIndexer(cache.MetaNamespaceKeyFunc, cache.Indexers{cache.NamespaceIndex: cache.MetaNamespaceIndexFunc})
	rsIdx := cache.NewIndexer(cache.MetaNamespaceKeyFunc, cache.Indexers{cache.NamespaceIndex: cache.MetaNamespaceIndexFunc})
	// listers are (re)filled from the clientset right before the sync (informer cache = API server)
	dl, err := cs.AppsV1().Deployments(ns).List(context.TODO(), metav1.ListOptions{})
	if err != nil {
		res.err = err.Error()
		return
	}
	for i := range dl.Items {
		dIdx.Add(dl.Items[i].DeepCopy())
	}
	rl, err := cs.AppsV1().ReplicaSets(ns).List(context.TODO(), metav1.ListOptions{})
	if err != nil {
		res.err = err.Error()
		return
	}
	for i := range rl.Items {
		rsIdx.Add(rl.Items[i].DeepCopy())
	}
	dLister := appslisters.NewDeploymentLister(dIdx)
	cur, err := dLister.Deployments(ns).Get(dname)
	if err != nil {
		res.err = err.Error()
		return
	}
	dc := deployment.NewControllerForVerif(cs, dLister, appslisters.NewReplicaSetLister(rsIdx), nopRecorder{}, cur)
	if dc == nil {
		res.err = "deployment is not under the advanced deployment controller's control"
		return
	}
	if err := dc.SyncForVerif(cur.DeepCopy()); err != nil {
		res.err = err.Error()
	}
	// projection
	after, err := cs.AppsV1().ReplicaSets(ns).List(context.TODO(), metav1.ListOptions{})
	if err != nil {
		res.err += " | list: " + err.Error()
		return
	}
	post := s.clone()
	seenNew := 0
	for i := range after.Items {
		rs := &after.Items[i]
		pr := RS{S: int(*rs.Spec.Replicas), D: annoInt(rs, deploymentutil.ReplicasAnnotation), M: annoInt(rs, deploymentutil.MaxReplicasAnnotation)}
		isOld := false
		for j := range s.Olds {
			if rs.Name == oldName(j) {
				pr.A = s.Olds[j].A
				post.Olds[j] = canon(pr)
				isOld = true
			}
		}
		if isOld {
			continue
		}
		seenNew++
		if s.Nx {
			pr.A = s.N.A
		}
		post.Nx = true
		post.N = canon(pr)
	}
	if seenNew > 1 {
		res.err += fmt.Sprintf(" | %d new ReplicaSets", seenNew)
	}
	res.post = post
	return
}

// memo of the real Sync per controller-visible state (the real Sync is a function of it); shared by
// the worker goroutines, results do not depend on the schedule.
var memo sync.Map
var realSyncs int64

func syncOf(s State) syncRes {
	s.R0 = s.R // not visible to the controller; every sync ends a pending size change
	k := s.key()
	if r, ok := memo.Load(k); ok {
		return r.(syncRes)
	}
	r := realSync(s, false)
	atomic.AddInt64(&realSyncs, 1)
	memo.Store(k, r)
	return r
}

// syncRawOf: the real Sync WITHOUT the ReplicaSet controller's reaction (the next sync sees stale statuses)
func syncRawOf(s State) syncRes {
	s.R0 = s.R
	k := "raw|" + s.key()
	if r, ok := memo.Load(k); ok {
		return r.(syncRes)
	}
	r := realSync(s, true)
	atomic.AddInt64(&realSyncs, 1)
	memo.Store(k, r)
	return r
}

// staleRuns: 2 and 3 back-to-back real Syncs during which the ReplicaSet controller has not reacted
// (every sync but the first sees the spec.replicas it wrote and the OLD statuses), followed by the
// reaction. Only for a deployment whose size is not being changed, and only while a status is stale.
type staleRun struct {
	act string
	res syncRes
}

func resizing(s State) bool {
	if s.R != s.R0 {
		return true
	}
	all := append(append([]RS(nil), s.Olds...), s.N)
	for j, r := range all {
		if j == len(s.Olds) && !s.Nx {
			break
		}
		if r.S > 0 && r.D >= 0 && r.D != s.R {
			return true
		}
	}
	return false
}

func staleRuns(s State) (out []staleRun) {
	if resizing(s) {
		return nil
	}
	cur := s
	for k := 2; k <= 3; k++ {
		m := syncRawOf(cur)
		if m.panic != "" || m.err != "" || !stale(m.post) || resizing(m.post) {
			return
		}
		out = append(out, staleRun{act: fmt.Sprintf("Sync%d", k), res: syncOf(m.post)})
		cur = m.post
	}
	return
}

type convRes struct {
	on    bool
	fix   bool
	steps int
	last  syncRes
}

// converge: the fair schedule (Sync, every pod becomes available) repeated to a fixed point
func converge(s State) convRes {
	cur, c := s.clone(), convRes{on: true}
	cur.R0 = cur.R
	budget := 6*(s.R+4) + 10
	for c.steps < budget {
		c.last = syncOf(cur)
		if c.last.panic != "" || c.last.err != "" {
			break
		}
		c.steps++
		nxt := allAvailable(c.last.post)
		if nxt.key() == cur.key() {
			c.fix = true
			break
		}
		cur = nxt
	}
	c.last.post = cur
	return c
}

func allAvailable(s State) State {
	c := s.clone()
	c.N.A = c.N.S
	for i := range c.Olds {
		c.Olds[i].A = c.Olds[i].S
	}
	return c
}

// the real arithmetic on the concrete image (reported in "in"; the predicates use the TLA+ definitions,
// a difference is drift)
func derived(s State) (L, surge, unav int) {
	d := &appsv1.Deployment{Spec: appsv1.DeploymentSpec{Replicas: utilpointer.Int32(int32(s.R))}}
	st := strategyOf(s)
	return int(deploymentutil.NewRSReplicasLimit(st.Partition, d)), int(deploymentutil.MaxSurge(d, &st)), int(deploymentutil.MaxUnavailable(d, &st))
}

// the real NewRSReplicasLimit of s's partition at deployment size r
func limitAt(s State, r int) int {
	d := &appsv1.Deployment{Spec: appsv1.DeploymentSpec{Replicas: utilpointer.Int32(int32(r))}}
	return int(deploymentutil.NewRSReplicasLimit(ios(s.Pt, s.Pv), d))
}

// ---------------------------------------------------------------------------------------------
// exploration

type node struct {
	s      State
	parent int
	act    string
	depth  int
}

func rsJSON(r RS) map[string]interface{} {
	return map[string]interface{}{"s": r.S, "a": r.A, "d": r.D, "m": r.M}
}

func oldsJSON(o []RS) []interface{} {
	out := make([]interface{}, 0, len(o))
	for _, r := range o {
		out = append(out, rsJSON(r))
	}
	return out
}

func main() {
	fl := fnlib.ParseFlags()
	klog.SetOutput(devNull{})
	klog.LogToStderr(false)
	w, err := fnlib.NewWriter(fl)
	if err != nil {
		panic(err)
	}
	// deployment sizes 1..rmax with one old ReplicaSet, 1..rmax2 with two old ReplicaSets
	rmax, rmax2 := 3, 3
	if fl.Tier == "thorough" {
		rmax, rmax2 = 5, 4
	}
	rcap := func(s State) int {
		if len(s.Olds) >= 2 {
			return rmax2
		}
		return rmax
	}
	debug.SetGCPercent(200)
	pcts := []int{0, 34, 50, 99, 100}
	fences := []IOS{{"int", 0}, {"int", 1}, {"int", 2}, {"pct", 25}, {"pct", 50}}
	partitions := func(r int) []IOS {
		var ps []IOS
		for k := 0; k <= r; k++ {
			ps = append(ps, IOS{"int", k})
		}
		for _, p := range pcts {
			ps = append(ps, IOS{"pct", p})
		}
		return ps
	}

	var nodes []node
	index := map[string]int{}
	add := func(s State, parent int, act string) {
		k := s.key()
		if _, ok := index[k]; ok {
			return
		}
		depth := 0
		if parent >= 0 {
			depth = nodes[parent].depth + 1
		}
		index[k] = len(nodes)
		nodes = append(nodes, node{s: s, parent: parent, act: act, depth: depth})
	}
	pathOf := func(i int) string {
		var p []string
		for i >= 0 && nodes[i].parent >= 0 {
			p = append(p, nodes[i].act)
			i = nodes[i].parent
		}
		for a, b := 0, len(p)-1; a < b; a, b = a+1, b-1 {
			p[a], p[b] = p[b], p[a]
		}
		return strings.Join(p, ",")
	}

	// initial states: only old ReplicaSets, R available pods, the new revision has just been requested
	for R := 1; R <= rmax; R++ {
		for _, p := range partitions(R) {
			for _, sg := range fences {
				for _, un := range fences {
					if sg.T == "int" && sg.V == 0 && un.T == "int" && un.V == 0 {
						continue
					}
					base := State{R: R, R0: R, Pt: p.T, Pv: p.V, St: sg.T, Sv: sg.V, Ut: un.T, Uv: un.V, N: RS{0, 0, -1, -1}}
					_, surge, _ := derived(base)
					one := base.clone()
					one.Olds = []RS{{S: R, A: R, D: R, M: R + surge}}
					add(one, -1, "")
					for k := 1; k < R && R <= rmax2; k++ {
						two := base.clone()
						two.Olds = []RS{{S: k, A: k, D: R, M: R + surge}, {S: R - k, A: R - k, D: R, M: R + surge}}
						add(two, -1, "")
					}
				}
			}
		}
	}
	initial := len(nodes)

	counts := map[string]int{}
	cases := 0
	record := func(i int, act string, in map[string]interface{}, out map[string]interface{}, r syncRes) {
		cases++
		counts[act]++
		w.Run(in, func() (interface{}, error) {
			if r.panic != "" {
				panic(r.panic)
			}
			if r.err != "" {
				return out, fmt.Errorf("%s", r.err)
			}
			return out, nil
		})
	}
	inOf := func(i int, act string) map[string]interface{} {
		s := nodes[i].s
		L, surge, unav := derived(s)
		// the controller's own bookkeeping (isScalingEvent) and the number of active ReplicaSets, for
		// reading and for known-finding signatures; the predicates recompute both in TLA+
		scaling, active, oldsum := false, 0, 0
		for j, r := range append(append([]RS(nil), s.Olds...), s.N) {
			if j == len(s.Olds) && !s.Nx {
				break
			}
			if r.S > 0 {
				active++
				if r.D >= 0 && r.D != s.R {
					scaling = true
				}
			}
			if j < len(s.Olds) {
				oldsum += r.S
			}
		}
		return map[string]interface{}{"act": act, "r0": s.R0, "pend": s.R != s.R0, "scaling": scaling, "active": active, "oldsum": oldsum, "R": s.R, "pt": s.Pt, "pv": s.Pv, "st": s.St, "sv": s.Sv, "ut": s.Ut, "uv": s.Uv,
			"nx": s.Nx, "n": rsJSON(s.N), "olds": oldsJSON(s.Olds), "nold": len(s.Olds), "L": L, "surge": surge, "unav": unav,
			"depth": nodes[i].depth, "path": pathOf(i)}
	}
	outOf := func(p State, fix bool, steps int) map[string]interface{} {
		return map[string]interface{}{"nx": p.Nx, "n": rsJSON(p.N), "olds": oldsJSON(p.Olds), "fix": fix, "steps": steps}
	}

	maxDepth := 0
	explore := func(i int, r syncRes, cv convRes, sr []staleRun) {
		s := nodes[i].s
		if nodes[i].depth > maxDepth {
			maxDepth = nodes[i].depth
		}
		// Sync: the real controller
		record(i, "Sync", inOf(i, "Sync"), outOf(r.post, false, 0), r)
		if r.panic == "" {
			add(r.post, i, "Sync")
		}
		// Sync2 / Sync3: back-to-back real Syncs on stale ReplicaSet statuses
		for _, x := range sr {
			record(i, x.act, inOf(i, x.act), outOf(x.res.post, false, 0), x.res)
			if x.res.panic == "" {
				add(x.res.post, i, x.act)
			}
		}
		// Converge (D5): fair schedule to a fixed point when the partition covers every replica
		if cv.on {
			record(i, "Converge", inOf(i, "Converge"), outOf(cv.last.post, cv.fix, cv.steps), cv.last)
		}
		// environment: ReplicaSet controller / kubelet
		if s.Nx {
			if s.N.A < s.N.S {
				c := s.clone()
				c.N.A++
				add(c, i, "Up:new")
			}
			if s.N.A > 0 {
				c := s.clone()
				c.N.A--
				add(c, i, "Down:new")
			}
		}
		for j := range s.Olds {
			if s.Olds[j].A < s.Olds[j].S {
				c := s.clone()
				c.Olds[j].A++
				add(c, i, fmt.Sprintf("Up:old%d", j+1))
			}
			if s.Olds[j].A > 0 {
				c := s.clone()
				c.Olds[j].A--
				add(c, i, fmt.Sprintf("Down:old%d", j+1))
			}
		}
		// environment: the user scales the deployment
		for r2 := 1; r2 <= rcap(s); r2++ {
			if r2 != s.R {
				c := s.clone()
				c.R = r2
				add(c, i, fmt.Sprintf("Scale:%d", r2))
			}
		}
		// environment: the partition is raised: strictly more new-revision pods allowed at the current
		// size and not fewer at any size of the domain
		for _, p := range partitions(s.R) {
			c := s.clone()
			c.Pt, c.Pv = p.T, p.V
			raise := limitAt(c, s.R) > limitAt(s, s.R)
			for r := 1; r <= rmax && raise; r++ {
				raise = limitAt(c, r) >= limitAt(s, r)
			}
			if raise {
				add(c, i, fmt.Sprintf("Raise:%s%d", p.T, p.V))
			}
		}
	}
	workers := runtime.NumCPU()
	if workers > 12 {
		workers = 12
	}
	type pre struct {
		sync  syncRes
		conv  convRes
		stale []staleRun
	}
	lo := 0
	for lo < len(nodes) && !(fl.Only != 0 && cases >= fl.Only) {
		// one BFS level: the real Syncs (and convergence runs) of the whole frontier in parallel, then a
		// sequential, order-preserving merge (case ids and outputs do not depend on the schedule)
		hi := len(nodes)
		res := make([]pre, hi-lo)
		var wg sync.WaitGroup
		var next int64 = int64(lo) - 1
		for g := 0; g < workers; g++ {
			wg.Add(1)
			go func() {
				defer wg.Done()
				for {
					i := int(atomic.AddInt64(&next, 1))
					if i >= hi {
						return
					}
					s := nodes[i].s
					res[i-lo].sync = syncOf(s)
					res[i-lo].stale = staleRuns(s)
					if L, _, _ := derived(s); L == s.R {
						res[i-lo].conv = converge(s)
					}
				}
			}()
		}
		wg.Wait()
		for i := lo; i < hi; i++ {
			if fl.Only != 0 && cases >= fl.Only {
				break
			}
			explore(i, res[i-lo].sync, res[i-lo].conv, res[i-lo].stale)
		}
		lo = hi
	}
	w.Close(fl.Only == 0, map[string]interface{}{"rmax": rmax, "states": len(nodes), "initial_states": initial, "max_depth": maxDepth,
		"rmax_two_old": rmax2, "cases_by_action": counts, "real_syncs": realSyncs})
}

type devNull struct{}

func (devNull) Write(p []byte) (int, error) { return len(p), nil }
