// fn-webhook: the real workload mutating admission handlers (WorkloadHandler.Handle for Deployment /
// CloneSet / Advanced DaemonSet, UnifiedWorkloadHandler.Handle for StatefulSet-like workloads) over a
// structured bounded domain of (old, new) workload pairs x sets of Rollouts in the namespace
// (property C08). Every case builds the concrete objects as raw JSON (so nil / empty maps and absent
// strategy blocks reach the handler as a user would submit them), passes the update through the real
// handler with sim.Admit (patches applied) and projects the submitted and the admitted object to the
// abstract record of spec/Webhook.tla.
package main

import (
	"context"
	"encoding/json"
	"fmt"
	"math/rand"
	"reflect"
	"runtime/debug"
	"sort"
	"strings"

	"github.com/openkruise/rollouts/api/v1alpha1"
	"github.com/openkruise/rollouts/api/v1beta1"
	"github.com/openkruise/rollouts/pkg/util"
	admissionregistrationv1 "k8s.io/api/admissionregistration/v1"
	apps "k8s.io/api/apps/v1"
	corev1 "k8s.io/api/core/v1"
	metav1 "k8s.io/apimachinery/pkg/apis/meta/v1"
	"k8s.io/apimachinery/pkg/apis/meta/v1/unstructured"
	"k8s.io/apimachinery/pkg/runtime/schema"
	"k8s.io/apimachinery/pkg/types"
	"k8s.io/apimachinery/pkg/util/intstr"
	utilpointer "k8s.io/utils/pointer"

	"verif/harness/fnlib"
	"verif/harness/sim"
)

const (
	ns    = "default"
	wname = "demo"
	wuid  = "wl-uid-0001"
)

type kindInfo struct {
	name      string // abstract kind
	gvk       schema.GroupVersionKind
	resource  string
	unified   bool
	typeLabel string
}

var kinds = map[string]kindInfo{
	"Deployment":          {"Deployment", schema.GroupVersionKind{Group: "apps", Version: "v1", Kind: "Deployment"}, "deployments", false, "deployment"},
	"CloneSet":            {"CloneSet", schema.GroupVersionKind{Group: "apps.kruise.io", Version: "v1alpha1", Kind: "CloneSet"}, "clonesets", false, "cloneset"},
	"DaemonSet":           {"DaemonSet", schema.GroupVersionKind{Group: "apps.kruise.io", Version: "v1alpha1", Kind: "DaemonSet"}, "daemonsets", false, "daemonset"},
	"StatefulSet":         {"StatefulSet", schema.GroupVersionKind{Group: "apps", Version: "v1", Kind: "StatefulSet"}, "statefulsets", true, "statefulset"},
	"AdvancedStatefulSet": {"AdvancedStatefulSet", schema.GroupVersionKind{Group: "apps.kruise.io", Version: "v1beta1", Kind: "StatefulSet"}, "statefulsets", true, "statefulset"},
	"CustomSet":           {"CustomSet", schema.GroupVersionKind{Group: "apps.example.io", Version: "v1", Kind: "CustomSet"}, "customsets", true, "statefulset"},
}

// P is one point of the abstract domain (the dimensions); Input adds the derived parts.
type P struct {
	Fam      string // enumeration family (information only)
	Kind     string
	Labels   string // nil | empty | other | sel | selother   (shape of metadata.labels; sel* carry the webhook's selector label)
	Annos    string // nil | empty | other                    (shape of the user's own annotations)
	Replicas int    // -1 absent | n   (DaemonSet: status.desiredNumberScheduled)
	OldID    string
	NewID    string
	Tmpl     string // same | hash | changed | anno | label
	Marker   string // none | own | other     (in-progress annotation already on old and new)
	Paused   bool   // Deployment spec.paused of the submitted object
	Strategy string // kind specific shape of the (update) strategy block
	Style    string // Deployment: none | canary | partition | bluegreen (annotations of a release in progress)
	Roset    string // "+"-joined rollout archetypes present in the namespace
	Rs       int    // Deployment: active owned ReplicaSets
	RsExtra  int    // Deployment: 0 none | 1 an owned ReplicaSet scaled to 0 | 2 a foreign ReplicaSet | 3 both
	Single   bool   // status reports a single revision (Deployment: Rs == 1)
	Extra    bool   // additional unrelated fields (finalizers, minReadySeconds, ...)
	Unready  bool   // CloneSet: one pod of the (single) revision is not ready: readiness must not matter
}

// Ro is the abstract view of one Rollout of the namespace list, in API list order.
type Ro struct {
	Name     string `json:"name"`
	Match    bool   `json:"match"`    // same namespace, workloadRef = (group, kind, name) of the workload
	Deleting bool   `json:"deleting"` // deletionTimestamp set
	Disabled bool   `json:"disabled"` // status.phase Disabled
	Empty    bool   `json:"empty"`    // neither canary nor blueGreen strategy
	Traffic  bool   `json:"traffic"`  // traffic routing configured
}

// Proj is the abstract view of a workload object (submitted: in.cur, admitted: out).
type Proj struct {
	Paused   bool   `json:"paused"`
	PartType string `json:"partType"` // none | int | str
	PartInt  int    `json:"partInt"`
	PartStr  string `json:"partStr"`
	Marker   string `json:"marker"` // rolloutName of the in-progress annotation, "" absent, "?" unparsable
}

type Input struct {
	Fam      string `json:"fam"`
	Kind     string `json:"kind"`
	Labels   string `json:"labels"`
	Annos    string `json:"annos"`
	Replicas int    `json:"replicas"`
	OldID    string `json:"oldId"`
	NewID    string `json:"newId"`
	Tmpl     string `json:"tmpl"`
	Marker   string `json:"marker"`
	Paused   bool   `json:"paused"`
	Strategy string `json:"strategy"`
	Style    string `json:"style"`
	Roset    string `json:"roset"`
	Ros      []Ro   `json:"ros"`
	Rs       int    `json:"rs"`
	RsExtra  int    `json:"rsExtra"`
	Single   bool   `json:"single"`
	Extra    bool   `json:"extra"`
	Unready  bool   `json:"unready"`
	Cur      Proj   `json:"cur"`
}

type M = map[string]interface{}

// ---------------------------------------------------------------------------------------------
// Rollouts of the namespace

var archetypes = []string{"deleting", "disabled", "othername", "otherkind", "otherns", "badref", "canary", "traffic", "bluegreen", "bgtraffic", "empty", "emptylate", "otherver"}

// names are chosen so that the list order (by name) puts the Rollouts that must be skipped first
var archeName = map[string]string{
	"empty": "r0-empty", "deleting": "r1-deleting", "disabled": "r2-disabled", "othername": "r3-othername", "otherkind": "r3-otherkind",
	"otherns": "r3-otherns", "badref": "r3-badref", "canary": "r4-canary", "traffic": "r5-traffic", "bluegreen": "r6-bluegreen",
	"bgtraffic": "r7-bgtraffic", "emptylate": "r8-empty", "otherver": "r4-otherver",
}

func mkRollout(k kindInfo, arche string) (*v1beta1.Rollout, Ro) {
	ro := &v1beta1.Rollout{
		ObjectMeta: metav1.ObjectMeta{Namespace: ns, Name: archeName[arche]},
		Spec: v1beta1.RolloutSpec{
			WorkloadRef: v1beta1.ObjectRef{APIVersion: k.gvk.GroupVersion().String(), Kind: k.gvk.Kind, Name: wname},
		},
	}
	ab := Ro{Name: ro.Name, Match: true}
	s20, s100 := intstr.FromString("20%"), intstr.FromString("100%")
	steps := []v1beta1.CanaryStep{{Replicas: &s20}, {Replicas: &s100}}
	tr := []v1beta1.TrafficRoutingRef{{Service: wname, Ingress: &v1beta1.IngressTrafficRouting{Name: wname}}}
	canary := func(traffic bool) {
		ro.Spec.Strategy.Canary = &v1beta1.CanaryStrategy{Steps: steps, EnableExtraWorkloadForCanary: k.name == "Deployment" && traffic}
		if traffic {
			ro.Spec.Strategy.Canary.TrafficRoutings = tr
		}
	}
	switch arche {
	case "canary":
		canary(false)
	case "traffic":
		canary(true)
		ab.Traffic = true
	case "bluegreen":
		ro.Spec.Strategy.BlueGreen = &v1beta1.BlueGreenStrategy{Steps: steps}
	case "bgtraffic":
		ro.Spec.Strategy.BlueGreen = &v1beta1.BlueGreenStrategy{Steps: steps, TrafficRoutings: tr}
		ab.Traffic = true
	case "empty", "emptylate":
		ab.Empty = true
	case "deleting":
		canary(false)
		ro.Finalizers = []string{"rollouts.kruise.io/rollout"}
		ab.Deleting = true
	case "disabled":
		canary(false)
		ro.Spec.Disabled = true
		ro.Status.Phase = v1beta1.RolloutPhaseDisabled
		ab.Disabled = true
	case "otherver": // the reference names another served version of the same group: still THE Rollout of the workload
		canary(false)
		gv := k.gvk.GroupVersion()
		if gv.Version == "v1beta1" {
			gv.Version = "v1alpha1"
		} else {
			gv.Version = "v1beta1"
		}
		ro.Spec.WorkloadRef.APIVersion = gv.String()
	case "othername":
		canary(false)
		ro.Spec.WorkloadRef.Name = "other"
		ab.Match = false
	case "otherkind":
		canary(false)
		ab.Match = false
		switch k.name {
		case "StatefulSet": // same kind, other group
			ro.Spec.WorkloadRef.APIVersion = "apps.kruise.io/v1beta1"
		case "AdvancedStatefulSet":
			ro.Spec.WorkloadRef.APIVersion = "apps/v1"
		case "Deployment": // same group, other kind
			ro.Spec.WorkloadRef.Kind = "StatefulSet"
		default:
			ro.Spec.WorkloadRef.APIVersion, ro.Spec.WorkloadRef.Kind = "apps/v1", "Deployment"
		}
	case "otherns":
		canary(false)
		ro.Namespace = "elsewhere"
		ab.Match = false
	case "badref":
		canary(false)
		ro.Spec.WorkloadRef.APIVersion = "a/b/c"
		ab.Match = false
	default:
		panic("unknown archetype " + arche)
	}
	return ro, ab
}

func splitSet(roset string) []string {
	if roset == "" {
		return nil
	}
	return strings.Split(roset, "+")
}

// abstract list of the Rollouts a namespaced List returns (sorted by name; other namespaces are not listed
// but kept in the abstract list as non-matching so that the input shows them)
var rosCache = map[string][]Ro{}

func abstractRos(k kindInfo, roset string) []Ro {
	key := k.name + "|" + roset
	if r, ok := rosCache[key]; ok {
		return r
	}
	out := []Ro{}
	for _, a := range splitSet(roset) {
		_, ab := mkRollout(k, a)
		out = append(out, ab)
	}
	sort.SliceStable(out, func(i, j int) bool { return out[i].Name < out[j].Name })
	rosCache[key] = out
	return out
}

var storeCache = map[string]*sim.Store{}

func storeFor(k kindInfo, roset string, rs, rsExtra int) *sim.Store {
	key := fmt.Sprintf("%s|%s|%d|%d", k.name, roset, rs, rsExtra)
	if s, ok := storeCache[key]; ok {
		return s
	}
	if len(storeCache) > 4000 {
		storeCache = map[string]*sim.Store{}
	}
	s := sim.NewStore(sim.GlobalScheme())
	upd := admissionregistrationv1.Update
	must(s.Put(&admissionregistrationv1.MutatingWebhookConfiguration{
		ObjectMeta: metav1.ObjectMeta{Name: "kruise-rollout-mutating-webhook-configuration"},
		Webhooks: []admissionregistrationv1.MutatingWebhook{{
			Name: "mworkload.kb.io",
			ObjectSelector: &metav1.LabelSelector{MatchExpressions: []metav1.LabelSelectorRequirement{{
				Key: util.WorkloadTypeLabel, Operator: metav1.LabelSelectorOpExists}}},
			Rules: []admissionregistrationv1.RuleWithOperations{{
				Operations: []admissionregistrationv1.OperationType{upd},
				Rule:       admissionregistrationv1.Rule{APIGroups: []string{"*"}, APIVersions: []string{"*"}, Resources: []string{"*"}},
			}},
		}},
	}))
	for _, a := range splitSet(roset) {
		ro, ab := mkRollout(k, a)
		must(s.Put(ro))
		if ab.Deleting {
			must(s.Delete(context.TODO(), ro))
		}
	}
	if k.name == "Deployment" {
		mkRS := func(name, image, rev string, replicas int32, owner string) {
			ctrl := true
			must(s.Put(&apps.ReplicaSet{
				ObjectMeta: metav1.ObjectMeta{Namespace: ns, Name: name, Labels: map[string]string{"app": wname, "pod-template-hash": "hash-" + rev},
					Annotations:     map[string]string{util.DeploymentRevisionAnnotation: rev},
					OwnerReferences: []metav1.OwnerReference{{APIVersion: "apps/v1", Kind: "Deployment", Name: wname, UID: types.UID(owner), Controller: &ctrl}}},
				Spec: apps.ReplicaSetSpec{Replicas: utilpointer.Int32(replicas), Selector: &metav1.LabelSelector{MatchLabels: map[string]string{"app": wname, "pod-template-hash": "hash-" + rev}},
					Template: corev1.PodTemplateSpec{ObjectMeta: metav1.ObjectMeta{Labels: map[string]string{"app": wname, "pod-template-hash": "hash-" + rev}},
						Spec: corev1.PodSpec{Containers: []corev1.Container{{Name: "main", Image: image}}}}},
				Status: apps.ReplicaSetStatus{Replicas: replicas, ReadyReplicas: replicas, AvailableReplicas: replicas},
			}))
		}
		if rs >= 2 {
			mkRS("demo-rs1", "img:v0", "1", 2, wuid)
		}
		if rs >= 1 {
			mkRS("demo-rs2", "img:v1", "2", 3, wuid) // the template of the old object
		}
		if rsExtra&1 != 0 {
			mkRS("demo-rs0", "img:vz", "0", 0, wuid)
		}
		if rsExtra&2 != 0 {
			mkRS("foreign-rs", "img:v1", "7", 3, "someone-else")
		}
	}
	storeCache[key] = s
	return s
}

func must(err error) {
	if err != nil {
		panic(err)
	}
}

// ---------------------------------------------------------------------------------------------
// concrete workload objects (raw JSON maps)

func template(tmpl string, old bool) M {
	labels := M{"app": wname}
	annos := M{}
	image := "img:v1"
	if !old {
		switch tmpl {
		case "hash":
			labels["pod-template-hash"] = "hash-2"
		case "changed":
			image = "img:v2"
		case "anno":
			annos["build"] = "42"
		case "label":
			labels["track"] = "new"
		}
	}
	md := M{"labels": labels}
	if len(annos) > 0 {
		md["annotations"] = annos
	}
	return M{"metadata": md, "spec": M{"containers": []interface{}{M{"name": "main", "image": image}}}}
}

func markerName(p P, ros []Ro) string {
	switch p.Marker {
	case "own":
		for _, r := range ros {
			if r.Match && !r.Deleting && !r.Disabled {
				return r.Name
			}
		}
		return archeName["canary"]
	case "other":
		return "zz-other"
	}
	return ""
}

func buildObject(p P, k kindInfo, ros []Ro, old bool) M {
	md := M{"name": wname, "namespace": ns, "uid": wuid, "generation": int64(2), "resourceVersion": "5", "creationTimestamp": "2026-01-01T00:00:00Z"}
	// labels
	var labels M
	switch p.Labels {
	case "empty":
		labels = M{}
	case "other":
		labels = M{"app": wname}
	case "sel":
		labels = M{util.WorkloadTypeLabel: k.typeLabel}
	case "selother":
		labels = M{"app": wname, "team": "x", util.WorkloadTypeLabel: k.typeLabel}
	}
	if p.Style == "partition" && k.name == "Deployment" {
		if labels == nil {
			labels = M{}
		}
		labels[v1alpha1.AdvancedDeploymentControlLabel] = "true"
	}
	if labels != nil {
		md["labels"] = labels
	}
	// annotations
	var annos M
	switch p.Annos {
	case "empty":
		annos = M{}
	case "other":
		annos = M{"owner": "me", "deployment.kubernetes.io/revision": "2"}
	}
	add := func(key, v string) {
		if annos == nil {
			annos = M{}
		}
		annos[key] = v
	}
	id := p.NewID
	if old {
		id = p.OldID
	}
	if id != "" {
		add(v1beta1.RolloutIDLabel, id)
	}
	if mn := markerName(p, ros); mn != "" {
		add(util.InRolloutProgressingAnnotation, fmt.Sprintf(`{"rolloutName":"%s"}`, mn))
	}
	if k.name == "Deployment" {
		switch p.Style {
		case "canary":
			add(v1alpha1.DeploymentStrategyAnnotation, `{"rollingStyle":"Canary"}`)
		case "partition":
			add(v1alpha1.DeploymentStrategyAnnotation, `{"rollingStyle":"Partition","rollingUpdate":{"maxUnavailable":1,"maxSurge":"20%"},"partition":1}`)
		case "bluegreen":
			add(v1beta1.OriginalDeploymentStrategyAnnotation, `{"maxUnavailable":"25%","maxSurge":"25%","minReadySeconds":0,"progressDeadlineSeconds":600}`)
		}
	}
	if annos != nil {
		md["annotations"] = annos
	}
	if p.Extra {
		md["finalizers"] = []interface{}{"example.io/keep"}
		md["ownerReferences"] = []interface{}{M{"apiVersion": "example.io/v1", "kind": "App", "name": "app", "uid": "app-uid"}}
	}
	spec := M{"selector": M{"matchLabels": M{"app": wname}}, "template": template(p.Tmpl, old)}
	if p.Extra {
		spec["minReadySeconds"] = int64(5)
		spec["revisionHistoryLimit"] = int64(7)
	}
	if p.Replicas >= 0 && k.name != "DaemonSet" {
		spec["replicas"] = int64(p.Replicas)
	}
	n := int64(p.Replicas)
	if n < 0 {
		n = 1
	}
	upd := n
	if !p.Single && n > 0 {
		upd = n - 1
	}
	var status M
	switch k.name {
	case "Deployment":
		strategy := p.Strategy
		if old && strategy == "recreate" {
			strategy = "rolling" // the user edit switches to Recreate
		}
		switch strategy {
		case "rolling":
			spec["strategy"] = M{"type": "RollingUpdate", "rollingUpdate": M{"maxSurge": "25%", "maxUnavailable": "25%"}}
		case "rollingNoBlock":
			spec["strategy"] = M{"type": "RollingUpdate"}
		case "recreate":
			spec["strategy"] = M{"type": "Recreate"}
		}
		if (!old && p.Paused) || (old && p.Marker != "none") {
			spec["paused"] = true
		}
		status = M{"replicas": n, "updatedReplicas": upd, "readyReplicas": n, "availableReplicas": n, "observedGeneration": int64(2)}
	case "CloneSet":
		switch p.Strategy {
		case "int0":
			spec["updateStrategy"] = M{"type": "ReCreate", "partition": int64(0)}
		case "pct50":
			spec["updateStrategy"] = M{"type": "InPlaceIfPossible", "partition": "50%", "maxUnavailable": "20%"}
		case "typeonly":
			spec["updateStrategy"] = M{"type": "InPlaceIfPossible"}
		}
		rdy, updRdy := n, upd
		if p.Unready && n > 0 {
			rdy = n - 1
			if updRdy > 0 {
				updRdy--
			}
		}
		status = M{"replicas": n, "updatedReplicas": upd, "readyReplicas": rdy, "availableReplicas": rdy, "observedGeneration": int64(2),
			"currentRevision": "demo-r1", "updateRevision": "demo-r1", "updatedReadyReplicas": updRdy}
	case "DaemonSet":
		switch p.Strategy {
		case "rolling":
			spec["updateStrategy"] = M{"type": "RollingUpdate", "rollingUpdate": M{"partition": int64(1), "maxUnavailable": int64(1), "paused": false}}
		case "rollingNoPartition":
			spec["updateStrategy"] = M{"type": "RollingUpdate", "rollingUpdate": M{"maxUnavailable": int64(1)}}
		case "rollingNoBlock":
			spec["updateStrategy"] = M{"type": "RollingUpdate"}
		case "ondelete":
			spec["updateStrategy"] = M{"type": "OnDelete"}
		}
		status = M{"desiredNumberScheduled": n, "currentNumberScheduled": n, "numberReady": n, "updatedNumberScheduled": upd, "numberAvailable": n,
			"numberMisscheduled": int64(0), "observedGeneration": int64(2), "daemonSetHash": "demo-h1"}
	default: // StatefulSet-like
		spec["serviceName"] = wname
		switch p.Strategy {
		case "rolling":
			spec["updateStrategy"] = M{"type": "RollingUpdate", "rollingUpdate": M{"partition": int64(1)}}
		case "rollingNoPartition":
			spec["updateStrategy"] = M{"type": "RollingUpdate", "rollingUpdate": M{"maxUnavailable": "20%"}}
		case "rollingNoBlock":
			spec["updateStrategy"] = M{"type": "RollingUpdate"}
		case "notype":
			spec["updateStrategy"] = M{"rollingUpdate": M{"partition": int64(2)}}
		case "ondelete":
			spec["updateStrategy"] = M{"type": "OnDelete"}
		}
		status = M{"replicas": n, "updatedReplicas": upd, "readyReplicas": n, "availableReplicas": n, "observedGeneration": int64(2),
			"currentRevision": "demo-r1", "updateRevision": "demo-r1"}
	}
	return M{"apiVersion": k.gvk.GroupVersion().String(), "kind": k.gvk.Kind, "metadata": md, "spec": spec, "status": status}
}

// ---------------------------------------------------------------------------------------------
// projection and frame

func sub(m M, key string) M {
	v, _ := m[key].(map[string]interface{})
	if v == nil {
		return M{}
	}
	return v
}

func project(kind string, m M) Proj {
	p := Proj{PartType: "none"}
	spec := sub(m, "spec")
	var part interface{}
	switch kind {
	case "Deployment":
		p.Paused, _ = spec["paused"].(bool)
	case "CloneSet":
		part = sub(spec, "updateStrategy")["partition"]
	default:
		part = sub(sub(spec, "updateStrategy"), "rollingUpdate")["partition"]
	}
	switch v := part.(type) {
	case float64:
		p.PartType, p.PartInt = "int", int(v)
	case int64:
		p.PartType, p.PartInt = "int", int(v)
	case string:
		p.PartType, p.PartStr = "str", v
	}
	if s, ok := sub(sub(m, "metadata"), "annotations")[util.InRolloutProgressingAnnotation].(string); ok && s != "" {
		st := util.RolloutState{}
		if json.Unmarshal([]byte(s), &st) != nil || st.RolloutName == "" {
			p.Marker = "?"
		} else {
			p.Marker = st.RolloutName
		}
	}
	return p
}

// diff lists the paths at which two JSON values differ (an absent object equals an empty one, which
// is how the API server's decoding treats them); lists are compared as a whole.
func diff(a, b interface{}, path []string, out *[][]string) {
	am, aok := a.(map[string]interface{})
	bm, bok := b.(map[string]interface{})
	if (aok || a == nil) && (bok || b == nil) && (aok || bok) {
		keys := map[string]bool{}
		for k := range am {
			keys[k] = true
		}
		for k := range bm {
			keys[k] = true
		}
		ks := make([]string, 0, len(keys))
		for k := range keys {
			ks = append(ks, k)
		}
		sort.Strings(ks)
		for _, k := range ks {
			diff(am[k], bm[k], append(append([]string{}, path...), k), out)
		}
		return
	}
	if !reflect.DeepEqual(a, b) {
		*out = append(*out, path)
	}
}

func decode(raw []byte) M {
	var m M
	must(json.Unmarshal(raw, &m))
	return m
}

// ---------------------------------------------------------------------------------------------

type gen struct {
	w    *fnlib.Writer
	n    int // case counter, in step with the writer's
	only int
	errs int
	fam  map[string]int
}

func (g *gen) emit(p P) {
	g.n++
	g.fam[p.Kind+"/"+p.Fam]++
	if g.only != 0 && g.n != g.only {
		g.w.Run(nil, nil) // replay of a single case: only keeps the writer's case counter in step
		return
	}
	k := kinds[p.Kind]
	if p.Kind == "Deployment" {
		p.Single = p.Rs == 1
	}
	ros := abstractRos(k, p.Roset)
	oldM, newM := buildObject(p, k, ros, true), buildObject(p, k, ros, false)
	in := Input{Fam: p.Fam, Kind: p.Kind, Labels: p.Labels, Annos: p.Annos, Replicas: p.Replicas, OldID: p.OldID, NewID: p.NewID, Tmpl: p.Tmpl,
		Marker: p.Marker, Paused: p.Paused, Strategy: p.Strategy, Style: p.Style, Roset: p.Roset, Ros: ros, Rs: p.Rs, RsExtra: p.RsExtra,
		Single: p.Single, Extra: p.Extra, Unready: p.Unready}
	newRaw, err := json.Marshal(newM)
	must(err)
	newDec := decode(newRaw)
	in.Cur = project(p.Kind, newDec)
	g.w.Run(in, func() (interface{}, error) {
		s := storeFor(k, p.Roset, p.Rs, p.RsExtra)
		admitted, err, pmsg := admitNoPanic(s, k, oldM, newM)
		if pmsg != "" {
			// re-raised outside the panicking frames so that the record carries no memory addresses
			// (the replay of a counterexample must reproduce the record byte for byte)
			panic(pmsg)
		}
		if err != nil {
			g.errs++
			return nil, err
		}
		adm := decode(admitted)
		pr := project(p.Kind, adm)
		d := [][]string{}
		diff(newDec, adm, nil, &d)
		return M{"paused": pr.Paused, "partType": pr.PartType, "partInt": pr.PartInt, "partStr": pr.PartStr, "marker": pr.Marker,
			"changed": len(d) > 0, "diff": d}, nil
	})
}

// admitNoPanic passes the update through the real handler; a panic of the real code is returned as
// "<value> @ <innermost frames of openkruise/rollouts, without arguments>".
func admitNoPanic(s *sim.Store, k kindInfo, oldM, newM M) (admitted []byte, err error, pmsg string) {
	defer func() {
		if r := recover(); r != nil {
			var frames []string
			for _, l := range strings.Split(string(debug.Stack()), "\n") {
				if strings.Contains(l, "openkruise/rollouts") && len(frames) < 3 {
					l = strings.TrimSpace(l)
					if i := strings.LastIndex(l, "("); i > 0 {
						l = l[:i] // drop the argument words (memory addresses)
					}
					frames = append(frames, l[strings.LastIndex(l, "/")+1:])
				}
			}
			pmsg = fmt.Sprintf("%v @ %s", r, strings.Join(frames, " < "))
		}
	}()
	admitted, err = sim.Admit(s, sim.GlobalScheme(), k.gvk, k.resource, &unstructured.Unstructured{Object: oldM}, &unstructured.Unstructured{Object: newM}, k.unified)
	return
}

// cycle emits, for the ci-th core point, k of the n shape combinations (all of them when k >= n); the
// window slides with ci so that every shape meets every value of the core dimensions over the run.
func cycle(ci, k, n int, f func(si int)) {
	if k >= n {
		for i := 0; i < n; i++ {
			f(i)
		}
		return
	}
	for j := 0; j < k; j++ {
		f((ci*k + j + ci/7) % n)
	}
}

var idPairs = [][2]string{{"", ""}, {"", "a"}, {"", "b"}, {"a", ""}, {"a", "a"}, {"a", "b"}, {"b", ""}, {"b", "a"}, {"b", "b"}}

func subsets(items []string) []string {
	var out []string
	for m := 0; m < 1<<len(items); m++ {
		var s []string
		for i, it := range items {
			if m&(1<<i) != 0 {
				s = append(s, it)
			}
		}
		out = append(out, strings.Join(s, "+"))
	}
	return out
}

func main() {
	fl := fnlib.ParseFlags()
	w, err := fnlib.NewWriter(fl)
	if err != nil {
		panic(err)
	}
	sim.InitProcess()
	debug.SetGCPercent(400)
	thorough := fl.Tier == "thorough"
	g := &gen{w: w, only: fl.Only, fam: map[string]int{}}

	// sets of Rollouts in the namespace
	rosets := []string{"", "othername", "canary", "traffic", "bluegreen", "bgtraffic", "disabled", "deleting", "empty",
		"disabled+canary", "deleting+traffic", "othername+otherkind+otherns+bluegreen", "deleting+disabled+othername",
		"canary+traffic", "empty+canary", "badref+canary+emptylate", "otherver", "disabled+otherver"}
	rosetsSmall := []string{"", "othername+otherkind", "canary", "traffic", "bgtraffic", "disabled", "deleting+disabled+bluegreen", "empty", "canary+emptylate", "otherver"}
	if thorough {
		seen := map[string]bool{}
		all := append(subsets([]string{"deleting", "disabled", "othername", "canary", "traffic", "bluegreen"}), rosets...)
		rosets = nil
		for _, r := range all {
			if !seen[r] {
				seen[r] = true
				rosets = append(rosets, r)
			}
		}
		rosetsSmall = append(rosetsSmall, "otherns", "badref", "disabled+canary", "deleting+traffic", "canary+traffic", "empty+canary", "bluegreen", "deleting")
	}
	kShape := func(quick, thoroughN int) int {
		if thorough {
			return thoroughN
		}
		return quick
	}
	replicasDim := []int{-1, 0, 3}
	tmplDim := []string{"same", "hash", "changed"}
	selLabels := []string{"sel", "selother"}
	unselLabels := []string{"nil", "empty", "other"}
	annosDim := []string{"nil", "empty", "other"}

	// The two shapes on which the unchanged code is known to miss the property are enumerated first and as
	// small products of their own (a counterexample is looked up by scanning the case file from its start);
	// the large products below stay clear of them.
	// ---- Advanced DaemonSet whose updateStrategy has no rollingUpdate block (family N)
	{
		shapes := [][3]string{{"sel", "nil", "none"}, {"selother", "other", "none"}, {"sel", "empty", "none"}, {"selother", "nil", "none"}}
		ci := 0
		for _, st := range []string{"ondelete", "rollingNoBlock", "absent"} {
			for _, rep := range []int{3, 0} {
				for _, ids := range [][2]string{{"", ""}, {"", "a"}, {"a", "a"}, {"a", "b"}, {"a", ""}} {
					for _, t := range []string{"changed", "same"} {
						for _, ro := range []string{"canary", "", "traffic", "disabled", "othername+bluegreen"} {
							sh := shapes[ci%len(shapes)]
							g.emit(P{Fam: "N", Kind: "DaemonSet", Labels: sh[0], Annos: sh[1], Replicas: rep, OldID: ids[0], NewID: ids[1], Tmpl: t,
								Marker: sh[2], Strategy: st, Style: "none", Roset: ro, Single: true})
							ci++
						}
					}
				}
			}
		}
	}
	// ---- Deployment in progress whose marker names a Rollout that is not (any longer) the matching one (family S)
	{
		shapes := [][2]string{{"canary", "sel"}, {"", "selother"}, {"traffic", "sel"}, {"disabled+bluegreen", "selother"}, {"othername", "sel"}}
		ci := 0
		for _, style := range []string{"none", "canary", "partition", "bluegreen"} {
			for _, pa := range []bool{false, true} {
				for _, st := range []string{"absent", "rolling"} {
					for _, ids := range [][2]string{{"", ""}, {"", "a"}, {"a", "a"}, {"a", "b"}, {"a", ""}} {
						for _, t := range []string{"changed", "same"} {
							sh := shapes[ci%len(shapes)]
							g.emit(P{Fam: "S", Kind: "Deployment", Labels: sh[1], Annos: "other", Replicas: 3, OldID: ids[0], NewID: ids[1], Tmpl: t,
								Marker: "other", Paused: pa, Strategy: st, Style: style, Roset: sh[0], Rs: 1 + (ci/5)%2})
							ci++
						}
					}
				}
			}
		}
	}
	// ---- Deployment, not yet in progress (family A)
	{
		type shape struct {
			labels, annos, strategy string
			paused                  bool
		}
		var shapes []shape
		for _, l := range selLabels {
			for _, a := range annosDim {
				for _, st := range []string{"absent", "rolling"} {
					for _, pa := range []bool{false, true} {
						shapes = append(shapes, shape{l, a, st, pa})
					}
				}
			}
		}
		ci := 0
		for _, rep := range replicasDim {
			for _, ids := range idPairs {
				for _, t := range tmplDim {
					for _, rs := range []int{0, 1, 2} {
						for _, ro := range rosets {
							cycle(ci, kShape(2, 6), len(shapes), func(si int) {
								sh := shapes[si]
								g.emit(P{Fam: "A", Kind: "Deployment", Labels: sh.labels, Annos: sh.annos, Replicas: rep, OldID: ids[0], NewID: ids[1], Tmpl: t,
									Marker: "none", Paused: sh.paused, Strategy: sh.strategy, Style: "none", Roset: ro, Rs: rs})
							})
							ci++
						}
					}
				}
			}
		}
	}
	// ---- Deployment, release in progress (family B)
	{
		type shape struct {
			labels, annos, roset string
			rs                   int
		}
		var shapes []shape
		for _, l := range selLabels {
			for _, a := range []string{"nil", "other"} {
				for _, ro := range []string{"", "canary", "traffic", "disabled+bluegreen"} {
					for _, rs := range []int{0, 1, 2} {
						shapes = append(shapes, shape{l, a, ro, rs})
					}
				}
			}
		}
		ci := 0
		for _, mk := range []string{"own"} {
			for _, style := range []string{"none", "canary", "partition", "bluegreen"} {
				for _, pa := range []bool{false, true} {
					for _, st := range []string{"absent", "rolling", "rollingNoBlock", "recreate"} {
						for _, rep := range []int{0, 3} {
							for _, ids := range idPairs {
								for _, t := range tmplDim {
									cycle(ci, kShape(3, 12), len(shapes), func(si int) {
										sh := shapes[si]
										g.emit(P{Fam: "B", Kind: "Deployment", Labels: sh.labels, Annos: sh.annos, Replicas: rep, OldID: ids[0], NewID: ids[1], Tmpl: t,
											Marker: mk, Paused: pa, Strategy: st, Style: style, Roset: sh.roset, Rs: sh.rs})
									})
									ci++
								}
							}
						}
					}
				}
			}
		}
	}
	// ---- CloneSet
	{
		type shape struct{ labels, annos, strategy, marker string }
		var shapes []shape
		for _, l := range selLabels {
			for _, a := range annosDim {
				for _, st := range []string{"absent", "int0", "pct50", "typeonly"} {
					for _, mk := range []string{"none", "other"} {
						shapes = append(shapes, shape{l, a, st, mk})
					}
				}
			}
		}
		ci := 0
		for _, rep := range replicasDim {
			for _, ids := range idPairs {
				for _, t := range tmplDim {
					for _, single := range []bool{true, false} {
						for _, ro := range rosets {
							cycle(ci, kShape(3, 8), len(shapes), func(si int) {
								sh := shapes[si]
								g.emit(P{Fam: "A", Kind: "CloneSet", Labels: sh.labels, Annos: sh.annos, Replicas: rep, OldID: ids[0], NewID: ids[1], Tmpl: t,
									Marker: sh.marker, Strategy: sh.strategy, Style: "none", Roset: ro, Rs: 0, Single: single, Unready: (ci/2)%2 == 1})
							})
							ci++
						}
					}
				}
			}
		}
	}
	// ---- Advanced DaemonSet
	{
		type shape struct{ labels, annos, marker string }
		var shapes []shape
		for _, l := range selLabels {
			for _, a := range annosDim {
				for _, mk := range []string{"none", "other"} {
					shapes = append(shapes, shape{l, a, mk})
				}
			}
		}
		ci := 0
		for _, st := range []string{"rolling", "rollingNoPartition"} { // with a rollingUpdate block; without: family N
			for _, rep := range []int{0, 3} {
				for _, ids := range idPairs {
					for _, t := range tmplDim {
						for _, ro := range rosets {
							cycle(ci, kShape(4, 8), len(shapes), func(si int) {
								sh := shapes[si]
								g.emit(P{Fam: "A", Kind: "DaemonSet", Labels: sh.labels, Annos: sh.annos, Replicas: rep, OldID: ids[0], NewID: ids[1], Tmpl: t,
									Marker: sh.marker, Strategy: st, Style: "none", Roset: ro, Single: true})
							})
							ci++
						}
					}
				}
			}
		}
	}
	// ---- StatefulSet-like (native, Advanced, custom kind labelled statefulset)
	for _, kind := range []string{"StatefulSet", "AdvancedStatefulSet", "CustomSet"} {
		type shape struct{ labels, annos, marker string }
		var shapes []shape
		for _, l := range selLabels {
			for _, a := range annosDim {
				for _, mk := range []string{"none", "other"} {
					shapes = append(shapes, shape{l, a, mk})
				}
			}
		}
		ci := 0
		for _, st := range []string{"absent", "rolling", "rollingNoPartition", "rollingNoBlock", "notype", "ondelete"} {
			for _, rep := range replicasDim {
				for _, ids := range idPairs {
					for _, t := range tmplDim {
						for _, ro := range rosetsSmall {
							cycle(ci, kShape(1, 3), len(shapes), func(si int) {
								sh := shapes[si]
								g.emit(P{Fam: "A", Kind: kind, Labels: sh.labels, Annos: sh.annos, Replicas: rep, OldID: ids[0], NewID: ids[1], Tmpl: t,
									Marker: sh.marker, Strategy: st, Style: "none", Roset: ro, Single: true})
							})
							ci++
						}
					}
				}
			}
		}
	}
	// ---- not selected by the webhook (no workload-type label): every kind, the inputs that would otherwise be held or corrected
	for _, kind := range []string{"Deployment", "CloneSet", "DaemonSet", "StatefulSet", "AdvancedStatefulSet", "CustomSet"} {
		strategies := map[string][]string{"Deployment": {"absent", "rolling"}, "CloneSet": {"absent", "pct50"}, "DaemonSet": {"absent", "rolling"}}[kind]
		if strategies == nil {
			strategies = []string{"absent", "rolling"}
		}
		markers := []string{"none"}
		if kind == "Deployment" {
			markers = []string{"none", "own"}
		}
		for _, l := range unselLabels {
			for _, a := range annosDim {
				for _, ids := range [][2]string{{"", ""}, {"", "a"}, {"a", "b"}} {
					for _, t := range []string{"same", "changed"} {
						for _, st := range strategies {
							for _, mk := range markers {
								for _, ro := range []string{"", "canary", "traffic", "disabled+bluegreen"} {
									g.emit(P{Fam: "U", Kind: kind, Labels: l, Annos: a, Replicas: 3, OldID: ids[0], NewID: ids[1], Tmpl: t,
										Marker: mk, Strategy: st, Style: "none", Roset: ro, Rs: 1, Single: true})
								}
							}
						}
					}
				}
			}
		}
	}
	// ---- seeded random shapes over the extended dimensions
	{
		nRand := 3000
		if thorough {
			nRand = 40000
		}
		rng := rand.New(rand.NewSource(fl.Seed*7919 + 17))
		pick := func(xs ...string) string { return xs[rng.Intn(len(xs))] }
		kindNames := []string{"Deployment", "Deployment", "CloneSet", "DaemonSet", "StatefulSet", "AdvancedStatefulSet", "CustomSet"}
		for i := 0; i < nRand; i++ {
			p := P{Fam: "R", Kind: kindNames[rng.Intn(len(kindNames))]}
			p.Labels = pick("nil", "empty", "other", "sel", "sel", "sel", "selother", "selother", "selother")
			p.Annos = pick("nil", "empty", "other")
			p.Replicas = []int{-1, 0, 1, 3, 50}[rng.Intn(5)]
			ids := idPairs[rng.Intn(len(idPairs))]
			p.OldID, p.NewID = ids[0], ids[1]
			p.Tmpl = pick("same", "hash", "changed", "anno", "label")
			p.Marker = pick("none", "none", "own", "other")
			if p.Kind == "Deployment" && p.Marker == "other" {
				p.Marker = "own" // a stale marker on a Deployment: family S
			}
			p.Style = "none"
			p.Single = rng.Intn(2) == 0
			p.Extra = rng.Intn(2) == 0
			switch p.Kind {
			case "Deployment":
				p.Strategy = pick("absent", "rolling", "rollingNoBlock", "recreate")
				p.Paused = rng.Intn(2) == 0
				p.Style = pick("none", "canary", "partition", "bluegreen")
				p.Rs = rng.Intn(3)
				p.RsExtra = rng.Intn(4)
			case "CloneSet":
				p.Strategy = pick("absent", "int0", "pct50", "typeonly")
			case "DaemonSet":
				p.Strategy = pick("rolling", "rollingNoPartition") // without the block: family N
				if p.Replicas < 0 {
					p.Replicas = 3
				}
			default:
				p.Strategy = pick("absent", "rolling", "rollingNoPartition", "rollingNoBlock", "notype", "ondelete")
			}
			// a random set of up to four archetypes, in canonical order
			var set []string
			n := rng.Intn(5)
			mask := map[string]bool{}
			for j := 0; j < n; j++ {
				mask[archetypes[rng.Intn(len(archetypes))]] = true
			}
			for _, a := range archetypes {
				if mask[a] {
					set = append(set, a)
				}
			}
			p.Roset = strings.Join(set, "+")
			g.emit(p)
		}
	}
	fam := map[string]interface{}{}
	for k, v := range g.fam {
		fam[k] = v
	}
	w.Close(false, map[string]interface{}{"errors": g.errs, "families": fam, "rosets": len(rosets), "rosets_small": len(rosetsSmall),
		"domain": "structured product (core dimensions exhaustive, shape dimensions cycled) + seeded random shapes"})
}
