// fn-gateway: the real Gateway API provider (pkg/trafficrouting/network/gateway) over a bounded
// domain of user HTTPRoutes x step sequences. Every case stores one HTTPRoute in a fresh simulated
// API server, runs EnsureRoutes for every step of the sequence (repeated until it reports "done",
// at most 3 calls, plus one extra call for the fixed-point clause) and finally Finalise, and records
// the abstract rules of the stored route after every operation.
//
// Abstract encoding (all field types fixed, no nulls):
//
//	match   {path:"Type:value"|"", headers:["Type:name=value"], queries:["Type:name=value"], rest:""}
//	ref     {kind, name, weight (-1 = nil), rest:"group|namespace|port|filters"}
//	rule    {matches:[match], filters:[string], backends:[ref]}
//	step    {kind:"W"|"M", w (-1 for M), matches:[match]}
//	in      {route:[rule], steps:[step], seq:"WM..", backendless, sharedSplit, pathFirst, weightThenMatch}
//	out     {ops:[{kind:"W"|"M"|"F", calls, conv, xdone, xwrote, rules:[rule]}]}   (one op per step + final "F")
//
// The user's route is built the way the API server would deliver it (CRD defaults applied: every
// rule has at least the default match PathPrefix "/", every match a path, every backendRef a kind
// and a weight, every header / query matcher a type).
package main

import (
	"bytes"
	"context"
	"encoding/json"
	"fmt"
	"runtime/debug"
	"strings"

	"github.com/openkruise/rollouts/api/v1beta1"
	"github.com/openkruise/rollouts/pkg/trafficrouting/network/gateway"
	metav1 "k8s.io/apimachinery/pkg/apis/meta/v1"
	gw "sigs.k8s.io/gateway-api/apis/v1beta1"

	"verif/harness/fnlib"
	"verif/harness/sim"
)

const (
	ns         = "default"
	routeName  = "route"
	stableName = "stable"
	canaryName = "canary"
)

// ---------------------------------------------------------------------------------------------
// abstract types

type absMatch struct {
	Path    string   `json:"path"`
	Headers []string `json:"headers"`
	Queries []string `json:"queries"`
	Rest    string   `json:"rest"`
}

type absRef struct {
	Kind   string `json:"kind"`
	Name   string `json:"name"`
	Weight int    `json:"weight"`
	Rest   string `json:"rest"`
}

type absRule struct {
	Matches  []absMatch `json:"matches"`
	Filters  []string   `json:"filters"`
	Backends []absRef   `json:"backends"`
}

type absStep struct {
	Kind    string     `json:"kind"`
	W       int        `json:"w"`
	Matches []absMatch `json:"matches"`
}

type absOp struct {
	Kind   string    `json:"kind"`
	Calls  int       `json:"calls"`
	Conv   bool      `json:"conv"`
	XDone  bool      `json:"xdone"`
	XWrote bool      `json:"xwrote"`
	Rules  []absRule `json:"rules"`
}

// ---------------------------------------------------------------------------------------------
// projection concrete -> abstract

func noQuote(b []byte) string { return strings.ReplaceAll(string(b), `"`, "") }

func projMatch(m gw.HTTPRouteMatch) absMatch {
	a := absMatch{Headers: []string{}, Queries: []string{}}
	if m.Path != nil {
		t, v := "nil", "nil"
		if m.Path.Type != nil {
			t = string(*m.Path.Type)
		}
		if m.Path.Value != nil {
			v = *m.Path.Value
		}
		a.Path = t + ":" + v
	}
	for _, h := range m.Headers {
		t := "nil"
		if h.Type != nil {
			t = string(*h.Type)
		}
		a.Headers = append(a.Headers, fmt.Sprintf("%s:%s=%s", t, h.Name, h.Value))
	}
	for _, q := range m.QueryParams {
		t := "nil"
		if q.Type != nil {
			t = string(*q.Type)
		}
		a.Queries = append(a.Queries, fmt.Sprintf("%s:%s=%s", t, q.Name, q.Value))
	}
	if m.Method != nil {
		a.Rest = "method=" + string(*m.Method)
	}
	return a
}

func projFilter(f gw.HTTPRouteFilter) string {
	b, _ := json.Marshal(f)
	return noQuote(b)
}

func projRef(r gw.HTTPBackendRef) absRef {
	a := absRef{Kind: "nil", Name: string(r.Name), Weight: -1}
	if r.Kind != nil {
		a.Kind = string(*r.Kind)
	}
	if r.Weight != nil {
		a.Weight = int(*r.Weight)
	}
	g, n, p := "nil", "nil", "nil"
	if r.Group != nil {
		g = string(*r.Group)
	}
	if r.Namespace != nil {
		n = string(*r.Namespace)
	}
	if r.Port != nil {
		p = fmt.Sprint(*r.Port)
	}
	fs := []string{}
	for _, f := range r.Filters {
		fs = append(fs, projFilter(f))
	}
	a.Rest = fmt.Sprintf("%s|%s|%s|%s", g, n, p, strings.Join(fs, ","))
	return a
}

func projRules(rules []gw.HTTPRouteRule) []absRule {
	out := []absRule{}
	for _, r := range rules {
		a := absRule{Matches: []absMatch{}, Filters: []string{}, Backends: []absRef{}}
		for _, m := range r.Matches {
			a.Matches = append(a.Matches, projMatch(m))
		}
		for _, f := range r.Filters {
			a.Filters = append(a.Filters, projFilter(f))
		}
		for _, b := range r.BackendRefs {
			a.Backends = append(a.Backends, projRef(b))
		}
		out = append(out, a)
	}
	return out
}

// ---------------------------------------------------------------------------------------------
// construction of the concrete objects

func pathMatch(t gw.PathMatchType, v string) *gw.HTTPPathMatch {
	return &gw.HTTPPathMatch{Type: &t, Value: &v}
}

func header(name, value string) gw.HTTPHeaderMatch {
	t := gw.HeaderMatchExact
	return gw.HTTPHeaderMatch{Type: &t, Name: gw.HTTPHeaderName(name), Value: value}
}

func query(name, value string) gw.HTTPQueryParamMatch {
	t := gw.QueryParamMatchExact
	return gw.HTTPQueryParamMatch{Type: &t, Name: gw.HTTPHeaderName(name), Value: value}
}

func ref(kind, name string, weight int32, withFilter bool) gw.HTTPBackendRef {
	k := gw.Kind(kind)
	g := gw.Group("")
	if kind != "Service" {
		g = gw.Group("multicluster.x-k8s.io")
	}
	p := gw.PortNumber(80)
	r := gw.HTTPBackendRef{BackendRef: gw.BackendRef{
		BackendObjectReference: gw.BackendObjectReference{Group: &g, Kind: &k, Name: gw.ObjectName(name), Port: &p},
		Weight:                 &weight,
	}}
	if withFilter {
		r.Filters = []gw.HTTPRouteFilter{{Type: gw.HTTPRouteFilterRequestHeaderModifier,
			RequestHeaderModifier: &gw.HTTPHeaderFilter{Add: []gw.HTTPHeader{{Name: "x-via", Value: name}}}}}
	}
	return r
}

// rule match shapes (after API defaulting every match has a path)
const nMatchShapes = 4

func ruleMatches(shape int) []gw.HTTPRouteMatch {
	switch shape {
	case 0: // the user wrote no matches: the API server's default
		return []gw.HTTPRouteMatch{{Path: pathMatch(gw.PathMatchPathPrefix, "/")}}
	case 1: // one match with an own header condition
		return []gw.HTTPRouteMatch{{Path: pathMatch(gw.PathMatchPathPrefix, "/a"), Headers: []gw.HTTPHeaderMatch{header("x-own", "1")}}}
	case 3: // a method condition next to the path
		get := gw.HTTPMethodGet
		return []gw.HTTPRouteMatch{{Path: pathMatch(gw.PathMatchPathPrefix, "/d"), Method: &get}}
	default: // two matches, the second with an own query condition
		return []gw.HTTPRouteMatch{
			{Path: pathMatch(gw.PathMatchExact, "/b")},
			{Path: pathMatch(gw.PathMatchPathPrefix, "/c"), QueryParams: []gw.HTTPQueryParamMatch{query("own", "1")}},
		}
	}
}

// rule backend shapes
const nBackendShapes = 8

func tagFilter(tag string) []gw.HTTPRouteFilter {
	return []gw.HTTPRouteFilter{{Type: gw.HTTPRouteFilterRequestHeaderModifier,
		RequestHeaderModifier: &gw.HTTPHeaderFilter{Set: []gw.HTTPHeader{{Name: "x-rule", Value: tag}}}}}
}

func ruleBackends(shape int) ([]gw.HTTPBackendRef, []gw.HTTPRouteFilter) {
	switch shape {
	case 0: // only the stable Service, default weight, no filter
		return []gw.HTTPBackendRef{ref("Service", stableName, 1, false)}, nil
	case 1: // only the stable Service, explicit weight, a filter
		return []gw.HTTPBackendRef{ref("Service", stableName, 50, false)}, tagFilter("b1")
	case 2: // stable + foreign Service, equal default weights
		return []gw.HTTPBackendRef{ref("Service", stableName, 1, false), ref("Service", "other", 1, false)}, tagFilter("b2")
	case 3: // foreign Service first (with its own filter), explicit 50/50 split
		return []gw.HTTPBackendRef{ref("Service", "other", 50, true), ref("Service", stableName, 50, false)}, nil
	case 4: // stable Service + a non-Service backend that carries the stable name
		return []gw.HTTPBackendRef{ref("Service", stableName, 1, false), ref("ServiceImport", stableName, 1, false)}, nil
	case 5: // foreign Service only: the rule does not reference the stable Service
		return []gw.HTTPBackendRef{ref("Service", "other", 1, false)}, tagFilter("b5")
	case 6: // non-Service kind with the stable name only: not the stable Service
		return []gw.HTTPBackendRef{ref("ServiceImport", stableName, 1, false)}, nil
	default: // backend-less redirect rule
		h := gw.PreciseHostname("moved.example.com")
		return nil, []gw.HTTPRouteFilter{{Type: gw.HTTPRouteFilterRequestRedirect, RequestRedirect: &gw.HTTPRequestRedirectFilter{Hostname: &h}}}
	}
}

type ruleShape struct{ m, b int }

func buildRule(s ruleShape) gw.HTTPRouteRule {
	b, f := ruleBackends(s.b)
	return gw.HTTPRouteRule{Matches: ruleMatches(s.m), Filters: f, BackendRefs: b}
}

func buildRoute(shapes []ruleShape) *gw.HTTPRoute {
	r := &gw.HTTPRoute{ObjectMeta: metav1.ObjectMeta{Namespace: ns, Name: routeName}}
	h := gw.Hostname("demo.example.com")
	r.Spec.Hostnames = []gw.Hostname{h}
	for _, s := range shapes {
		r.Spec.Rules = append(r.Spec.Rules, buildRule(s))
	}
	return r
}

// user match kinds of a step: P path, H header, Q query, PH path+header, HQ header+query; the
// values depend on the position in the list, so every match of a list is distinguishable
func userMatch(kind string, pos int) v1beta1.HttpRouteMatch {
	p := fmt.Sprint(pos)
	m := v1beta1.HttpRouteMatch{}
	if strings.Contains(kind, "P") {
		m.Path = pathMatch(gw.PathMatchExact, "/canary"+p)
	}
	if strings.Contains(kind, "H") {
		m.Headers = []gw.HTTPHeaderMatch{header("x-canary", p)}
	}
	if strings.Contains(kind, "Q") {
		m.QueryParams = []gw.HTTPQueryParamMatch{query("canary", p)}
	}
	return m
}

type step struct {
	w     int      // -1: match step
	kinds []string // match kinds of a match step
}

func (s step) kind() string {
	if s.w >= 0 {
		return "W"
	}
	return "M"
}

func (s step) strategy() *v1beta1.TrafficRoutingStrategy {
	st := &v1beta1.TrafficRoutingStrategy{}
	if s.w >= 0 {
		t := fmt.Sprintf("%d%%", s.w)
		st.Traffic = &t
		return st
	}
	for i, k := range s.kinds {
		st.Matches = append(st.Matches, userMatch(k, i+1))
	}
	return st
}

func (s step) abs() absStep {
	a := absStep{Kind: s.kind(), W: s.w, Matches: []absMatch{}}
	for _, m := range s.strategy().Matches {
		a.Matches = append(a.Matches, projMatch(gw.HTTPRouteMatch{Path: m.Path, Headers: m.Headers, QueryParams: m.QueryParams}))
	}
	return a
}

// ---------------------------------------------------------------------------------------------
// domain

func lists(alphabet []string, maxLen int) [][]string {
	out := [][]string{}
	cur := [][]string{{}}
	for l := 1; l <= maxLen; l++ {
		var next [][]string
		for _, c := range cur {
			for _, a := range alphabet {
				n := append(append([]string{}, c...), a)
				next = append(next, n)
			}
		}
		out = append(out, next...)
		cur = next
	}
	return out
}

func weightSteps(ws ...int) []step {
	var out []step
	for _, w := range ws {
		out = append(out, step{w: w})
	}
	return out
}

func matchSteps(ls ...[]string) []step {
	var out []step
	for _, l := range ls {
		out = append(out, step{w: -1, kinds: l})
	}
	return out
}

func sequences(len1, len2, len3 []step) [][]step {
	var out [][]step
	for _, a := range len1 {
		out = append(out, []step{a})
	}
	for _, a := range len2 {
		for _, b := range len2 {
			out = append(out, []step{a, b})
		}
	}
	for _, a := range len3 {
		for _, b := range len3 {
			for _, c := range len3 {
				out = append(out, []step{a, b, c})
			}
		}
	}
	return out
}

func allShapes() []ruleShape {
	var out []ruleShape
	for b := 0; b < nBackendShapes; b++ {
		for m := 0; m < nMatchShapes; m++ {
			out = append(out, ruleShape{m, b})
		}
	}
	return out
}

func routes(one, two, three []ruleShape) [][]ruleShape {
	var out [][]ruleShape
	for _, a := range one {
		out = append(out, []ruleShape{a})
	}
	for _, a := range two {
		for _, b := range two {
			out = append(out, []ruleShape{a, b})
		}
	}
	for _, a := range three {
		for _, b := range three {
			for _, c := range three {
				out = append(out, []ruleShape{a, b, c})
			}
		}
	}
	return out
}

// ---------------------------------------------------------------------------------------------
// features of an input (signature fields for known-finding matching)

func features(rules []absRule, seq []step) map[string]interface{} {
	backendless, shared := false, false
	for _, r := range rules {
		if len(r.Backends) == 0 {
			backendless = true
		}
		stableW, others := 0, 0
		hasStable := false
		for _, b := range r.Backends {
			if b.Kind == "Service" && b.Name == stableName {
				hasStable, stableW = true, b.Weight
			} else if b.Weight != 0 {
				others++
			}
		}
		if hasStable && others > 0 && stableW != 1 {
			shared = true
		}
	}
	pathFirst, wThenM, seenW := false, false, false
	ks := ""
	for _, s := range seq {
		ks += s.kind()
		if s.w >= 0 {
			seenW = true
			continue
		}
		if seenW {
			wThenM = true
		}
		seenPath := false
		for _, k := range s.kinds {
			if strings.Contains(k, "P") {
				seenPath = true
			} else if seenPath {
				pathFirst = true
			}
		}
	}
	return map[string]interface{}{"seq": ks, "backendless": backendless, "sharedSplit": shared, "pathFirst": pathFirst, "weightThenMatch": wThenM}
}

// ---------------------------------------------------------------------------------------------

func main() {
	fl := fnlib.ParseFlags()
	w, err := fnlib.NewWriter(fl)
	if err != nil {
		panic(err)
	}
	sim.InitProcess()
	// the store keeps a decode cache of up to 200k objects alive; collect less often
	debug.SetGCPercent(400)

	// Domain. Rule shapes = 3 match shapes x 8 backend shapes. Routes: every shape alone, every pair
	// and every triple over a reduced shape set. Step sequences: every single step (all five weights,
	// every list of 1-3 matches over path / header / query in every order, plus combined matchers),
	// every pair and (thorough) every triple over a reduced step set; Finalise ends every sequence.
	shapes := allShapes()
	pick := func(ss ...ruleShape) []ruleShape { return ss }
	var rts [][]ruleShape
	var seqs [][]step
	mixed := matchSteps([]string{"H"}, []string{"P"}, []string{"P", "H"}, []string{"H", "P"}, []string{"Q", "P", "H"}, []string{"PH", "HQ"})
	if fl.Tier == "thorough" {
		var two []ruleShape
		for b := 0; b < nBackendShapes; b++ {
			two = append(two, ruleShape{b % nMatchShapes, b}, ruleShape{(b + 1) % nMatchShapes, b})
		}
		three := pick(ruleShape{0, 0}, ruleShape{1, 0}, ruleShape{2, 3}, ruleShape{1, 7}, ruleShape{0, 5})
		rts = routes(shapes, two, three)
		len1 := append(weightSteps(0, 1, 50, 99, 100), matchSteps(lists([]string{"P", "H", "Q", "PH", "HQ"}, 3)...)...)
		len2 := append(weightSteps(0, 1, 50, 99, 100), mixed...)
		len2 = append(len2, matchSteps([]string{"Q"}, []string{"P", "Q"}, []string{"Q", "H"})...)
		len3 := append(weightSteps(0, 50, 100), matchSteps([]string{"H"}, []string{"P", "H"}, []string{"Q", "P"})...)
		seqs = sequences(len1, len2, len3)
	} else {
		two := pick(ruleShape{0, 0}, ruleShape{1, 0}, ruleShape{2, 3}, ruleShape{1, 7}, ruleShape{0, 5}, ruleShape{2, 4})
		three := pick(ruleShape{0, 0}, ruleShape{2, 3}, ruleShape{1, 7})
		rts = routes(shapes, two, three)
		len1 := append(weightSteps(0, 1, 50, 99, 100), matchSteps(lists([]string{"P", "H", "Q"}, 3)...)...)
		len1 = append(len1, matchSteps([]string{"PH"}, []string{"HQ"}, []string{"PH", "H"}, []string{"P", "HQ"})...)
		len2 := append(weightSteps(0, 50, 100), mixed...)
		seqs = sequences(len1, len2, nil)
	}

	key := sim.Key{Group: gw.GroupVersion.Group, Kind: "HTTPRoute", Namespace: ns, Name: routeName}
	ctx := context.TODO()
	for _, rt := range rts {
		route := buildRoute(rt)
		absRoute := projRules(route.Spec.Rules)
		for _, seq := range seqs {
			seq := seq
			in := features(absRoute, seq)
			in["route"] = absRoute
			steps := []absStep{}
			for _, s := range seq {
				steps = append(steps, s.abs())
			}
			in["steps"] = steps
			w.Run(in, func() (interface{}, error) {
				s := sim.NewStore(sim.GlobalScheme())
				if err := s.Put(route.DeepCopy()); err != nil {
					return nil, err
				}
				name := routeName
				ctl, err := gateway.NewGatewayTrafficRouting(s, gateway.Config{Key: "default/demo", Namespace: ns, CanaryService: canaryName,
					StableService: stableName, TrafficConf: &v1beta1.GatewayTrafficRouting{HTTPRouteName: &name}})
				if err != nil {
					return nil, err
				}
				if err := ctl.Initialize(ctx); err != nil {
					return nil, err
				}
				read := func() []absRule {
					cur := &gw.HTTPRoute{}
					if !s.Load(ns, routeName, cur) {
						return []absRule{}
					}
					return projRules(cur.Spec.Rules)
				}
				ops := []absOp{}
				// call is one invocation; done means "nothing left to do" for both operations
				runOp := func(kind string, call func() (bool, error)) error {
					op := absOp{Kind: kind}
					for op.Calls < 3 && !op.Conv {
						op.Calls++
						s.BeginAction("provider")
						done, err := call()
						if err != nil {
							return err
						}
						op.Conv = done
					}
					before := append([]byte{}, s.Raw(key)...)
					s.BeginAction("provider")
					done, err := call()
					if err != nil {
						return err
					}
					op.XDone = done
					op.XWrote = s.EffWrites() > 0 || !bytes.Equal(before, s.Raw(key))
					op.Rules = read()
					ops = append(ops, op)
					return nil
				}
				for _, st := range seq {
					strategy := st.strategy()
					if err := runOp(st.kind(), func() (bool, error) { return ctl.EnsureRoutes(ctx, strategy) }); err != nil {
						return map[string]interface{}{"ops": ops}, err
					}
				}
				// Finalise reports "modified": done = not modified
				if err := runOp("F", func() (bool, error) {
					modified, err := ctl.Finalise(ctx)
					return !modified, err
				}); err != nil {
					return map[string]interface{}{"ops": ops}, err
				}
				return map[string]interface{}{"ops": ops}, nil
			})
		}
	}
	w.Close(true, map[string]interface{}{"routes": len(rts), "sequences": len(seqs), "ruleShapes": len(shapes)})
}
