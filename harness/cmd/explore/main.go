package main

import (
	"path/filepath"
	"encoding/json"
	"flag"
	"fmt"
	"os"
	"runtime/pprof"

	"verif/harness/sim"
)

func main() {
	mode := flag.String("mode", "linear", "linear | explore")
	cfgPath := flag.String("cfg", "", "scenario config (json)")
	out := flag.String("out", "", "ndjson output file")
	path := flag.String("path", "", "comma separated action path (replay)")
	depth := flag.Int("depth", 0, "depth bound (0 = none)")
	maxStates := flag.Int("max-states", 200000, "state budget")
	prof := flag.String("cpuprofile", "", "write cpu profile")
	flag.Parse()
	if *prof != "" {
		f, _ := os.Create(*prof)
		pprof.StartCPUProfile(f)
		defer pprof.StopCPUProfile()
	}
	var cfg sim.Config
	b, err := os.ReadFile(*cfgPath)
	if err != nil {
		fmt.Fprintln(os.Stderr, err)
		os.Exit(2)
	}
	if err := json.Unmarshal(b, &cfg); err != nil {
		fmt.Fprintln(os.Stderr, err)
		os.Exit(2)
	}
	if len(cfg.PairOf) == 2 {
		// a pair scenario: the first named configuration, plus the second as its peer in another namespace
		var parts [2]sim.Config
		for i, n := range cfg.PairOf {
			pb, err := os.ReadFile(filepath.Join(filepath.Dir(*cfgPath), n+".json"))
			if err == nil {
				err = json.Unmarshal(pb, &parts[i])
			}
			if err != nil {
				fmt.Fprintln(os.Stderr, err)
				os.Exit(2)
			}
		}
		name, ns := cfg.Name, cfg.PeerNS
		cfg = parts[0]
		cfg.Name, cfg.PeerNS, cfg.Peer = name, ns, &parts[1]
	}
	switch *mode {
	case "linear":
		os.Exit(sim.RunLinear(cfg, os.Stdout))
	case "replay":
		os.Exit(sim.RunReplay(cfg, *path, os.Stdout))
	case "explore":
		rc := sim.RunExplore(cfg, *out, *maxStates, *depth)
		pprof.StopCPUProfile()
		os.Exit(rc)
	case "init":
		os.Exit(sim.RunInit(cfg, os.Stdout))
	case "replayjson":
		os.Exit(sim.RunReplayJSON(cfg, *path, *out, os.Stdout))
	}
}
