// fn-validate: the real Rollout validating admission handler (RolloutCreateUpdateHandler.Handle,
// i.e. validateRollout / validateRolloutUpdate / validateRolloutSpec* / validateRolloutConflict and
// their v1alpha1 twins) over a structured bounded domain of admission requests (property C09, the
// "validation keeps its structural promises" half).
//
// Every case is an abstract record (spec/Validate.tla): API version, operation, the submitted spec,
// the old spec and the stored phase (UPDATE), and the other Rollouts the API server holds. The driver
// builds the concrete objects as raw JSON exactly as a user would submit them (absent fields, empty
// lists, malformed percent strings reach the handler untouched), puts the stored objects into the
// simulated API server, calls the REAL Handle() with a real admission.Request / Decoder and projects
// the response to {allowed, code, why}. A panic of the handler is recorded by fnlib.
//
// The stored Rollouts are storage-version (v1beta1) objects; for a v1alpha1 request the client of the
// handler sees what the API server would serve: their conversion by the REAL ConvertFrom.
package main

import (
	"context"
	"encoding/json"
	"fmt"
	"sort"
	"strings"

	"github.com/openkruise/rollouts/api/v1alpha1"
	"github.com/openkruise/rollouts/api/v1beta1"
	"github.com/openkruise/rollouts/pkg/webhook/rollout/validating"
	admissionv1 "k8s.io/api/admission/v1"
	metav1 "k8s.io/apimachinery/pkg/apis/meta/v1"
	"k8s.io/apimachinery/pkg/runtime"
	"sigs.k8s.io/controller-runtime/pkg/client"
	"sigs.k8s.io/controller-runtime/pkg/webhook/admission"

	"verif/harness/fnlib"
	"verif/harness/sim"
)

const (
	ns       = "default"
	roName   = "demo-ro"
	group    = "rollouts.kruise.io"
	styleKey = "rollouts.kruise.io/rolling-style"
)

// ------------------------------------------------------------------------------------------------
// abstract input (field names are the TLA+ record fields of spec/Validate.tla)

type WL struct {
	Present bool   `json:"present"`
	Group   string `json:"group"`
	Version string `json:"version"`
	Kind    string `json:"kind"`
	Name    string `json:"name"`
}

func (w WL) apiVersion() string {
	if w.Group == "" {
		return w.Version
	}
	return w.Group + "/" + w.Version
}

type Step struct {
	Rk    string `json:"rk"`    // replicas: none | int | pct | bad (a string that is no percentage)
	Rv    int    `json:"rv"`    // value of an int / pct replicas
	Rs    string `json:"rs"`    // the submitted text (information)
	Tk    string `json:"tk"`    // v1beta1 traffic: none | pct | bad
	Tv    int    `json:"tv"`    // value of a pct traffic
	Ts    string `json:"ts"`    // the submitted text (information)
	HasW  bool   `json:"hasW"`  // v1alpha1 weight present
	W     int    `json:"w"`     // v1alpha1 weight
	M     int    `json:"m"`     // matches: 0 absent, 1 empty list, 2 one header match
	Pause int    `json:"pause"` // -1 absent, 0 "pause: {}", n>0 duration
}

type TR struct {
	Svc     bool   `json:"svc"` // service non-empty
	SvcName string `json:"svcName"`
	Grace   int    `json:"grace"`   // gracePeriodSeconds (0 = absent)
	Ing     string `json:"ing"`     // none | named | empty (ingress block with name "")
	IngName string `json:"ingName"` //
	Gw      string `json:"gw"`      // none | named | empty (httpRouteName "") | noname (gateway: {})
	GwName  string `json:"gwName"`  //
	Custom  int    `json:"custom"`  // customNetworkRefs: -1 absent, 0 empty list, 1 one ref
}

type Spec struct {
	Strat    string `json:"strat"`    // canary | blueGreen | none | both
	Extra    bool   `json:"extra"`    // v1beta1 canary.enableExtraWorkloadForCanary
	Anno     string `json:"anno"`     // v1alpha1 rolling-style annotation as submitted
	AnnoFold string `json:"annoFold"` // lower-cased
	Wl       WL     `json:"wl"`
	Steps    []Step `json:"steps"`
	Tr       []TR   `json:"tr"`
	Paused   bool   `json:"paused"`
	Disabled bool   `json:"disabled"`
}

type Other struct {
	Name     string `json:"name"`
	SameNs   bool   `json:"sameNs"`
	Wl       WL     `json:"wl"`
	Deleting bool   `json:"deleting"`
	Disabled bool   `json:"disabled"`
	Strat    string `json:"strat"` // canary | blueGreen (stored v1beta1 object)
}

type In struct {
	Ver    string  `json:"ver"` // v1beta1 | v1alpha1: version of the admission request
	Op     string  `json:"op"`  // CREATE | UPDATE
	Fam    string  `json:"fam"`
	Diff   string  `json:"diff"` // UPDATE: the one thing new differs from old in ("n/a" for CREATE)
	Rel    string  `json:"rel"`  // relation of the other Rollouts' workload refs to the submitted one
	Limit  int     `json:"limit"`
	Name   string  `json:"name"`
	New    Spec    `json:"new"`
	Old    Spec    `json:"old"`   // = New for CREATE
	Phase  string  `json:"phase"` // stored status.phase of the object being updated ("" for CREATE)
	Others []Other `json:"others"`
}

type Out struct {
	Allowed bool     `json:"allowed"`
	Code    int      `json:"code"`
	Why     []string `json:"why"`
}

// ------------------------------------------------------------------------------------------------
// palettes

var (
	wlDep     = WL{true, "apps", "v1", "Deployment", "demo"}
	wlCS      = WL{true, "apps.kruise.io", "v1alpha1", "CloneSet", "demo"}
	wlSts     = WL{true, "apps", "v1", "StatefulSet", "demo"}
	wlASts    = WL{true, "apps.kruise.io", "v1beta1", "StatefulSet", "demo"}
	wlAStsOld = WL{true, "apps.kruise.io", "v1alpha1", "StatefulSet", "demo"}
	wlADS     = WL{true, "apps.kruise.io", "v1alpha1", "DaemonSet", "demo"}
	wlRS      = WL{true, "apps", "v1", "ReplicaSet", "demo"}
	wlJob     = WL{true, "batch", "v1", "Job", "demo"}
	wlDS      = WL{true, "apps", "v1", "DaemonSet", "demo"}
	wlDepOld  = WL{true, "apps", "v1beta1", "Deployment", "demo"}
	wlCSNew   = WL{true, "apps.kruise.io", "v1beta1", "CloneSet", "demo"}
	wlNone    = WL{false, "", "", "", ""}
)

func named(w WL, n string) WL { w.Name = n; return w }

func rNone() Step { return Step{Rk: "none", Tk: "none", Pause: -1} }
func rInt(n int) Step {
	return Step{Rk: "int", Rv: n, Rs: fmt.Sprint(n), Tk: "none", Pause: -1}
}
func rPct(n int) Step {
	return Step{Rk: "pct", Rv: n, Rs: fmt.Sprintf("%d%%", n), Tk: "none", Pause: -1}
}
func rBad(s string) Step { return Step{Rk: "bad", Rs: s, Tk: "none", Pause: -1} }

func (s Step) tPct(n int) Step    { s.Tk, s.Tv, s.Ts = "pct", n, fmt.Sprintf("%d%%", n); return s }
func (s Step) tBad(t string) Step { s.Tk, s.Tv, s.Ts = "bad", 0, t; return s }
func (s Step) weight(n int) Step  { s.HasW, s.W = true, n; return s }
func (s Step) matches(m int) Step { s.M = m; return s }
func (s Step) pause(p int) Step   { s.Pause = p; return s }

func trIngress(name string) TR {
	t := TR{Svc: true, SvcName: "svc", Ing: "named", IngName: name, Gw: "none", Custom: -1}
	if name == "" {
		t.Ing = "empty"
	}
	return t
}
func trGateway(kind, name string) TR {
	return TR{Svc: true, SvcName: "svc", Ing: "none", Gw: kind, GwName: name, Custom: -1}
}
func trCustom(n int) TR { return TR{Svc: true, SvcName: "svc", Ing: "none", Gw: "none", Custom: n} }

// ------------------------------------------------------------------------------------------------
// concrete objects

func wlJSON(w WL) map[string]interface{} {
	return map[string]interface{}{"apiVersion": w.apiVersion(), "kind": w.Kind, "name": w.Name}
}

func stepJSON(ver string, s Step) map[string]interface{} {
	m := map[string]interface{}{}
	switch s.Rk {
	case "int":
		m["replicas"] = s.Rv
	case "pct", "bad":
		m["replicas"] = s.Rs
	}
	if ver == "v1beta1" {
		if s.Tk != "none" {
			m["traffic"] = s.Ts
		}
	} else if s.HasW {
		m["weight"] = s.W
	}
	switch s.M {
	case 1:
		m["matches"] = []interface{}{}
	case 2:
		m["matches"] = []interface{}{map[string]interface{}{"headers": []interface{}{map[string]interface{}{"type": "Exact", "name": "user-agent", "value": "pc"}}}}
	}
	if s.Pause == 0 {
		m["pause"] = map[string]interface{}{}
	} else if s.Pause > 0 {
		m["pause"] = map[string]interface{}{"duration": s.Pause}
	}
	return m
}

func trJSON(t TR) map[string]interface{} {
	m := map[string]interface{}{"service": t.SvcName}
	if t.Grace != 0 {
		m["gracePeriodSeconds"] = t.Grace
	}
	if t.Ing != "none" {
		m["ingress"] = map[string]interface{}{"name": t.IngName, "classType": "nginx"}
	}
	switch t.Gw {
	case "named", "empty":
		m["gateway"] = map[string]interface{}{"httpRouteName": t.GwName}
	case "noname":
		m["gateway"] = map[string]interface{}{}
	}
	switch t.Custom {
	case 0:
		m["customNetworkRefs"] = []interface{}{}
	case 1:
		m["customNetworkRefs"] = []interface{}{map[string]interface{}{"apiVersion": "networking.istio.io/v1alpha3", "kind": "VirtualService", "name": "vs"}}
	}
	return m
}

func strategyBlock(ver string, sp Spec, withExtra bool) map[string]interface{} {
	b := map[string]interface{}{}
	if len(sp.Steps) > 0 {
		var l []interface{}
		for _, s := range sp.Steps {
			l = append(l, stepJSON(ver, s))
		}
		b["steps"] = l
	}
	if len(sp.Tr) > 0 {
		var l []interface{}
		for _, t := range sp.Tr {
			l = append(l, trJSON(t))
		}
		b["trafficRoutings"] = l
	}
	if withExtra && sp.Extra {
		b["enableExtraWorkloadForCanary"] = true
	}
	return b
}

// rolloutJSON builds the object a user submits in API version ver.
func rolloutJSON(ver, name string, sp Spec, phase string) []byte {
	md := map[string]interface{}{"name": name, "namespace": ns, "uid": "uid-" + name}
	spec := map[string]interface{}{}
	strategy := map[string]interface{}{}
	if sp.Paused {
		strategy["paused"] = true
	}
	if ver == "v1beta1" {
		if sp.Wl.Present {
			spec["workloadRef"] = wlJSON(sp.Wl)
		}
		if sp.Strat == "canary" || sp.Strat == "both" {
			strategy["canary"] = strategyBlock(ver, sp, true)
		}
		if sp.Strat == "blueGreen" || sp.Strat == "both" {
			strategy["blueGreen"] = strategyBlock(ver, sp, false)
		}
	} else {
		or := map[string]interface{}{}
		if sp.Wl.Present {
			or["workloadRef"] = wlJSON(sp.Wl)
		}
		spec["objectRef"] = or
		if sp.Strat == "canary" {
			strategy["canary"] = strategyBlock(ver, sp, false)
		}
		if sp.Anno != "" {
			md["annotations"] = map[string]interface{}{styleKey: sp.Anno}
		}
	}
	spec["strategy"] = strategy
	if sp.Disabled {
		spec["disabled"] = true
	}
	o := map[string]interface{}{"apiVersion": group + "/" + ver, "kind": "Rollout", "metadata": md, "spec": spec}
	if phase != "" {
		o["status"] = map[string]interface{}{"phase": phase}
	}
	b, err := json.Marshal(o)
	if err != nil {
		panic(err)
	}
	return b
}

// storedB builds the storage-version object of a Rollout the API server already holds.
func storedB(name, namespace string, sp Spec, phase string) *v1beta1.Rollout {
	o := &v1beta1.Rollout{}
	if err := json.Unmarshal(rolloutJSON("v1beta1", name, sp, phase), o); err != nil {
		panic(err)
	}
	o.Namespace = namespace
	return o
}

// put stores obj (and its status); deleting marks it as being deleted (finalizer kept).
func put(s *sim.Store, obj client.Object, deleting bool) error {
	if deleting {
		obj.SetFinalizers([]string{"rollouts.kruise.io/rollout"})
	}
	obj.SetUID("")
	if err := s.Put(obj); err != nil {
		return err
	}
	if err := s.PutStatus(obj); err != nil {
		return err
	}
	if deleting {
		return s.Delete(context.TODO(), obj)
	}
	return nil
}

// serve puts the storage-version object b into the store as the API server would serve it in ver.
func serve(s *sim.Store, ver string, b *v1beta1.Rollout, deleting bool) error {
	if ver == "v1beta1" {
		return put(s, b, deleting)
	}
	a := &v1alpha1.Rollout{}
	if err := a.ConvertFrom(b); err != nil { // the REAL conversion the conversion webhook runs
		return err
	}
	return put(s, a, deleting)
}

var otherSteps = []Step{rPct(20), rPct(100)}

func otherSpec(o Other) Spec {
	sp := Spec{Strat: o.Strat, Wl: o.Wl, Steps: otherSteps, Disabled: o.Disabled}
	return sp
}

var reasons = []struct{ text, tok string }{
	{"WorkloadRef is required", "ref"},
	{"WorkloadRef kind is not supported", "ref"},
	{"Canary and BlueGreen cannot both be", "strategy"},
	{"Canary cannot be empty", "strategy"},
	{"The number of Canary.Steps cannot be empty", "steps"},
	{"replicas cannot be empty", "steps"},
	{"replicas must be positive number", "steps"},
	{"must not greater than partition-percent-limit", "steps"},
	{"must not greater than replicasLimitWithTraffic", "steps"},
	{"traffic must be percentage", "steps"},
	{"must be a non decreasing sequence", "steps"},
	{"weight and replicas cannot be empty", "steps"},
	{"weight must be positive number", "steps"},
	{"only support single TrafficRouting", "traffic"},
	{"GracePeriodSeconds cannot be negative", "traffic"},
	{"TrafficRouting.Service cannot be empty", "traffic"},
	{"TrafficRoutings are not set", "traffic"},
	{"TrafficRouting.Ingress.Ingress cannot be empty", "traffic"},
	{"must set the name of HTTPRoute", "traffic"},
	{"Rolling style must be", "style"},
	{"This rollout conflict with", "conflict"},
	{"'ObjectRef' field is immutable", "immRef"},
	{"TrafficRoutings' field is immutable", "immTraffic"},
	{"Rollout style and enableExtraWorkloadForCanary are immutable", "immStyle"},
	{"'Rolling-Style' annotation is immutable", "immStyle"},
	{"Amount of Rollout steps are immutable", "immSteps"},
}

func whyOf(msg string, code int32) []string {
	set := map[string]bool{}
	for _, r := range reasons {
		if strings.Contains(msg, r.text) {
			set[r.tok] = true
		}
	}
	if len(set) == 0 {
		if code == 400 {
			set["decode"] = true
		} else {
			set["other"] = true
		}
	}
	out := []string{}
	for k := range set {
		out = append(out, k)
	}
	sort.Strings(out)
	return out
}

var decoder *admission.Decoder

func run(in In) (interface{}, error) {
	s := sim.NewStore(sim.GlobalScheme())
	for _, o := range in.Others {
		nsp := ns
		if !o.SameNs {
			nsp = "elsewhere"
		}
		if err := serve(s, in.Ver, storedB(o.Name, nsp, otherSpec(o), "Healthy"), o.Deleting); err != nil {
			return nil, fmt.Errorf("fixture: %v", err)
		}
	}
	newRaw := rolloutJSON(in.Ver, in.Name, in.New, in.Phase)
	var oldRaw []byte
	op := admissionv1.Create
	if in.Op == "UPDATE" {
		op = admissionv1.Update
		if in.Ver == "v1alpha1" && in.Old.Strat == "blueGreen" {
			// a stored blue-green Rollout read and updated through the v1alpha1 API
			b := storedB(in.Name, ns, in.Old, in.Phase)
			if err := serve(s, in.Ver, b, false); err != nil {
				return nil, fmt.Errorf("fixture: %v", err)
			}
			view := &v1alpha1.Rollout{}
			if err := view.ConvertFrom(b); err != nil {
				return nil, fmt.Errorf("fixture: %v", err)
			}
			view.APIVersion, view.Kind = group+"/v1alpha1", "Rollout"
			oldRaw, _ = json.Marshal(view)
		} else {
			oldRaw = rolloutJSON(in.Ver, in.Name, in.Old, in.Phase)
			var obj client.Object
			if in.Ver == "v1beta1" {
				obj = &v1beta1.Rollout{}
			} else {
				obj = &v1alpha1.Rollout{}
			}
			if err := json.Unmarshal(oldRaw, obj); err != nil {
				return nil, fmt.Errorf("fixture: %v", err)
			}
			if err := put(s, obj, in.Phase == "Terminating"); err != nil {
				return nil, fmt.Errorf("fixture: %v", err)
			}
		}
	}
	req := admission.Request{AdmissionRequest: admissionv1.AdmissionRequest{
		UID:       "verif",
		Kind:      metav1.GroupVersionKind{Group: group, Version: in.Ver, Kind: "Rollout"},
		Resource:  metav1.GroupVersionResource{Group: group, Version: in.Ver, Resource: "rollouts"},
		Name:      in.Name,
		Namespace: ns,
		Operation: op,
		Object:    runtime.RawExtension{Raw: newRaw},
		OldObject: runtime.RawExtension{Raw: oldRaw},
	}}
	h := &validating.RolloutCreateUpdateHandler{Client: s, Decoder: decoder}
	resp := h.Handle(context.TODO(), req) // the REAL handler
	out := Out{Allowed: resp.Allowed, Why: []string{}}
	if resp.Result != nil {
		out.Code = int(resp.Result.Code)
		if !resp.Allowed {
			out.Why = whyOf(resp.Result.Message, resp.Result.Code)
		}
	}
	return out, nil
}

// ------------------------------------------------------------------------------------------------
// the domain

type ctx struct {
	ver   string
	strat string
	extra bool
	anno  string
	wl    WL
}

func (c ctx) spec(steps []Step, tr []TR) Spec {
	if steps == nil {
		steps = []Step{}
	}
	if tr == nil {
		tr = []TR{}
	}
	return Spec{Strat: c.strat, Extra: c.extra, Anno: c.anno, AnnoFold: strings.ToLower(c.anno), Wl: c.wl, Steps: steps, Tr: tr}
}

type gen struct {
	w     *fnlib.Writer
	limit int
}

func relOf(others []Other, rels []string) string {
	if len(others) == 0 {
		return "none"
	}
	return strings.Join(rels, "+")
}

func (g *gen) create(fam string, ver string, sp Spec, others []Other, rels []string) {
	if others == nil {
		others = []Other{}
	}
	in := In{Ver: ver, Op: "CREATE", Fam: fam, Diff: "n/a", Rel: relOf(others, rels), Limit: g.limit, Name: roName, New: sp, Old: sp, Phase: "", Others: others}
	g.w.Run(in, func() (interface{}, error) { return run(in) })
}

func (g *gen) update(fam string, ver string, diff string, old, nw Spec, phase string, others []Other, rels []string) {
	if others == nil {
		others = []Other{}
	}
	in := In{Ver: ver, Op: "UPDATE", Fam: fam, Diff: diff, Rel: relOf(others, rels), Limit: g.limit, Name: roName, New: nw, Old: old, Phase: phase, Others: others}
	g.w.Run(in, func() (interface{}, error) { return run(in) })
}

func seqs(pal []Step, n int) [][]Step {
	if n == 0 {
		return [][]Step{{}}
	}
	var out [][]Step
	for _, pre := range seqs(pal, n-1) {
		for _, s := range pal {
			q := append(append([]Step{}, pre...), s)
			out = append(out, q)
		}
	}
	return out
}

func cloneSteps(a []Step) []Step { return append([]Step{}, a...) }

func main() {
	fl := fnlib.ParseFlags()
	w, err := fnlib.NewWriter(fl)
	if err != nil {
		panic(err)
	}
	sim.InitProcess()
	decoder, err = admission.NewDecoder(sim.GlobalScheme())
	if err != nil {
		panic(err)
	}
	thorough := fl.Tier == "thorough"
	g := &gen{w: w, limit: validating.PartitionReplicasLimitWithTraffic}

	// ---- contexts ----------------------------------------------------------------------------
	mainWls := []WL{wlDep, wlCS, wlSts}
	if thorough {
		mainWls = []WL{wlDep, wlCS, wlSts, wlASts, wlADS, wlJob}
	}
	var ctxB, ctxA []ctx
	for _, wl := range mainWls {
		ctxB = append(ctxB, ctx{"v1beta1", "canary", false, "", wl}, ctx{"v1beta1", "canary", true, "", wl}, ctx{"v1beta1", "blueGreen", false, "", wl})
		ctxA = append(ctxA, ctx{"v1alpha1", "canary", false, "", wl}, ctx{"v1alpha1", "canary", false, "canary", wl}, ctx{"v1alpha1", "canary", false, "partition", wl})
	}

	// ---- family step1: one step, the full palette of replicas x traffic x matches --------------
	reps := []Step{rNone(), rInt(-1), rInt(0), rInt(1), rInt(5), rInt(100), rInt(150),
		rPct(-5), rPct(0), rPct(1), rPct(50), rPct(51), rPct(100), rPct(101), rPct(150), rBad("5"), rBad("abc%")}
	for _, c := range ctxB {
		for _, r := range reps {
			for _, m := range []int{0, 1, 2} {
				ts := []Step{r, r.tPct(-5), r.tPct(0), r.tPct(1), r.tPct(50), r.tPct(100), r.tPct(101), r.tBad("50"), r.tBad("abc%")}
				for _, t := range ts {
					g.create("step1", c.ver, c.spec([]Step{t.matches(m)}, nil), nil, nil)
				}
			}
		}
	}
	for _, c := range ctxA {
		for _, r := range reps {
			for _, m := range []int{0, 1, 2} {
				ws := []Step{r, r.weight(-5), r.weight(0), r.weight(1), r.weight(50), r.weight(51), r.weight(100), r.weight(101)}
				for _, t := range ws {
					g.create("step1", c.ver, c.spec([]Step{t.matches(m)}, nil), nil, nil)
				}
			}
		}
	}

	// ---- families step2 / step3: sequences (decreasing / equal / increasing, int and percent mixed)
	seqWls := []WL{wlDep, wlCS}
	if thorough {
		seqWls = []WL{wlDep, wlCS, wlSts}
	}
	palB := []Step{rInt(1), rInt(5), rPct(10), rPct(50), rPct(60), rPct(100)}
	if thorough {
		palB = append(palB, rNone(), rInt(150), rPct(101))
	}
	for _, wl := range seqWls {
		for _, c := range []ctx{{"v1beta1", "canary", false, "", wl}, {"v1beta1", "canary", true, "", wl}, {"v1beta1", "blueGreen", false, "", wl}} {
			for n := 2; n <= 3; n++ {
				for _, q := range seqs(palB, n) {
					fam := fmt.Sprintf("step%d", n)
					g.create(fam, c.ver, c.spec(q, nil), nil, nil) // no traffic anywhere
					a := cloneSteps(q)
					for i := range a {
						a[i] = a[i].tPct(20)
					}
					g.create(fam, c.ver, c.spec(a, []TR{trIngress("ing")}), nil, nil) // weight on every step
					b := cloneSteps(q)
					b[n-1] = b[n-1].matches(2)
					g.create(fam, c.ver, c.spec(b, []TR{trIngress("ing")}), nil, nil) // header match on the last step
					d := cloneSteps(q)
					d[0] = d[0].tPct(0)
					g.create(fam, c.ver, c.spec(d, []TR{trIngress("ing")}), nil, nil) // "0%" on the first step
				}
			}
		}
	}
	// v1alpha1: a step is (replicas?, weight?)
	mk := func(rs []Step, ws []int) []Step {
		var out []Step
		for _, r := range rs {
			out = append(out, r)
			for _, wv := range ws {
				out = append(out, r.weight(wv))
			}
		}
		return out
	}
	palA2 := mk([]Step{rNone(), rInt(1), rInt(5), rPct(10), rPct(50), rPct(60), rPct(100)}, []int{10, 50, 60})
	palA3 := mk([]Step{rNone(), rInt(5), rPct(10), rPct(60)}, []int{10, 60})
	if thorough {
		palA3 = mk([]Step{rNone(), rInt(1), rInt(5), rPct(10), rPct(50), rPct(60)}, []int{10, 50, 60})
	}
	ctxSeqA := []ctx{{"v1alpha1", "canary", false, "", wlDep}, {"v1alpha1", "canary", false, "partition", wlDep}, {"v1alpha1", "canary", false, "", wlCS}}
	for _, c := range ctxSeqA {
		for _, tr := range [][]TR{nil, {trIngress("ing")}} {
			for _, q := range seqs(palA2, 2) {
				g.create("step2", c.ver, c.spec(q, tr), nil, nil)
			}
			for _, q := range seqs(palA3, 3) {
				g.create("step3", c.ver, c.spec(q, tr), nil, nil)
			}
		}
	}

	// ---- family wl: every workload reference x every style / strategy shape ----------------------
	allWls := []WL{wlDep, wlCS, wlSts, wlASts, wlAStsOld, wlADS, wlRS, wlJob, wlDS, wlDepOld, wlCSNew, wlNone}
	var ctxWB, ctxWA []ctx
	for _, wl := range allWls {
		ctxWB = append(ctxWB, ctx{"v1beta1", "canary", false, "", wl}, ctx{"v1beta1", "canary", true, "", wl}, ctx{"v1beta1", "blueGreen", false, "", wl},
			ctx{"v1beta1", "none", false, "", wl}, ctx{"v1beta1", "both", false, "", wl})
		for _, an := range []string{"", "canary", "Canary", "partition", "Partition", "bluegreen"} {
			ctxWA = append(ctxWA, ctx{"v1alpha1", "canary", false, an, wl})
		}
		ctxWA = append(ctxWA, ctx{"v1alpha1", "none", false, "", wl}, ctx{"v1alpha1", "none", false, "partition", wl})
	}
	for _, c := range ctxWB {
		for _, st := range [][]Step{{rPct(20).tPct(20), rPct(100)}, {}, {rPct(60).tPct(60)}, {rInt(5), rInt(3)}} {
			g.create("wl", c.ver, c.spec(st, nil), nil, nil)
		}
	}
	for _, c := range ctxWA {
		for _, st := range [][]Step{{rPct(20).weight(20), rPct(100)}, {}, {rPct(60).weight(60)}, {rNone().weight(60)}, {rInt(5), rInt(3)}} {
			g.create("wl", c.ver, c.spec(st, nil), nil, nil)
		}
	}

	// ---- family tr: traffic routing shapes --------------------------------------------------------
	noSvc := trIngress("ing")
	noSvc.Svc, noSvc.SvcName = false, ""
	negGrace := trIngress("ing")
	negGrace.Grace = -1
	grace5 := trIngress("ing")
	grace5.Grace = 5
	both := trIngress("ing")
	both.Gw, both.GwName = "named", "route"
	noProvider := TR{Svc: true, SvcName: "svc", Ing: "none", Gw: "none", Custom: -1}
	trShapes := [][]TR{
		nil, {trIngress("ing")}, {trIngress("")}, {trGateway("named", "route")}, {trGateway("empty", "")}, {trGateway("noname", "")},
		{trCustom(1)}, {trCustom(0)}, {noProvider}, {noSvc}, {negGrace}, {grace5}, {both},
		{trIngress("ing"), trGateway("named", "route")}, {trIngress("ing"), trIngress("ing")}, {trIngress("ing"), noProvider}, {noProvider, noSvc},
	}
	ctxTR := []ctx{{"v1beta1", "canary", false, "", wlDep}, {"v1beta1", "canary", true, "", wlDep}, {"v1beta1", "blueGreen", false, "", wlCS},
		{"v1alpha1", "canary", false, "", wlDep}, {"v1alpha1", "canary", false, "partition", wlCS}}
	for _, c := range ctxTR {
		for _, tr := range trShapes {
			var st []Step
			if c.ver == "v1beta1" {
				st = []Step{rPct(20).tPct(20), rPct(50).tPct(50), rPct(100)}
			} else {
				st = []Step{rPct(20).weight(20), rPct(50).weight(50), rPct(100)}
			}
			g.create("tr", c.ver, c.spec(st, tr), nil, nil)
			g.create("tr", c.ver, c.spec([]Step{}, tr), nil, nil)
		}
	}

	// ---- family misc: pause / paused / disabled / traffic and matches together -------------------
	for _, c := range ctxTR {
		for _, p := range []int{-1, 0, 5} {
			for _, paused := range []bool{false, true} {
				for _, disabled := range []bool{false, true} {
					var st []Step
					if c.ver == "v1beta1" {
						st = []Step{rPct(20).tPct(20).matches(2).pause(p), rPct(50).pause(p), rPct(100)}
					} else {
						st = []Step{rPct(20).weight(20).matches(2).pause(p), rNone().weight(50).pause(p), rPct(100)}
					}
					sp := c.spec(st, []TR{trIngress("ing")})
					sp.Paused, sp.Disabled = paused, disabled
					g.create("misc", c.ver, sp, nil, nil)
				}
			}
		}
	}

	// ---- family conflict: CREATE while other Rollouts exist ----------------------------------------
	type oset struct {
		rels []string
		mk   func(mine WL, alt WL) []Other
	}
	o := func(name string, sameNs bool, wl WL, deleting, disabled bool, strat string) Other {
		return Other{Name: name, SameNs: sameNs, Wl: wl, Deleting: deleting, Disabled: disabled, Strat: strat}
	}
	osets := []oset{
		{[]string{"sameRef"}, func(m, a WL) []Other { return []Other{o("r2", true, m, false, false, "canary")} }},
		{[]string{"otherName"}, func(m, a WL) []Other { return []Other{o("r2", true, named(m, "other"), false, false, "canary")} }},
		{[]string{"otherKind"}, func(m, a WL) []Other { return []Other{o("r2", true, named(wlADS, m.Name), false, false, "canary")} }},
		{[]string{"otherVersion"}, func(m, a WL) []Other { return []Other{o("r2", true, a, false, false, "canary")} }},
		{[]string{"sameRefOtherNs"}, func(m, a WL) []Other { return []Other{o("r2", false, m, false, false, "canary")} }},
		{[]string{"sameRefDeleting"}, func(m, a WL) []Other { return []Other{o("r2", true, m, true, false, "canary")} }},
		{[]string{"sameRefDisabled"}, func(m, a WL) []Other { return []Other{o("r2", true, m, false, true, "canary")} }},
		{[]string{"sameRefBlueGreen"}, func(m, a WL) []Other { return []Other{o("r2", true, m, false, false, "blueGreen")} }},
		{[]string{"otherNameBlueGreen"}, func(m, a WL) []Other { return []Other{o("r2", true, named(m, "other"), false, false, "blueGreen")} }},
		{[]string{"otherName", "sameRef"}, func(m, a WL) []Other {
			return []Other{o("r2", true, named(m, "other"), false, false, "canary"), o("r3", true, m, false, false, "canary")}
		}},
		{[]string{"sameRefOtherNs", "otherKind"}, func(m, a WL) []Other {
			return []Other{o("r2", false, m, false, false, "canary"), o("r3", true, named(wlADS, m.Name), false, false, "canary")}
		}},
		{[]string{"otherName", "otherVersion"}, func(m, a WL) []Other {
			return []Other{o("r2", true, named(m, "other"), false, false, "canary"), o("r3", true, a, false, false, "canary")}
		}},
	}
	type wlPair struct{ mine, alt WL }
	pairs := []wlPair{{wlDep, wlDepOld}, {wlCS, wlCSNew}, {wlASts, wlAStsOld}}
	for _, p := range pairs {
		cs := []ctx{{"v1beta1", "canary", false, "", p.mine}, {"v1beta1", "canary", true, "", p.mine}, {"v1beta1", "blueGreen", false, "", p.mine},
			{"v1alpha1", "canary", false, "", p.mine}, {"v1alpha1", "canary", false, "partition", p.mine}}
		for _, c := range cs {
			for _, os := range osets {
				others := os.mk(p.mine, p.alt)
				g.create("conflict", c.ver, c.spec([]Step{rPct(20), rPct(100)}, nil), others, os.rels)
				g.create("conflict", c.ver, c.spec([]Step{}, nil), others, os.rels) // invalid spec and a conflict
			}
		}
	}
	// a submitted object without workload reference next to others
	for _, c := range []ctx{{"v1beta1", "canary", false, "", wlNone}, {"v1alpha1", "canary", false, "partition", wlNone}} {
		g.create("conflict", c.ver, c.spec([]Step{rPct(20)}, nil), []Other{o("r2", true, wlDep, false, false, "canary")}, []string{"otherName"})
	}

	// ---- family update ----------------------------------------------------------------------------
	type base struct {
		c     ctx
		steps []Step
		tr    []TR
	}
	stB := []Step{rPct(20).tPct(20), rPct(50), rPct(100)}
	stA := []Step{rPct(20).weight(20), rPct(50), rPct(100)}
	bases := []base{
		{ctx{"v1beta1", "canary", false, "", wlDep}, stB, []TR{trIngress("ing")}},
		{ctx{"v1beta1", "canary", true, "", wlDep}, stB, []TR{trIngress("ing")}},
		{ctx{"v1beta1", "canary", false, "", wlCS}, stB, nil},
		{ctx{"v1beta1", "blueGreen", false, "", wlDep}, stB, []TR{trIngress("ing")}},
		{ctx{"v1beta1", "blueGreen", false, "", wlCS}, stB, nil},
		{ctx{"v1alpha1", "canary", false, "", wlDep}, stA, []TR{trIngress("ing")}},
		{ctx{"v1alpha1", "canary", false, "canary", wlDep}, stA, nil},
		{ctx{"v1alpha1", "canary", false, "partition", wlCS}, stA, []TR{trIngress("ing")}},
		{ctx{"v1alpha1", "canary", false, "partition", wlDep}, stA, nil},
	}
	type change struct {
		diff string
		ok   func(b base) bool
		f    func(s *Spec)
	}
	anyB := func(b base) bool { return true }
	isB := func(b base) bool { return b.c.ver == "v1beta1" }
	isA := func(b base) bool { return b.c.ver == "v1alpha1" }
	changes := []change{
		{"none", anyB, func(s *Spec) {}},
		{"workloadRef.name", anyB, func(s *Spec) { s.Wl.Name = "other" }},
		{"workloadRef.kind", anyB, func(s *Spec) {
			if s.Wl.Kind == "CloneSet" {
				s.Wl = wlDep
			} else {
				s.Wl = wlCS
			}
		}},
		{"workloadRef.version", anyB, func(s *Spec) {
			if s.Wl.Kind == "CloneSet" {
				s.Wl = wlCSNew
			} else {
				s.Wl = wlDepOld
			}
		}},
		{"trafficRoutings.toggle", anyB, func(s *Spec) {
			if len(s.Tr) == 0 {
				s.Tr = []TR{trIngress("ing")}
			} else {
				s.Tr = []TR{}
			}
		}},
		{"trafficRoutings.ingressName", func(b base) bool { return len(b.tr) > 0 }, func(s *Spec) { s.Tr = []TR{trIngress("ing2")} }},
		{"trafficRoutings.provider", func(b base) bool { return len(b.tr) > 0 }, func(s *Spec) { s.Tr = []TR{trGateway("named", "route")} }},
		{"trafficRoutings.service", func(b base) bool { return len(b.tr) > 0 }, func(s *Spec) {
			t := trIngress("ing")
			t.SvcName = "svc2"
			s.Tr = []TR{t}
		}},
		{"trafficRoutings.grace", func(b base) bool { return len(b.tr) > 0 }, func(s *Spec) { s.Tr = []TR{grace5} }},
		{"style.extra", func(b base) bool { return isB(b) && b.c.strat == "canary" }, func(s *Spec) { s.Extra = !s.Extra }},
		{"style.strategy", isB, func(s *Spec) {
			if s.Strat == "canary" {
				s.Strat, s.Extra = "blueGreen", false
			} else {
				s.Strat = "canary"
			}
		}},
		{"style.annotation", isA, func(s *Spec) {
			if s.AnnoFold == "partition" {
				s.Anno, s.AnnoFold = "canary", "canary"
			} else {
				s.Anno, s.AnnoFold = "partition", "partition"
			}
		}},
		{"style.annotationCase", isA, func(s *Spec) {
			switch s.Anno {
			case "partition":
				s.Anno = "Partition"
			case "canary":
				s.Anno = "Canary"
			default:
				s.Anno, s.AnnoFold = "canary", "canary" // "" -> "canary": the same effective style
			}
		}},
		{"nsteps.add", anyB, func(s *Spec) { s.Steps = append(cloneSteps(s.Steps), rPct(100)) }},
		{"nsteps.remove", anyB, func(s *Spec) { s.Steps = cloneSteps(s.Steps[:len(s.Steps)-1]) }},
		{"nsteps.removeAll", anyB, func(s *Spec) { s.Steps = []Step{} }},
		{"step.replicas", anyB, func(s *Spec) { s.Steps = cloneSteps(s.Steps); s.Steps[1].Rv, s.Steps[1].Rs = 40, "40%" }},
		{"step.replicasDecreasing", anyB, func(s *Spec) { s.Steps = cloneSteps(s.Steps); s.Steps[1].Rv, s.Steps[1].Rs = 10, "10%" }},
		{"step.traffic", anyB, func(s *Spec) {
			s.Steps = cloneSteps(s.Steps)
			if s.Steps[0].HasW {
				s.Steps[0].W = 10
			} else {
				s.Steps[0] = s.Steps[0].tPct(10)
			}
		}},
		{"step.pause", anyB, func(s *Spec) { s.Steps = cloneSteps(s.Steps); s.Steps[0].Pause = 30 }},
		{"paused", anyB, func(s *Spec) { s.Paused = !s.Paused }},
		{"disabled", anyB, func(s *Spec) { s.Disabled = !s.Disabled }},
	}
	phases := []string{"Initial", "Healthy", "Progressing", "Terminating", "Disabled"}
	for _, b := range bases {
		old := b.c.spec(b.steps, b.tr)
		for _, ph := range phases {
			for _, ch := range changes {
				if !ch.ok(b) {
					continue
				}
				nw := old
				ch.f(&nw)
				g.update("update", b.c.ver, ch.diff, old, nw, ph, nil, nil)
				if strings.HasPrefix(ch.diff, "workloadRef") || ch.diff == "none" {
					// another Rollout already owns the workload the update points to / an unrelated one
					g.update("update", b.c.ver, ch.diff, old, nw, ph, []Other{o("r2", true, nw.Wl, false, false, "canary")}, []string{"sameRef"})
					g.update("update", b.c.ver, ch.diff, old, nw, ph, []Other{o("r2", true, named(nw.Wl, "third"), false, false, "canary")}, []string{"otherName"})
				}
			}
		}
	}
	// a stored blue-green Rollout (only v1beta1 has blue-green) updated through the v1alpha1 API
	for _, wl := range []WL{wlDep, wlCS} {
		oldBG := ctx{"v1beta1", "blueGreen", false, "", wl}.spec(stB, []TR{trIngress("ing")})
		for _, ph := range phases {
			for _, an := range []string{"", "partition"} {
				nw := ctx{"v1alpha1", "canary", false, an, wl}.spec(stA, []TR{trIngress("ing")})
				g.update("updateBlueGreenViaAlpha", "v1alpha1", "style.strategy", oldBG, nw, ph, nil, nil)
			}
			empty := ctx{"v1alpha1", "none", false, "", wlNone}.spec(nil, nil) // the (empty) view written back unchanged
			g.update("updateBlueGreenViaAlpha", "v1alpha1", "viewUnchanged", oldBG, empty, ph, nil, nil)
		}
	}

	w.Close(true, map[string]interface{}{"limit": g.limit, "families": []string{"step1", "step2", "step3", "wl", "tr", "misc", "conflict", "update", "updateBlueGreenViaAlpha"}})
}
