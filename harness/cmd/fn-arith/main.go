// fn-arith: the real percent/ceil arithmetic of the BatchRelease controller over an exhaustive
// bounded domain: CalculateBatchReplicas, ParseIntegerAsPercentageIfPossible and the CloneSet
// control.CalculateBatchContext (desired partition), for every replicas R and every plan step.
package main

import (
	"context"
	"fmt"

	kruisev1alpha1 "github.com/openkruise/kruise-api/apps/v1alpha1"
	"github.com/openkruise/rollouts/api/v1beta1"
	"github.com/openkruise/rollouts/pkg/controller/batchrelease/control"
	"github.com/openkruise/rollouts/pkg/controller/batchrelease/control/partitionstyle/cloneset"
	metav1 "k8s.io/apimachinery/pkg/apis/meta/v1"
	"k8s.io/apimachinery/pkg/types"
	"k8s.io/apimachinery/pkg/util/intstr"
	utilpointer "k8s.io/utils/pointer"

	"verif/harness/fnlib"
	"verif/harness/sim"
)

func main() {
	fl := fnlib.ParseFlags()
	w, err := fnlib.NewWriter(fl)
	if err != nil {
		panic(err)
	}
	rmax := 40
	if fl.Tier == "thorough" {
		rmax = 200
	}
	sim.InitProcess()
	for R := 1; R <= rmax; R++ {
		var steps []intstr.IntOrString
		for p := 0; p <= 100; p++ {
			steps = append(steps, intstr.FromString(fmt.Sprintf("%d%%", p)))
		}
		for n := 0; n <= R+2; n++ {
			steps = append(steps, intstr.FromInt(n))
		}
		for _, st := range steps {
			st := st
			rep, pct := -1, -1
			if st.Type == intstr.Int {
				rep = int(st.IntVal)
			} else {
				fmt.Sscanf(st.StrVal, "%d%%", &pct)
			}
			in := map[string]interface{}{"R": R, "rep": rep, "pct": pct, "is100": st.StrVal == "100%"}
			w.Run(in, func() (interface{}, error) {
				br := &v1beta1.BatchRelease{
					ObjectMeta: metav1.ObjectMeta{Namespace: "default", Name: "br", UID: "br-uid"},
					Spec: v1beta1.BatchReleaseSpec{ReleasePlan: v1beta1.ReleasePlan{Batches: []v1beta1.ReleaseBatch{{CanaryReplicas: st}}}},
				}
				br.Status.UpdateRevision = "demo-v2"
				planned := control.CalculateBatchReplicas(br, R, 0)
				// the real CloneSet control computes the partition it would write
				s := sim.NewStore(sim.GlobalScheme())
				cs := &kruisev1alpha1.CloneSet{ObjectMeta: metav1.ObjectMeta{Namespace: "default", Name: "demo"},
					Spec: kruisev1alpha1.CloneSetSpec{Replicas: utilpointer.Int32(int32(R)), Selector: &metav1.LabelSelector{MatchLabels: map[string]string{"app": "demo"}}}}
				if err := s.Put(cs); err != nil {
					return nil, err
				}
				// a settled workload: status agrees with spec
				cs.Status.ObservedGeneration, cs.Status.Replicas, cs.Status.ReadyReplicas = 1, int32(R), int32(R)
				cs.Status.UpdateRevision, cs.Status.CurrentRevision = "demo-v2", "demo-v1"
				if err := s.PutStatus(cs); err != nil {
					return nil, err
				}
				rc := cloneset.NewController(s, types.NamespacedName{Namespace: "default", Name: "demo"}, kruisev1alpha1.SchemeGroupVersion.WithKind("CloneSet"))
				ctrl, err := rc.BuildController()
				if err != nil {
					return nil, err
				}
				bc, err := ctrl.CalculateBatchContext(br)
				if err != nil {
					return nil, err
				}
				ktype, kval := "int", int(bc.DesiredPartition.IntVal)
				if bc.DesiredPartition.Type == intstr.String {
					ktype = "pct"
					fmt.Sscanf(bc.DesiredPartition.StrVal, "%d%%", &kval)
				}
				_ = context.TODO()
				return map[string]interface{}{"planned": planned, "ktype": ktype, "kval": kval, "desiredUpdated": int(bc.DesiredUpdatedReplicas)}, nil
			})
		}
	}
	w.Close(true, map[string]interface{}{"rmax": rmax})
}
