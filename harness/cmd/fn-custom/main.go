// fn-custom: the real custom (Lua) network provider of openkruise/rollouts
// (pkg/trafficrouting/network/customNetworkProvider: Initialize / EnsureRoutes / Finalise, the real
// luamanager and the shipped Istio VirtualService / DestinationRule scripts) over a bounded domain of
// unstructured objects x step sequences x referenced resources, against the simulated API server.
//
// One case = one (referenced objects, conf, step sequence). The driver runs
//
//	run A: Initialize; every step of the sequence (EnsureRoutes until it reports done, or once);
//	       one more EnsureRoutes of the last step (write accounting); Finalise
//	run B: (fresh store, same objects) Initialize; only the LAST step of the sequence
//
// and records, per referenced object, canonical JSON strings of {spec, labels, annotations} (API
// normalised: empty label/annotation maps are absent; the snapshot annotation is reported separately)
// at four instants: original, after run A's steps, after run B's single step, after Finalise. The
// canonical strings are produced by this driver's own projection (sorted-key JSON of what the store
// returns), independent of the comparison code of the provider; TLC compares them.
//
// Families: gen (generated objects x generated well-behaved scripts supplied through the ConfigMap),
// vs (shipped VirtualService script; one "probe" route carries the hard shape, context routes are
// plain; optionally a DestinationRule as second reference), dr (shipped DestinationRule script).
//
// The cases are independent and the real code is slow (a Lua state per call), so the parent process
// starts up to 16 copies of itself (-shard i/n, case index modulo n), then merges their raw results in
// enumeration order through fnlib: ids and outputs do not depend on the number of processes. -only ID
// executes that one case in-process through the same code path.
package main

import (
	"bufio"
	"context"
	"encoding/json"
	"flag"
	"fmt"
	"os"
	"os/exec"
	"runtime"
	"runtime/debug"
	"sort"
	"strconv"
	"strings"

	"github.com/openkruise/rollouts/api/v1beta1"
	custom "github.com/openkruise/rollouts/pkg/trafficrouting/network/customNetworkProvider"
	corev1 "k8s.io/api/core/v1"
	metav1 "k8s.io/apimachinery/pkg/apis/meta/v1"
	"k8s.io/apimachinery/pkg/apis/meta/v1/unstructured"
	gatewayv1beta1 "sigs.k8s.io/gateway-api/apis/v1beta1"

	"verif/harness/fnlib"
	"verif/harness/sim"
)

const (
	ns        = "default"
	stableSvc = "stable"
	canarySvc = "canary"
	genAPI    = "verif.example.io/v1"
	istioAPI  = "networking.istio.io/v1alpha3"
	absent    = -9 // projection sentinel: field not present (or not a number)
	maxCalls  = 4  // EnsureRoutes is re-invoked (as the reconciler does) until it reports done
)

// ---------------------------------------------------------------------------------------------
// steps

type step struct {
	W int `json:"w"` // canary weight in percent, -1 = no traffic field
	M int `json:"m"` // 0 = no matches, 1 = one header match, 2 = two matches + requestHeaderModifier
}

func strategyOf(s step) *v1beta1.TrafficRoutingStrategy {
	st := &v1beta1.TrafficRoutingStrategy{}
	if s.W >= 0 {
		t := fmt.Sprintf("%d%%", s.W)
		st.Traffic = &t
	}
	exact := gatewayv1beta1.HeaderMatchExact
	re := gatewayv1beta1.HeaderMatchRegularExpression
	switch s.M {
	case 1:
		st.Matches = []v1beta1.HttpRouteMatch{{Headers: []gatewayv1beta1.HTTPHeaderMatch{{Type: &exact, Name: "user-agent", Value: "pc"}}}}
	case 2:
		st.Matches = []v1beta1.HttpRouteMatch{
			{Headers: []gatewayv1beta1.HTTPHeaderMatch{{Type: &exact, Name: "user-agent", Value: "pc"}, {Type: &re, Name: "name", Value: ".*demo"}}},
			{Headers: []gatewayv1beta1.HTTPHeaderMatch{{Type: &exact, Name: "x-env", Value: "gray"}}},
		}
		st.RequestHeaderModifier = &gatewayv1beta1.HTTPHeaderFilter{Set: []gatewayv1beta1.HTTPHeader{{Name: "header-foo", Value: "bar"}}}
	}
	return st
}

func sequences(alpha []step, maxLen int) [][]step {
	var out [][]step
	var rec func(cur []step)
	rec = func(cur []step) {
		if len(cur) > 0 {
			out = append(out, append([]step{}, cur...))
		}
		if len(cur) == maxLen {
			return
		}
		for _, a := range alpha {
			rec(append(cur, a))
		}
	}
	rec(nil)
	sort.SliceStable(out, func(i, j int) bool { return len(out[i]) < len(out[j]) })
	return out
}

// ---------------------------------------------------------------------------------------------
// generated well-behaved scripts: pure functions of obj.data and the step

const luaPrelude = `
local spec = obj.data.spec
if spec == nil then
    spec = {}
    obj.data.spec = spec
end
`
const luaSet = `
spec.weight = obj.canaryWeight
`
const luaSetDeep = `
if spec.a == nil then spec.a = {} end
if spec.a.b == nil then spec.a.b = {} end
spec.a.b.w = obj.canaryWeight
`
const luaAppend = `
if spec.items == nil then spec.items = {} end
table.insert(spec.items, { name = obj.canaryService, weight = obj.canaryWeight })
`
const luaMeta = `
if obj.data.annotations == nil then obj.data.annotations = {} end
obj.data.annotations["canary-weight"] = tostring(obj.canaryWeight)
if obj.data.labels == nil then obj.data.labels = {} end
obj.data.labels["canary"] = "true"
`

// an annotation only on steps with matches (header / query steps), nothing on weight-only steps: on an object without
// user annotations the script's output then carries no annotations at all
const luaMetaMatch = `
if obj.matches and #obj.matches > 0 then
    if obj.data.annotations == nil then obj.data.annotations = {} end
    obj.data.annotations["canary-weight"] = tostring(1000 + #obj.matches)
end
`
const luaNMatch = `
local n = 0
if obj.matches then n = #obj.matches end
spec.nmatch = n
`
const luaReturn = `
return obj.data
`

var genScripts = map[string]string{
	"ident":     luaPrelude + luaReturn,
	"set":       luaPrelude + luaSet + luaReturn,
	"setDeep":   luaPrelude + luaSetDeep + luaReturn,
	"append":    luaPrelude + luaAppend + luaReturn,
	"meta":      luaPrelude + luaMeta + luaReturn,
	"metaMatch": luaPrelude + luaMetaMatch + luaReturn,
	"all":       luaPrelude + luaSet + luaSetDeep + luaAppend + luaMeta + luaNMatch + luaReturn,
}
var genScriptNames = []string{"ident", "set", "setDeep", "append", "meta", "all", "metaMatch"}

// paths a generated script may write (everything else is its frame)
func touched(script string) (specPaths [][]string, meta bool) {
	switch script {
	case "set":
		return [][]string{{"weight"}}, false
	case "setDeep":
		return [][]string{{"a", "b", "w"}}, false
	case "append":
		return [][]string{{"items"}}, false
	case "meta", "metaMatch":
		return nil, true
	case "all":
		return [][]string{{"weight"}, {"a", "b", "w"}, {"items"}, {"nmatch"}}, true
	}
	return nil, false
}

// ---------------------------------------------------------------------------------------------
// object shapes

type M = map[string]interface{}
type L = []interface{}

var genShapes = []struct {
	name string
	spec func() M
}{
	{"flat", func() M { return M{"weight": 7, "name": "x", "enabled": true} }},
	{"nested", func() M {
		return M{"a": M{"b": M{"w": 3, "keep": "k"}, "c": L{1, 2, 3}}, "items": L{M{"name": "base", "weight": 100}}, "title": "t"}
	}},
	{"emptySpec", func() M { return M{} }},
	{"emptyTop", func() M { return M{"items": L{}, "opts": M{}, "name": "x"} }},
	{"emptyDeep", func() M {
		return M{"a": M{"b": M{"c": M{}, "l": L{}}}, "items": L{M{"name": "base", "weight": 100, "opts": M{}}}, "mixed": L{L{}, M{}, "s"}}
	}},
	{"scalars", func() M {
		return M{"b": false, "zero": 0, "neg": -5, "big": 1234567890123, "s": "", "esc": "<a&b> \"q\" \\ é\n", "nested": M{"deep": M{"deeper": M{"leaf": "v"}}}}
	}},
}

// VirtualService routes: the abstract route kinds of the domain
type dest struct {
	H string `json:"h"` // host class
	S string `json:"s"` // subset ("" = none)
	W int    `json:"w"` // weight, -1 = none
}
type route struct {
	K     string `json:"k"`     // kind id
	Dests []dest `json:"dests"` //
	Um    string `json:"um"`    // user match: none | uri | hdrPresent
	Ex    string `json:"ex"`    // extras: none | emptyMap | emptyList
}

var hostRaw = map[string]string{
	"stable":    "stable",
	"stableFq":  "stable.default.svc.cluster.local",
	"stableNs":  "stable.otherns.svc.cluster.local",
	"stablePfx": "stable-v2",
	"other":     "other",
	"otherFq":   "other.default.svc.cluster.local",
	"canary":    "canary",
}

func hostClass(raw string) string {
	for c, r := range hostRaw {
		if r == raw {
			return c
		}
	}
	return "?" + raw
}

var routeKinds = map[string]route{
	"st":       {K: "st", Dests: []dest{{"stable", "", -1}}, Um: "none", Ex: "none"},
	"stW100":   {K: "stW100", Dests: []dest{{"stable", "", 100}}, Um: "none", Ex: "none"},
	"stFq":     {K: "stFq", Dests: []dest{{"stableFq", "", -1}}, Um: "none", Ex: "none"},
	"stSub":    {K: "stSub", Dests: []dest{{"stable", "base", -1}}, Um: "none", Ex: "none"},
	"stEx":     {K: "stEx", Dests: []dest{{"stable", "", -1}}, Um: "none", Ex: "emptyMap"},
	"stUm":     {K: "stUm", Dests: []dest{{"stable", "", -1}}, Um: "uri", Ex: "none"},
	"stW50":    {K: "stW50", Dests: []dest{{"stable", "", 50}}, Um: "none", Ex: "none"},
	"two":      {K: "two", Dests: []dest{{"stable", "", 80}, {"other", "", 20}}, Um: "none", Ex: "none"},
	"oth":      {K: "oth", Dests: []dest{{"other", "", -1}}, Um: "none", Ex: "none"},
	"othFq":    {K: "othFq", Dests: []dest{{"otherFq", "", 100}}, Um: "none", Ex: "none"},
	"othUm":    {K: "othUm", Dests: []dest{{"other", "", -1}}, Um: "uri", Ex: "none"},
	"othPfx":   {K: "othPfx", Dests: []dest{{"stablePfx", "", -1}}, Um: "none", Ex: "none"},
	"othNs":    {K: "othNs", Dests: []dest{{"stableNs", "", -1}}, Um: "none", Ex: "none"},
	"othEmap":  {K: "othEmap", Dests: []dest{{"other", "", -1}}, Um: "none", Ex: "emptyMap"},
	"othElist": {K: "othElist", Dests: []dest{{"other", "", -1}}, Um: "none", Ex: "emptyList"},
	"othHdr":   {K: "othHdr", Dests: []dest{{"other", "", -1}}, Um: "hdrPresent", Ex: "none"},
}
var probeKinds = []string{"st", "stW100", "stFq", "stSub", "stEx", "stUm", "stW50", "two", "oth", "othFq", "othUm", "othPfx", "othNs", "othEmap", "othElist", "othHdr"}

func routeObj(r route) M {
	var ds L
	for _, d := range r.Dests {
		dd := M{"host": hostRaw[d.H]}
		if d.S != "" {
			dd["subset"] = d.S
		}
		e := M{"destination": dd}
		if d.W >= 0 {
			e["weight"] = d.W
		}
		ds = append(ds, e)
	}
	o := M{"route": ds}
	switch r.Um {
	case "uri":
		o["match"] = L{M{"uri": M{"prefix": "/api"}}}
	case "hdrPresent":
		// Istio: "If the value is empty and only the name of header is specified, presence of the header is checked"
		o["match"] = L{M{"headers": M{"x-debug": M{}}}}
	}
	switch r.Ex {
	case "emptyMap":
		o["retries"] = M{}
		o["timeout"] = "5s"
	case "emptyList":
		o["corsPolicy"] = M{"allowOrigins": L{}, "allowCredentials": false}
	}
	return o
}

func vsSpec(rs []route) M {
	var http L
	for _, r := range rs {
		http = append(http, routeObj(r))
	}
	return M{"hosts": L{"demo.example.com"}, "gateways": L{"demo-gateway"}, "http": http}
}

var drShapes = []struct {
	name string
	spec func() M
}{
	{"one", func() M {
		return M{"host": stableSvc, "trafficPolicy": M{"loadBalancer": M{"simple": "ROUND_ROBIN"}}, "subsets": L{M{"name": "version-base", "labels": M{"version": "base"}}}}
	}},
	{"noSubsetsList", func() M { return M{"host": stableSvc, "subsets": L{}} }},
	{"emptyPolicy", func() M {
		return M{"host": stableSvc, "trafficPolicy": M{}, "subsets": L{M{"name": "a", "labels": M{"v": "1"}}, M{"name": "b", "labels": M{}}}}
	}},
	{"noSubsets", func() M { return M{"host": stableSvc} }},
}

// ---------------------------------------------------------------------------------------------
// a referenced resource of one case

type refIn struct {
	Kind   string  `json:"kind"`   // gen | vs | dr
	Shape  string  `json:"shape"`  //
	Script string  `json:"script"` // generated script name, or "builtin"
	Orig   proj    `json:"orig"`   // projection of the original (generated family)
	Routes []route `json:"routes"` // abstract routes (vs only)

	apiVersion, k8sKind, name string
	spec                      M
}

type proj struct {
	W     int   `json:"w"`
	Dw    int   `json:"dw"`
	Items []int `json:"items"`
	Annw  int   `json:"annw"`
	Lab   int   `json:"lab"`
	Nm    int   `json:"nm"`
}

func build(r *refIn, lbl, ann bool) *unstructured.Unstructured {
	raw, _ := json.Marshal(r.spec) // deep copy with JSON types
	var spec interface{}
	_ = json.Unmarshal(raw, &spec)
	u := &unstructured.Unstructured{Object: M{"spec": spec}}
	u.SetAPIVersion(r.apiVersion)
	u.SetKind(r.k8sKind)
	u.SetNamespace(ns)
	u.SetName(r.name)
	if lbl {
		u.SetLabels(map[string]string{"app": "demo", "tier": "web"})
	}
	if ann {
		u.SetAnnotations(map[string]string{"owner": "team-a", "note": "<x&y> \"q\" é"})
	}
	return u
}

// ---------------------------------------------------------------------------------------------
// projections (independent of the provider's own comparison code)

func strMap(v interface{}) M {
	m, _ := v.(map[string]interface{})
	return m
}

// view returns {spec, labels, annotations} of the stored object; empty maps are absent (API
// normalisation) and the snapshot annotation is split off.
func view(u *unstructured.Unstructured) (M, bool) {
	v := M{}
	if s, ok := u.Object["spec"]; ok {
		v["spec"] = s
	}
	md := strMap(u.Object["metadata"])
	snap := false
	if l := strMap(md["labels"]); len(l) > 0 {
		v["labels"] = l
	}
	if a := strMap(md["annotations"]); len(a) > 0 {
		b := M{}
		for k, x := range a {
			if k == custom.OriginalSpecAnnotation {
				snap = true
				continue
			}
			b[k] = x
		}
		if len(b) > 0 {
			v["annotations"] = b
		}
	}
	return v, snap
}

func canon(v interface{}) string {
	b, _ := json.Marshal(v) // encoding/json sorts map keys
	return string(b)
}

func num(v interface{}) int {
	switch x := v.(type) {
	case float64:
		return int(x)
	case int64:
		return int(x)
	case int:
		return x
	}
	return absent
}

func dig(m interface{}, path ...string) interface{} {
	cur := m
	for _, p := range path {
		mm, ok := cur.(map[string]interface{})
		if !ok {
			return nil
		}
		cur = mm[p]
	}
	return cur
}

func project(v M) proj {
	p := proj{W: num(dig(v, "spec", "weight")), Dw: num(dig(v, "spec", "a", "b", "w")), Nm: num(dig(v, "spec", "nmatch")), Annw: absent, Items: []int{}}
	if l, ok := dig(v, "spec", "items").([]interface{}); ok {
		for _, it := range l {
			p.Items = append(p.Items, num(dig(it, "weight")))
		}
	}
	if s, ok := dig(v, "annotations", "canary-weight").(string); ok {
		if n, err := strconv.Atoi(s); err == nil {
			p.Annw = n
		}
	}
	if _, ok := dig(v, "labels", "canary").(string); ok {
		p.Lab = 1
	}
	return p
}

// frame removes what the generated script may write (and ancestors left empty by the removal) so that
// what remains must be identical before and after the script.
func frame(v M, script string) string {
	raw, _ := json.Marshal(v)
	var c M
	_ = json.Unmarshal(raw, &c)
	paths, meta := touched(script)
	var del func(m M, p []string)
	del = func(m M, p []string) {
		if m == nil {
			return
		}
		if len(p) == 1 {
			delete(m, p[0])
			return
		}
		child, ok := m[p[0]].(map[string]interface{})
		if !ok {
			if m[p[0]] == nil {
				delete(m, p[0]) // null ancestor of a written path
			}
			return
		}
		del(child, p[1:])
		if len(child) == 0 {
			delete(m, p[0])
		}
	}
	if spec, ok := c["spec"].(map[string]interface{}); ok {
		for _, p := range paths {
			del(spec, p)
		}
		if len(spec) == 0 && len(paths) > 0 {
			delete(c, "spec")
		}
	} else if c["spec"] == nil && len(paths) > 0 {
		delete(c, "spec")
	}
	if meta {
		del(c, []string{"annotations", "canary-weight"})
		del(c, []string{"labels", "canary"})
	}
	return canon(c)
}

type routeOut struct {
	Dests []dest `json:"dests"`
	Canon string `json:"canon"`
}

func routesOf(v M) []routeOut {
	out := []routeOut{}
	l, _ := dig(v, "spec", "http").([]interface{})
	for _, r := range l {
		ro := routeOut{Dests: []dest{}, Canon: canon(r)}
		dl, _ := dig(r, "route").([]interface{})
		for _, d := range dl {
			h, _ := dig(d, "destination", "host").(string)
			s, _ := dig(d, "destination", "subset").(string)
			w := -1
			if x := dig(d, "weight"); x != nil {
				w = num(x)
			}
			ro.Dests = append(ro.Dests, dest{H: hostClass(h), S: s, W: w})
		}
		out = append(out, ro)
	}
	return out
}

// ---------------------------------------------------------------------------------------------
// one execution of the real provider

type refOut struct {
	Orig       string     `json:"orig"`
	AfterSeq   string     `json:"afterSeq"`
	AfterLast  string     `json:"afterLast"`
	Final      string     `json:"final"`
	SnapDuring bool       `json:"snapDuring"`
	SnapAfter  bool       `json:"snapAfter"`
	Proj       proj       `json:"proj"`
	FrameOrig  string     `json:"frameOrig"`
	FrameAfter string     `json:"frameAfter"`
	Rts        []routeOut `json:"rts"`
	Orts       []string   `json:"orts"`
	Ins        int        `json:"ins"`
}

type caseOut struct {
	Refs        []refOut `json:"refs"`
	StepErrs    int      `json:"stepErrs"`
	StepErr     string   `json:"stepErr"`
	ReachedDone bool     `json:"reachedDone"`
	LastCalls   int      `json:"lastCalls"`
	Done2       bool     `json:"done2"`
	Err2        string   `json:"err2"`
	Eff2        int      `json:"eff2"`
	Wc2         int      `json:"wc2"`
	FinModified bool     `json:"finModified"`
	FinErr      string   `json:"finErr"`
}

type world struct {
	s    *sim.Store
	ctrl interface {
		Initialize(ctx context.Context) error
		EnsureRoutes(ctx context.Context, strategy *v1beta1.TrafficRoutingStrategy) (bool, error)
		Finalise(ctx context.Context) (bool, error)
	}
	refs []*refIn
}

func newWorld(refs []*refIn, lbl, ann, sameSvc bool) (*world, error) {
	s := sim.NewStore(sim.GlobalScheme())
	cm := &corev1.ConfigMap{ObjectMeta: metav1.ObjectMeta{Namespace: "kruise-rollout", Name: custom.LuaConfigMap}, Data: map[string]string{}}
	conf := custom.Config{Key: ns + "/rollout-demo", RolloutNs: ns, CanaryService: canarySvc, StableService: stableSvc,
		OwnerRef: metav1.OwnerReference{APIVersion: "rollouts.kruise.io/v1beta1", Kind: "Rollout", Name: "rollout-demo", UID: "ro-uid"}}
	if sameSvc {
		conf.CanaryService = stableSvc
		conf.DisableGenerateCanaryService = true
	}
	for _, r := range refs {
		if err := s.Put(build(r, lbl, ann)); err != nil {
			return nil, err
		}
		if r.Kind == "gen" {
			cm.Data["lua.traffic.routing."+r.k8sKind+"."+strings.Split(r.apiVersion, "/")[0]] = genScripts[r.Script]
		}
		conf.TrafficConf = append(conf.TrafficConf, v1beta1.ObjectRef{APIVersion: r.apiVersion, Kind: r.k8sKind, Name: r.name})
	}
	if err := s.Put(cm); err != nil {
		return nil, err
	}
	c, err := custom.NewCustomController(s, conf)
	if err != nil {
		return nil, err
	}
	return &world{s: s, ctrl: c, refs: refs}, nil
}

func (w *world) load(r *refIn) (M, bool, error) {
	u := &unstructured.Unstructured{}
	u.SetAPIVersion(r.apiVersion)
	u.SetKind(r.k8sKind)
	if !w.s.Load(ns, r.name, u) {
		return nil, false, fmt.Errorf("object %s/%s disappeared", r.k8sKind, r.name)
	}
	v, snap := view(u)
	return v, snap, nil
}

// ensure re-invokes EnsureRoutes until done (at most max calls)
func (w *world) ensure(st step, max int) (done bool, calls int, err error) {
	for calls < max {
		calls++
		done, err = w.ctrl.EnsureRoutes(context.TODO(), strategyOf(st))
		if err != nil || done {
			return
		}
	}
	return
}

func runCase(refs []*refIn, steps []step, drive string, lbl, ann, sameSvc, gone bool) (interface{}, error) {
	out := caseOut{Refs: make([]refOut, len(refs))}
	last := steps[len(steps)-1]
	// ---- run A
	a, err := newWorld(refs, lbl, ann, sameSvc)
	if err != nil {
		return nil, err
	}
	for i, r := range refs {
		v, snap, err := a.load(r)
		if err != nil {
			return nil, err
		}
		if snap {
			return nil, fmt.Errorf("fixture carries the snapshot annotation")
		}
		ro := &out.Refs[i]
		ro.Orig = canon(v)
		ro.FrameOrig = frame(v, r.Script)
		ro.Orts = []string{}
		for _, x := range routesOf(v) {
			ro.Orts = append(ro.Orts, x.Canon)
		}
		if r.Kind != "vs" {
			ro.Orts = []string{}
		}
	}
	if err := a.ctrl.Initialize(context.TODO()); err != nil {
		return nil, fmt.Errorf("Initialize: %v", err)
	}
	noteErr := func(e error) {
		if e != nil {
			out.StepErrs++
			if out.StepErr == "" {
				out.StepErr = e.Error()
			}
		}
	}
	for k, st := range steps {
		max := maxCalls
		if k < len(steps)-1 && drive == "once" {
			max = 1
		}
		done, calls, err := a.ensure(st, max)
		noteErr(err)
		if k == len(steps)-1 {
			out.ReachedDone, out.LastCalls = done && err == nil, calls
		}
	}
	for i, r := range refs {
		v, snap, err := a.load(r)
		if err != nil {
			return nil, err
		}
		ro := &out.Refs[i]
		ro.AfterSeq, ro.SnapDuring = canon(v), snap
		ro.Proj = project(v)
		ro.FrameAfter = frame(v, r.Script)
		ro.Rts = []routeOut{}
		if r.Kind == "vs" {
			ro.Rts = routesOf(v)
			ro.Ins = len(ro.Rts) - len(ro.Orts)
		}
		if r.Kind != "gen" {
			ro.FrameOrig, ro.FrameAfter = "", ""
		}
	}
	// one more call of the last step: must be a pure read
	a.s.BeginAction("again")
	d2, e2 := a.ctrl.EnsureRoutes(context.TODO(), strategyOf(last))
	out.Done2, out.Eff2, out.Wc2 = d2, a.s.EffWrites(), a.s.WriteCalls()
	if e2 != nil {
		out.Err2 = e2.Error()
	}
	a.s.BeginAction("finalise")
	if gone {
		u := &unstructured.Unstructured{}
		u.SetAPIVersion(refs[0].apiVersion)
		u.SetKind(refs[0].k8sKind)
		u.SetNamespace(ns)
		u.SetName(refs[0].name)
		if err := a.s.Delete(context.TODO(), u); err != nil {
			return nil, fmt.Errorf("deleting the first ref: %v", err)
		}
	}
	mod, ferr := a.ctrl.Finalise(context.TODO())
	out.FinModified = mod
	if ferr != nil {
		out.FinErr = ferr.Error()
	}
	for i, r := range refs {
		if gone && i == 0 {
			// nothing left to restore: vacuously as the user had it
			out.Refs[i].Final, out.Refs[i].SnapAfter = out.Refs[i].Orig, false
			continue
		}
		v, snap, err := a.load(r)
		if err != nil {
			return nil, err
		}
		out.Refs[i].Final, out.Refs[i].SnapAfter = canon(v), snap
	}
	// ---- run B: only the last step, on fresh objects
	if len(steps) == 1 {
		for i := range refs {
			out.Refs[i].AfterLast = out.Refs[i].AfterSeq
		}
		return out, nil
	}
	b, err := newWorld(refs, lbl, ann, sameSvc)
	if err != nil {
		return nil, err
	}
	if err := b.ctrl.Initialize(context.TODO()); err != nil {
		return nil, fmt.Errorf("Initialize(B): %v", err)
	}
	_, _, errB := b.ensure(last, maxCalls)
	if errB != nil && out.StepErrs == 0 {
		noteErr(fmt.Errorf("single-step run: %v", errB))
	}
	for i, r := range refs {
		v, _, err := b.load(r)
		if err != nil {
			return nil, err
		}
		out.Refs[i].AfterLast = canon(v)
	}
	return out, nil
}

// ---------------------------------------------------------------------------------------------
// domain

func genRef(shape int, script string, k8sKind, name string) *refIn {
	sh := genShapes[shape%len(genShapes)]
	r := &refIn{Kind: "gen", Shape: sh.name, Script: script, Routes: []route{}, apiVersion: genAPI, k8sKind: k8sKind, name: name, spec: sh.spec()}
	raw, _ := json.Marshal(r.spec)
	var spec interface{}
	_ = json.Unmarshal(raw, &spec)
	r.Orig = project(M{"spec": spec})
	return r
}

func vsRef(rs []route, name string) *refIn {
	ks := []string{}
	for _, r := range rs {
		ks = append(ks, r.K)
	}
	return &refIn{Kind: "vs", Shape: strings.Join(ks, "+"), Script: "builtin", Routes: rs, Orig: proj{W: absent, Dw: absent, Items: []int{}, Annw: absent, Nm: absent},
		apiVersion: istioAPI, k8sKind: "VirtualService", name: name, spec: vsSpec(rs)}
}

// vsRefs: the VirtualService made of the probe route and the plain context routes (probe first when
// pos = 0, last otherwise), plus a DestinationRule when nrefs = 2
func vsRefs(probe string, ctx []string, pos, nrefs, li int) []*refIn {
	var rs []route
	for _, k := range ctx {
		rs = append(rs, routeKinds[k])
	}
	if pos == 0 {
		rs = append([]route{routeKinds[probe]}, rs...)
	} else {
		rs = append(rs, routeKinds[probe])
	}
	refs := []*refIn{vsRef(rs, "vs-demo")}
	if nrefs == 2 {
		refs = append(refs, drRef(li%3, "dr-demo"))
	}
	return refs
}

func drRef(shape int, name string) *refIn {
	sh := drShapes[shape%len(drShapes)]
	return &refIn{Kind: "dr", Shape: sh.name, Script: "builtin", Routes: []route{}, Orig: proj{W: absent, Dw: absent, Items: []int{}, Annw: absent, Nm: absent},
		apiVersion: istioAPI, k8sKind: "DestinationRule", name: name, spec: sh.spec()}
}

// ---------------------------------------------------------------------------------------------
// enumeration of the bounded domain (identical in the parent, in every shard and in a replay)

type caseSpec struct {
	fam, cls string // family; class = object shape (gen, dr) or kind of the probe route (vs)
	mk       func() []*refIn
	steps    []step
	drive    string
	lbl, ann bool
	sameSvc  bool
	gone     bool // the FIRST of two refs is deleted (by its user / the garbage collector) before Finalise
}

// featureOf names the hard shape a case carries (coarse; used to identify findings)
func featureOf(fam, cls string) string {
	switch fam + "/" + cls {
	case "vs/stUm":
		return "ownMatch" // the stable route has a match clause of the user
	case "vs/stW50":
		return "ownWeight" // the single stable destination carries an explicit weight other than 100
	case "vs/othNs":
		return "foreignNamespace" // <stableService>.<another namespace>.svc...
	case "vs/stEx", "vs/othEmap", "vs/othElist", "vs/othHdr", "gen/emptySpec", "gen/emptyTop", "gen/emptyDeep", "dr/noSubsetsList", "dr/emptyPolicy":
		return "emptyValue" // an empty map / list somewhere in the spec
	case "dr/noSubsets":
		return "scriptError"
	}
	return "plain"
}

func lsome(b bool) string {
	if b {
		return "some"
	}
	return "nil"
}

func (c *caseSpec) input(refs []*refIn) map[string]interface{} {
	return map[string]interface{}{"fam": c.fam, "cls": c.cls, "feature": featureOf(c.fam, c.cls), "nrefs": len(refs), "lbl": lsome(c.lbl), "ann": lsome(c.ann), "sameSvc": c.sameSvc,
		"drive": c.drive, "steps": c.steps, "refs": refs, "gone": c.gone}
}

func alphabet(thorough bool) ([]step, int) {
	alpha := []step{{0, 0}, {1, 0}, {50, 0}, {100, 0}, {-1, 1}, {-1, 2}}
	if thorough {
		return append(alpha, step{-1, 0}), 3
	}
	return alpha, 2
}

// enumerate: the base domain, plus for every third case with two refs the variant in which the first
// ref no longer exists when the traffic routing is finalised (what remains must still be restored).
func enumerate(thorough bool, emit func(c caseSpec)) {
	k := 0
	enumerateBase(thorough, func(c caseSpec) {
		emit(c)
		if len(c.mk()) == 2 {
			k++
			if thorough || k%3 == 0 {
				g := c
				g.gone = true
				emit(g)
			}
		}
	})
}

func enumerateBase(thorough bool, emit func(c caseSpec)) {
	alpha, maxLen := alphabet(thorough)
	seqs := sequences(alpha, maxLen)
	metas := [][2]bool{{false, false}, {true, true}, {true, false}, {false, true}}
	// "once": the steps before the last one get a single EnsureRoutes call (the reconciler moved on
	// before the provider reported done); only for sequences of length 2
	drives := func(n int, once bool) []string {
		if n == 2 && once {
			return []string{"done", "once"}
		}
		return []string{"done"}
	}

	// ---- family gen: generated well-behaved scripts on generated objects
	for si := range genShapes {
		for sci, sc := range genScriptNames {
			for _, nrefs := range []int{1, 2} {
				for mi, mt := range metas {
					if nrefs == 2 && (mi >= 2 || (!thorough && mi == 0)) {
						continue
					}
					for _, steps := range seqs {
						for _, dv := range drives(len(steps), nrefs == 1 && (thorough || mi == 0)) {
							si, sci, sc, nrefs := si, sci, sc, nrefs
							emit(caseSpec{fam: "gen", cls: genShapes[si].name, steps: steps, drive: dv, lbl: mt[0], ann: mt[1], mk: func() []*refIn {
								refs := []*refIn{genRef(si, sc, "Widget", "w-demo")}
								if nrefs == 2 {
									refs = append(refs, genRef(si+1+sci, genScriptNames[(sci+1+si)%len(genScriptNames)], "Gadget", "g-demo"))
								}
								return refs
							}})
						}
					}
				}
			}
		}
	}

	// ---- family vs: the shipped VirtualService script; the probe route carries the hard shape, the
	// context routes are plain. nrefs = 2 adds a DestinationRule (handled by its shipped script).
	type rl struct {
		ctx   []string
		pos   int
		extra bool // thorough only, short sequences
	}
	lists := []rl{{nil, 0, false}, {[]string{"st"}, 0, false}, {[]string{"st"}, 1, false}, {[]string{"oth"}, 0, false}, {[]string{"oth"}, 1, false}}
	if thorough {
		lists = append(lists, rl{[]string{"st", "oth"}, 0, true}, rl{[]string{"st", "oth"}, 1, true}, rl{[]string{"oth", "stW100"}, 0, true}, rl{[]string{"oth", "stW100"}, 1, true})
	}
	type combo struct {
		nrefs   int
		sameSvc bool
	}
	// The probes on which the unchanged tree is known to deviate for EVERY history (see featureOf) get
	// a thin slice of the sequence domain: every single step plus a few mixed sequences, plain metadata,
	// driven to done. (The orchestrator looks every BAD case up by a linear scan of the case file.)
	oddSeqs := [][]step{}
	for _, a := range alpha {
		oddSeqs = append(oddSeqs, []step{a})
	}
	oddSeqs = append(oddSeqs, []step{{50, 0}, {1, 0}}, []step{{-1, 1}, {50, 0}}, []step{{50, 0}, {-1, 1}}, []step{{100, 0}, {0, 0}})
	if thorough {
		oddSeqs = append(oddSeqs, []step{{1, 0}, {50, 0}, {100, 0}}, []step{{-1, 2}, {50, 0}, {0, 0}})
	}
	odd := map[string]bool{"stUm": true, "stW50": true, "othNs": true, "othEmap": true, "othElist": true, "othHdr": true}
	for _, pk := range probeKinds {
		for li, l := range lists {
			if l.pos == 1 && len(l.ctx) == 1 && l.ctx[0] == pk {
				continue // same route list as pos 0
			}
			if odd[pk] {
				if l.extra || (!thorough && (li == 1 || li == 4)) {
					continue
				}
				for _, cb := range []combo{{1, false}, {2, true}} {
					for _, steps := range oddSeqs {
						pk, li, l, cb := pk, li, l, cb
						emit(caseSpec{fam: "vs", cls: pk, steps: steps, drive: "done", sameSvc: cb.sameSvc, mk: func() []*refIn { return vsRefs(pk, l.ctx, l.pos, cb.nrefs, li) }})
					}
				}
				continue
			}
			combos := []combo{{1, false}, {2, true}} // VS alone with a canary Service; VS + DestinationRule with subsets
			if l.extra {
				combos = append(combos, combo{1, true})
			}
			for _, cb := range combos {
				for mi, mt := range metas[:2] {
					if mi == 1 && (l.extra || (!thorough && li > 0)) {
						continue
					}
					for _, steps := range seqs {
						if (l.extra || mi == 1) && len(steps) > 2 {
							continue
						}
						for _, dv := range drives(len(steps), mi == 0 && !l.extra && (thorough || li < 3)) {
							pk, li, l, cb := pk, li, l, cb
							emit(caseSpec{fam: "vs", cls: pk, steps: steps, drive: dv, lbl: mt[0], ann: mt[1], sameSvc: cb.sameSvc, mk: func() []*refIn { return vsRefs(pk, l.ctx, l.pos, cb.nrefs, li) }})
						}
					}
				}
			}
		}
	}

	// ---- family dr: the shipped DestinationRule script (shape noSubsets makes the script fail: the
	// error path of EnsureRoutes followed by Finalise)
	for di := range drShapes {
		for _, nrefs := range []int{1, 2} {
			for mi, mt := range metas {
				if !thorough && mi >= 2 {
					continue
				}
				for _, steps := range seqs {
					for _, dv := range drives(len(steps), true) {
						di, nrefs := di, nrefs
						emit(caseSpec{fam: "dr", cls: drShapes[di].name, steps: steps, drive: dv, lbl: mt[0], ann: mt[1], sameSvc: true, mk: func() []*refIn {
							refs := []*refIn{drRef(di, "dr-demo")}
							if nrefs == 2 {
								refs = append(refs, drRef(di+1, "dr-other"))
							}
							return refs
						}})
					}
				}
			}
		}
	}
}

// ---------------------------------------------------------------------------------------------
// execution: one case under recover; the raw result travels from a shard process to the parent

type rawResult struct {
	Out     json.RawMessage `json:"out"`
	Err     string          `json:"err"`
	Panic   string          `json:"panic"`
	Retries int             `json:"retries"`
}

func stackOfRepo() string {
	var keep []string
	for _, l := range strings.Split(string(debug.Stack()), "\n") {
		if strings.Contains(l, "openkruise/rollouts") {
			l = strings.TrimSpace(l)
			if i := strings.LastIndex(l, "("); i > 0 { // drop the argument words (addresses differ between runs)
				l = l[:i]
			}
			keep = append(keep, l)
		}
		if len(keep) >= 6 {
			break
		}
	}
	return strings.Join(keep, " < ")
}

// execOne runs one case under recover. The real luamanager gives every script a wall-clock budget of
// one second; on a loaded machine a run can exceed it, which is not a function of the input: such a
// run is repeated (the objects are rebuilt from scratch every time).
func execOne(c *caseSpec, refs []*refIn) (res rawResult) {
	for try := 0; ; try++ {
		res = execOnce(c, refs)
		res.Retries = try
		if try >= 5 || !strings.Contains(string(res.Out)+res.Err, "context deadline exceeded") {
			return
		}
	}
}

func execOnce(c *caseSpec, refs []*refIn) (res rawResult) {
	res.Out = json.RawMessage("null")
	defer func() {
		if r := recover(); r != nil {
			res.Panic = fmt.Sprintf("%v @ %s", r, stackOfRepo())
		}
	}()
	out, err := runCase(refs, c.steps, c.drive, c.lbl, c.ann, c.sameSvc, c.gone)
	if err != nil {
		res.Err = err.Error()
	}
	if out != nil {
		b, _ := json.Marshal(out)
		res.Out = b
	}
	return
}

// record hands a result to fnlib (which assigns the id, counts, and writes the ndjson line)
func record(w *fnlib.Writer, in interface{}, get func() rawResult) {
	w.Run(in, func() (interface{}, error) {
		res := get()
		if res.Panic != "" {
			panic(res.Panic)
		}
		var out interface{}
		if string(res.Out) != "null" {
			out = res.Out
		}
		if res.Err != "" {
			return out, fmt.Errorf("%s", res.Err)
		}
		return out, nil
	})
}

var shardFlag = flag.String("shard", "", "internal: i/n, compute the cases whose index is i modulo n and write the raw results to <out>.shard-i")

func runShard(fl fnlib.Flags, i, n int) {
	f, err := os.Create(fmt.Sprintf("%s.shard-%d", fl.Out, i))
	if err != nil {
		panic(err)
	}
	bw := bufio.NewWriterSize(f, 1<<20)
	g := 0
	enumerate(fl.Tier == "thorough", func(c caseSpec) {
		if g%n == i {
			b, _ := json.Marshal(execOne(&c, c.mk()))
			bw.Write(b)
			bw.WriteByte('\n')
		}
		g++
	})
	bw.Flush()
	f.Close()
}

func main() {
	fl := fnlib.ParseFlags()
	sim.InitProcess()
	debug.SetGCPercent(400)
	if *shardFlag != "" {
		var i, n int
		if _, err := fmt.Sscanf(*shardFlag, "%d/%d", &i, &n); err != nil || n < 1 || i < 0 || i >= n {
			panic("bad -shard")
		}
		runShard(fl, i, n)
		return
	}
	w, err := fnlib.NewWriter(fl)
	if err != nil {
		panic(err)
	}
	thorough := fl.Tier == "thorough"
	retried := 0 // runs repeated because a script exceeded the luamanager's one-second wall-clock budget
	nsh := runtime.NumCPU()
	if nsh > 16 {
		nsh = 16
	}
	if fl.Only != 0 {
		// replay: the single case is executed in this process
		enumerate(thorough, func(c caseSpec) {
			refs := c.mk()
			record(w, c.input(refs), func() rawResult { return execOne(&c, refs) })
		})
	} else {
		// the cases are independent: nsh copies of this binary execute them (index modulo nsh), this
		// process merges the results in enumeration order, so ids and outputs do not depend on nsh
		var cmds []*exec.Cmd
		for i := 0; i < nsh; i++ {
			cmd := exec.Command(os.Args[0], "-tier", fl.Tier, "-seed", fmt.Sprint(fl.Seed), "-out", fl.Out, "-shard", fmt.Sprintf("%d/%d", i, nsh))
			cmd.Stderr = os.Stderr
			cmd.Env = append(os.Environ(), "GOMAXPROCS=2")
			if err := cmd.Start(); err != nil {
				panic(err)
			}
			cmds = append(cmds, cmd)
		}
		for i, cmd := range cmds {
			if err := cmd.Wait(); err != nil {
				fmt.Printf("shard %d failed: %v\n", i, err)
				os.Exit(3)
			}
		}
		var scs []*bufio.Scanner
		for i := 0; i < nsh; i++ {
			f, err := os.Open(fmt.Sprintf("%s.shard-%d", fl.Out, i))
			if err != nil {
				panic(err)
			}
			defer f.Close()
			sc := bufio.NewScanner(f)
			sc.Buffer(make([]byte, 1<<20), 1<<26)
			scs = append(scs, sc)
		}
		g := 0
		enumerate(thorough, func(c caseSpec) {
			sc := scs[g%nsh]
			g++
			var res rawResult
			if !sc.Scan() {
				fmt.Printf("result of case %d missing in its shard file\n", g)
				os.Exit(3)
			}
			if err := json.Unmarshal(sc.Bytes(), &res); err != nil {
				fmt.Printf("result of case %d unreadable: %v\n", g, err)
				os.Exit(3)
			}
			retried += res.Retries
			record(w, c.input(c.mk()), func() rawResult { return res })
		})
		for i := 0; i < nsh; i++ {
			os.Remove(fmt.Sprintf("%s.shard-%d", fl.Out, i))
		}
	}
	alpha, maxLen := alphabet(thorough)
	// no sampling: every case of the domain defined by enumerate() is executed; the domain is a union of
	// explicit products, not the full cartesian product of all its dimensions, hence exhaustive=false
	w.Close(false, map[string]interface{}{"domain": "union of explicit products (see enumerate), fully enumerated, no sampling", "alphabet": alpha, "maxLen": maxLen, "sequences": len(sequences(alpha, maxLen)), "genShapes": len(genShapes),
		"genScripts": genScriptNames, "probeRoutes": probeKinds, "drShapes": len(drShapes), "processes": nsh, "luaTimeoutRetries": retried})
}
