// fn-ingress: the real canary-Ingress provider (pkg/trafficrouting/network/ingress + the built-in
// Lua scripts nginx / aliyun-alb / higress / mse) over a bounded domain of stable Ingresses, classes
// and step sequences (property C14).
//
// One case = (stable Ingress, class, sequence of steps). The driver puts the stable Ingress into a
// fresh simulated API server, enters every step of the sequence (EnsureRoutes until it returns true,
// at most 4 calls), calls EnsureRoutes once more (fixed point), reads the canary and the stable
// Ingress back after every operation and finally calls Finalise. For history independence every
// step additionally carries the REAL result of entering that step first on a fresh store with the
// same Ingress and class ("fresh").
//
// The domain is the union of exhaustive products:
//
//	part "shape" every Ingress of 1..2 (quick) / 1..3 (thorough) rules drawn from 8 rule variants
//	             (stable / other / resource backends, hostless rule, rule without http section) x
//	             {nil, user annotations} x 4 classes x a few short sequences
//	part "seq"   one mixed Ingress x 4 classes x {nil, user, user+service-subset annotations} x every
//	             sequence of length <= 2 (quick) / <= 3 (thorough) over the class's step catalogue
package main

import (
	"encoding/json"
	"context"
	"fmt"
	"runtime/debug"
	"sort"
	"strings"

	"github.com/openkruise/rollouts/api/v1beta1"
	"github.com/openkruise/rollouts/pkg/trafficrouting/network"
	"github.com/openkruise/rollouts/pkg/trafficrouting/network/ingress"
	corev1 "k8s.io/api/core/v1"
	netv1 "k8s.io/api/networking/v1"
	metav1 "k8s.io/apimachinery/pkg/apis/meta/v1"
	utilpointer "k8s.io/utils/pointer"
	gatewayv1beta1 "sigs.k8s.io/gateway-api/apis/v1beta1"

	"verif/harness/fnlib"
	"verif/harness/sim"
)

const (
	ns        = "default"
	ingName   = "demo"
	stableSvc = "echoserver"
	canarySvc = "echoserver-canary"
	otherSvc  = "other-svc"
)

// ---------------------------------------------------------------------------------------------
// abstract input

type absPath struct {
	Path     string `json:"path"`
	PathType string `json:"pathType"`
	Be       string `json:"be"` // stable | other | res
	Port     int    `json:"port"`
}

type absRule struct {
	Host  string    `json:"host"`
	HTTP  bool      `json:"http"`
	Paths []absPath `json:"paths"`
}

type absKV struct {
	K string `json:"k"`
	V string `json:"v"`
}

type absCond struct {
	Name  string `json:"name"`
	Value string `json:"value"`
	Type  string `json:"type"` // Exact | RegularExpression
}

type absMatch struct {
	Path    string    `json:"path"` // "" = no path matcher
	Headers []absCond `json:"headers"`
	Queries []absCond `json:"queries"`
}

type absStep struct {
	ID      string     `json:"id"`
	Weight  int        `json:"weight"` // -1 = no traffic field
	Matches []absMatch `json:"matches"`
	HasRhm  bool       `json:"hasRhm"`
	Rhm     []absKV    `json:"rhm"` // requestHeaderModifier.set as (name, value)
}

func hdr(n, v, t string) []absCond { return []absCond{{n, v, t}} }
func none() []absCond              { return []absCond{} }

var catalogue = map[string]absStep{
	"w20":  {ID: "w20", Weight: 20, Matches: []absMatch{}, Rhm: []absKV{}},
	"w100": {ID: "w100", Weight: 100, Matches: []absMatch{}, Rhm: []absKV{}},
	"hx":   {ID: "hx", Weight: -1, Matches: []absMatch{{"", hdr("user-agent", "pc", "Exact"), none()}}, Rhm: []absKV{}},
	"hr":   {ID: "hr", Weight: -1, Matches: []absMatch{{"", hdr("x-region", "^cn-.*", "RegularExpression"), none()}}, Rhm: []absKV{}},
	"ck":   {ID: "ck", Weight: -1, Matches: []absMatch{{"", hdr("canary-by-cookie", "demo", "Exact"), none()}}, Rhm: []absKV{}},
	"whx":  {ID: "whx", Weight: 20, Matches: []absMatch{{"", hdr("user-agent", "pc", "Exact"), none()}}, Rhm: []absKV{}},
	"mm": {ID: "mm", Weight: -1, Matches: []absMatch{{"", hdr("user-agent", "pc", "Exact"), none()},
		{"", hdr("x-region", "^cn-.*", "RegularExpression"), none()}}, Rhm: []absKV{}},
	"qx":  {ID: "qx", Weight: -1, Matches: []absMatch{{"", none(), hdr("user_id", "123", "Exact")}}, Rhm: []absKV{}},
	"qr":  {ID: "qr", Weight: -1, Matches: []absMatch{{"", none(), hdr("user_id", "^1.*", "RegularExpression")}}, Rhm: []absKV{}},
	"hq":  {ID: "hq", Weight: -1, Matches: []absMatch{{"", hdr("user-agent", "pc", "Exact"), hdr("user_id", "123", "Exact")}}, Rhm: []absKV{}},
	"rhm": {ID: "rhm", Weight: 20, Matches: []absMatch{}, HasRhm: true, Rhm: []absKV{{"x-env", "canary"}}},
	"rhx": {ID: "rhx", Weight: -1, Matches: []absMatch{{"", hdr("user-agent", "pc", "Exact"), none()}}, HasRhm: true, Rhm: []absKV{{"x-env", "canary"}, {"x-lane", "gray"}}},
	"po":  {ID: "po", Weight: -1, Matches: []absMatch{{"/v2", none(), none()}}, Rhm: []absKV{}},
}

// step kinds per class: first the kinds the class's script handles, then kinds it does not
// (exercised for the no-panic predicate only).
var commonKinds = []string{"w20", "w100", "hx", "hr", "ck", "whx", "mm"}
var mseKinds = []string{"qx", "qr", "hq", "rhm", "rhx"}

func kindsOf(cls string) []string {
	if cls == "mse" {
		return append(append(append([]string{}, commonKinds...), mseKinds...), "po")
	}
	return append(append([]string{}, commonKinds...), "qx", "rhm", "po")
}

var classes = []string{"nginx", "aliyun-alb", "higress", "mse"}

func p(path, pt, be string) absPath { return absPath{Path: path, PathType: pt, Be: be, Port: 80} }

var ruleVariants = []absRule{
	{Host: "a.example.com", HTTP: true, Paths: []absPath{p("/", "Prefix", "stable")}},
	{Host: "a.example.com", HTTP: true, Paths: []absPath{p("/", "Prefix", "stable"), p("/api", "Prefix", "other")}},
	{Host: "b.example.com", HTTP: true, Paths: []absPath{p("/", "Prefix", "other")}},
	{Host: "", HTTP: true, Paths: []absPath{p("/x", "Exact", "stable")}},
	{Host: "b.example.com", HTTP: true, Paths: []absPath{p("/o", "Prefix", "other"), p("/v1", "Prefix", "stable"), p("/v2", "ImplementationSpecific", "stable")}},
	{Host: "c.example.com", HTTP: false, Paths: []absPath{}},
	{Host: "c.example.com", HTTP: true, Paths: []absPath{p("/r", "Prefix", "res"), p("/s", "Prefix", "stable")}},
	{Host: "c.example.com", HTTP: true, Paths: []absPath{p("/r", "Prefix", "res")}},
}

func annotationsOf(kind string) map[string]string {
	switch kind {
	case "user":
		return map[string]string{"kubernetes.io/ingress.class": "nginx", "example.com/owner": "team-a"}
	case "subset":
		return map[string]string{"kubernetes.io/ingress.class": "nginx", "example.com/owner": "team-a", "mse.ingress.kubernetes.io/service-subset": "v1"}
	}
	return nil
}

func kvs(m map[string]string) []absKV {
	out := []absKV{}
	keys := make([]string, 0, len(m))
	for k := range m {
		keys = append(keys, k)
	}
	sort.Strings(keys)
	for _, k := range keys {
		out = append(out, absKV{k, m[k]})
	}
	return out
}

// ---------------------------------------------------------------------------------------------
// concrete objects

func buildIngress(rules []absRule, annKind string) *netv1.Ingress {
	ing := &netv1.Ingress{
		ObjectMeta: metav1.ObjectMeta{Namespace: ns, Name: ingName, Labels: map[string]string{"app": "demo"}, Annotations: annotationsOf(annKind)},
		Spec: netv1.IngressSpec{
			IngressClassName: utilpointer.String("demo-class"),
			TLS:              []netv1.IngressTLS{{Hosts: []string{"a.example.com"}, SecretName: "demo-tls"}},
		},
	}
	for _, r := range rules {
		rule := netv1.IngressRule{Host: r.Host}
		if r.HTTP {
			rule.HTTP = &netv1.HTTPIngressRuleValue{}
			for _, ap := range r.Paths {
				pt := netv1.PathType(ap.PathType)
				hp := netv1.HTTPIngressPath{Path: ap.Path, PathType: &pt}
				switch ap.Be {
				case "stable":
					hp.Backend.Service = &netv1.IngressServiceBackend{Name: stableSvc, Port: netv1.ServiceBackendPort{Number: int32(ap.Port)}}
				case "other":
					hp.Backend.Service = &netv1.IngressServiceBackend{Name: otherSvc, Port: netv1.ServiceBackendPort{Number: int32(ap.Port)}}
				default:
					hp.Backend.Resource = &corev1.TypedLocalObjectReference{APIGroup: utilpointer.String("k8s.example.com"), Kind: "StorageBucket", Name: "static-assets"}
				}
				rule.HTTP.Paths = append(rule.HTTP.Paths, hp)
			}
		}
		ing.Spec.Rules = append(ing.Spec.Rules, rule)
	}
	return ing
}

func strategyOf(st absStep) *v1beta1.TrafficRoutingStrategy {
	s := &v1beta1.TrafficRoutingStrategy{}
	if st.Weight >= 0 {
		s.Traffic = utilpointer.String(fmt.Sprintf("%d%%", st.Weight))
	}
	for _, m := range st.Matches {
		hm := v1beta1.HttpRouteMatch{}
		if m.Path != "" {
			pt := gatewayv1beta1.PathMatchPathPrefix
			hm.Path = &gatewayv1beta1.HTTPPathMatch{Type: &pt, Value: utilpointer.String(m.Path)}
		}
		for _, h := range m.Headers {
			t := gatewayv1beta1.HeaderMatchType(h.Type)
			hm.Headers = append(hm.Headers, gatewayv1beta1.HTTPHeaderMatch{Type: &t, Name: gatewayv1beta1.HTTPHeaderName(h.Name), Value: h.Value})
		}
		for _, q := range m.Queries {
			t := gatewayv1beta1.QueryParamMatchType(q.Type)
			hm.QueryParams = append(hm.QueryParams, gatewayv1beta1.HTTPQueryParamMatch{Type: &t, Name: gatewayv1beta1.HTTPHeaderName(q.Name), Value: q.Value})
		}
		s.Matches = append(s.Matches, hm)
	}
	if st.HasRhm {
		f := &gatewayv1beta1.HTTPHeaderFilter{}
		for _, h := range st.Rhm {
			f.Set = append(f.Set, gatewayv1beta1.HTTPHeader{Name: gatewayv1beta1.HTTPHeaderName(h.K), Value: h.V})
		}
		s.RequestHeaderModifier = f
	}
	return s
}

func provider(s *sim.Store, cls string) (network.NetworkProvider, error) {
	return ingress.NewIngressTrafficRouting(s, ingress.Config{
		Key: "default/rollout-demo", Namespace: ns, CanaryService: canarySvc, StableService: stableSvc,
		TrafficConf: &v1beta1.IngressTrafficRouting{Name: ingName, ClassType: cls},
		OwnerRef:    metav1.OwnerReference{APIVersion: "rollouts.kruise.io/v1beta1", Kind: "Rollout", Name: "rollout-demo", UID: "rollout-uid", Controller: utilpointer.Bool(true), BlockOwnerDeletion: utilpointer.Bool(true)},
	})
}

var ingKey = sim.Key{Group: "networking.k8s.io", Kind: "Ingress", Namespace: ns, Name: ingName}

func short(err error) string {
	if err == nil {
		return ""
	}
	s := strings.SplitN(err.Error(), "\n", 2)[0]
	if len(s) > 160 {
		s = s[:160]
	}
	return s
}

// ---------------------------------------------------------------------------------------------
// abstract output

type outPath struct {
	Path     string `json:"path"`
	PathType string `json:"pathType"`
	Svc      string `json:"svc"` // "" = not a Service backend
	Port     int    `json:"port"`
}

type outRule struct {
	Host  string    `json:"host"`
	Paths []outPath `json:"paths"`
}

type canaryView struct {
	Exists bool      `json:"exists"`
	Ann    []absKV   `json:"ann"`
	Rules  []outRule `json:"rules"`
}

func readCanary(s *sim.Store) canaryView {
	v := canaryView{Ann: []absKV{}, Rules: []outRule{}}
	c := &netv1.Ingress{}
	if !s.Load(ns, ingName+"-canary", c) {
		return v
	}
	v.Exists = true
	v.Ann = kvs(c.Annotations)
	for _, r := range c.Spec.Rules {
		or := outRule{Host: r.Host, Paths: []outPath{}}
		if r.HTTP != nil {
			for _, hp := range r.HTTP.Paths {
				op := outPath{Path: hp.Path}
				if hp.PathType != nil {
					op.PathType = string(*hp.PathType)
				}
				if hp.Backend.Service != nil {
					op.Svc = hp.Backend.Service.Name
					op.Port = int(hp.Backend.Service.Port.Number)
				}
				or.Paths = append(or.Paths, op)
			}
		}
		v.Rules = append(v.Rules, or)
	}
	return v
}

type enterResult struct {
	Calls  int     `json:"calls"` // EnsureRoutes calls made (<= 4)
	Done   bool    `json:"done"`  // the last call returned true
	Err    string  `json:"err"`
	Exists bool    `json:"exists"`
	Ann    []absKV `json:"ann"`
}

type stepOut struct {
	enterResult
	Rules       []outRule   `json:"rules"`
	StableSame  bool        `json:"stableSame"`
	AgainDone   bool        `json:"againDone"`
	AgainErr    string      `json:"againErr"`
	AgainWrites int         `json:"againWrites"`
	Fresh       enterResult `json:"fresh"`
}

type finOut struct {
	Calls      int    `json:"calls"`
	Modified   bool   `json:"modified"` // some Finalise call returned true
	Err        string `json:"err"`
	Before     bool   `json:"before"` // canary Ingress existed before Finalise
	Gone       bool   `json:"gone"`
	StableSame bool   `json:"stableSame"`
}

// enter calls the real EnsureRoutes until it reports true (max 4 calls), with a new provider per call
// as the traffic-routing manager does.
func enter(s *sim.Store, cls string, st absStep) (enterResult, canaryView) {
	r := enterResult{}
	for r.Calls < 4 {
		c, err := provider(s, cls)
		if err != nil {
			r.Err = short(err)
			break
		}
		s.BeginAction("rollout")
		done, err := c.EnsureRoutes(context.TODO(), strategyOf(st))
		r.Calls++
		if err != nil {
			r.Err = short(err)
			break
		}
		if done {
			r.Done = true
			break
		}
	}
	v := readCanary(s)
	r.Exists, r.Ann = v.Exists, v.Ann
	return r, v
}

func newStore(rules []absRule, annKind string) (*sim.Store, error) {
	s := sim.NewStore(sim.GlobalScheme())
	if err := s.Put(buildIngress(rules, annKind)); err != nil {
		return nil, err
	}
	return s, nil
}

func runCase(rules []absRule, annKind, cls string, steps []absStep, fresh func(absStep) (enterResult, error)) (interface{}, error) {
	s, err := newStore(rules, annKind)
	if err != nil {
		return nil, err
	}
	orig := string(s.Raw(ingKey))
	outs := []stepOut{}
	for _, st := range steps {
		er, view := enter(s, cls, st)
		o := stepOut{enterResult: er, Rules: view.Rules, StableSame: string(s.Raw(ingKey)) == orig}
		if er.Done {
			c, err := provider(s, cls)
			if err != nil {
				return nil, err
			}
			s.BeginAction("rollout")
			again, err := c.EnsureRoutes(context.TODO(), strategyOf(st))
			o.AgainDone, o.AgainErr, o.AgainWrites = again, short(err), s.EffWrites()
			o.StableSame = o.StableSame && string(s.Raw(ingKey)) == orig
		}
		fr, err := fresh(st)
		if err != nil {
			return nil, err
		}
		o.Fresh = fr
		outs = append(outs, o)
	}
	fin := finOut{Before: readCanary(s).Exists}
	for fin.Calls < 3 {
		c, err := provider(s, cls)
		if err != nil {
			return nil, err
		}
		s.BeginAction("rollout")
		mod, err := c.Finalise(context.TODO())
		fin.Calls++
		if err != nil {
			fin.Err = short(err)
			break
		}
		if !mod {
			break
		}
		fin.Modified = true
	}
	fin.Gone = !readCanary(s).Exists
	fin.StableSame = string(s.Raw(ingKey)) == orig
	return map[string]interface{}{"steps": outs, "fin": fin}, nil
}

// panicMessage renders a recovered panic so that it is identical in every process: fnlib records the
// panic value plus the raw stack lines of /repo's frames, which contain pointer arguments, but a case
// must replay with exactly the same record. The frames are reduced to "function file:line" here and
// the caller raises the panic again (after the original stack is unwound) for fnlib to record.
func panicMessage(r interface{}) string {
	if r == nil {
		return ""
	}
	var keep []string
	lines := strings.Split(string(debug.Stack()), "\n")
	for i, l := range lines {
		if !strings.Contains(l, "openkruise/rollouts") || strings.HasPrefix(l, "\t") {
			continue
		}
		fn := l
		if j := strings.LastIndex(fn, "("); j > 0 {
			fn = fn[:j]
		}
		fn = strings.TrimPrefix(fn, "github.com/openkruise/rollouts/")
		loc := ""
		if i+1 < len(lines) {
			loc = strings.TrimSpace(lines[i+1])
			if j := strings.Index(loc, " +0x"); j > 0 {
				loc = loc[:j]
			}
			if j := strings.LastIndex(loc, "/"); j >= 0 {
				loc = loc[j+1:]
			}
		}
		keep = append(keep, fn+" "+loc)
		if len(keep) >= 4 {
			break
		}
	}
	return fmt.Sprintf("%v @ %s", r, strings.Join(keep, " < "))
}

// ---------------------------------------------------------------------------------------------
// enumeration

func seqs(kinds []string, n int) [][]string {
	if n == 0 {
		return [][]string{{}}
	}
	var out [][]string
	for _, pre := range seqs(kinds, n-1) {
		for _, k := range kinds {
			out = append(out, append(append([]string{}, pre...), k))
		}
	}
	return out
}

func shapes(maxRules int) [][]int {
	var out [][]int
	var rec func(cur []int, n int)
	rec = func(cur []int, n int) {
		if n == 0 {
			out = append(out, append([]int{}, cur...))
			return
		}
		for i := range ruleVariants {
			rec(append(cur, i), n-1)
		}
	}
	for n := 1; n <= maxRules; n++ {
		rec(nil, n)
	}
	return out
}

func main() {
	fl := fnlib.ParseFlags()
	w, err := fnlib.NewWriter(fl)
	if err != nil {
		panic(err)
	}
	sim.InitProcess()
	thorough := fl.Tier == "thorough"

	type freshVal struct {
		r   enterResult
		err error
	}
	memo := map[string]freshVal{}

	one := func(part string, shape []int, annKind, cls string, ids []string) {
		rules := []absRule{}
		noHTTP, res := false, false
		for _, i := range shape {
			rules = append(rules, ruleVariants[i])
			if !ruleVariants[i].HTTP {
				noHTTP = true
			}
			for _, ap := range ruleVariants[i].Paths {
				if ap.Be == "res" {
					res = true
				}
			}
		}
		steps := []absStep{}
		usesQuery, usesRhm, usesPath := false, false, false
		for _, id := range ids {
			st := catalogue[id]
			steps = append(steps, st)
			usesRhm = usesRhm || st.HasRhm
			for _, m := range st.Matches {
				usesQuery = usesQuery || len(m.Queries) > 0
				usesPath = usesPath || m.Path != ""
			}
		}
		in := map[string]interface{}{
			"part": part, "cls": cls, "annKind": annKind, "annNil": annKind == "none",
			"noHttp": noHTTP, "resBackend": res, "usesQuery": usesQuery, "usesRhm": usesRhm, "usesPath": usesPath,
			"seq": strings.Join(ids, ","), "shape": fmt.Sprint(shape),
			"stableSvc": stableSvc, "canarySvc": canarySvc,
			"ann": kvs(annotationsOf(annKind)), "rules": rules, "steps": steps,
		}
		fresh := func(st absStep) (enterResult, error) {
			key := fmt.Sprintf("%v|%s|%s|%s", shape, annKind, cls, st.ID)
			if v, ok := memo[key]; ok {
				return v.r, v.err
			}
			s, err := newStore(rules, annKind)
			if err != nil {
				return enterResult{}, err
			}
			r, _ := enter(s, cls, st)
			if rb, _ := json.Marshal(r); !strings.Contains(string(rb), "context deadline exceeded") { // a Lua wall-clock timeout is not memoised
				memo[key] = freshVal{r, nil}
			}
			return r, nil
		}
		w.Run(in, func() (out interface{}, err error) {
			msg := ""
			func() {
				defer func() { msg = panicMessage(recover()) }()
				out, err = runCase(rules, annKind, cls, steps, fresh)
			}()
			if msg != "" {
				panic(msg) // raised again from a frame below which /repo's frames are gone
			}
			return out, err
		})
	}

	// part "shape": every Ingress shape with both annotation kinds, every class and a few short sequences;
	// shapes of 3 rules in the thorough tier only.
	shortSeqs := [][]string{{"w20"}, {"hx", "w100"}, {"ck"}}
	all := shapes(2)
	for _, sh := range all {
		for _, annKind := range []string{"user", "none"} {
			for _, cls := range classes {
				for _, ids := range shortSeqs {
					one("shape", sh, annKind, cls, ids)
				}
			}
		}
	}
	maxRules := 2
	if thorough {
		maxRules = 3
		for _, sh := range shapes(3) {
			if len(sh) < 3 {
				continue
			}
			all = append(all, sh)
			for _, annKind := range []string{"user", "none"} {
				for _, cls := range classes {
					for _, ids := range shortSeqs[:2] {
						one("shape", sh, annKind, cls, ids)
					}
				}
			}
		}
	}

	// part "seq": every step sequence over the class's catalogue on one mixed Ingress; the mse class first
	// (it has the largest catalogue).
	maxLen := 2
	if thorough {
		maxLen = 3
	}
	seqShape := []int{1}
	nSeq := 0
	for n := 1; n <= maxLen; n++ {
		nSeq += len(seqs(kindsOf("nginx"), n))
		for _, cls := range []string{"mse", "nginx", "aliyun-alb", "higress"} {
			for _, annKind := range []string{"user", "subset", "none"} {
				for _, ids := range seqs(kindsOf(cls), n) {
					one("seq", seqShape, annKind, cls, ids)
				}
			}
		}
	}
	w.Close(true, map[string]interface{}{"maxSeqLen": maxLen, "seqsPerCommonClass": nSeq, "seqsMse": func() int {
		k := 0
		for n := 1; n <= maxLen; n++ {
			k += len(seqs(kindsOf("mse"), n))
		}
		return k
	}(), "maxRules": maxRules, "shapes": len(all), "ruleVariants": len(ruleVariants), "classes": classes})
}
