// fn-labelpatch: the real labelpatch.PatchPodBatchLabel (and FilterPodsForUnorderedUpdate) of the
// BatchRelease controller over a bounded domain of pod sets (property C12). Every case builds the pods
// of the abstract input in a simulated API server, runs one labelling pass on a context listed from the
// store, reads the labels back, runs a second pass on a fresh context (idempotence) and runs one pass on
// the "cleaned" pod set (stale label values wiped) in a second store.
//
// quick:    every multiset of <= 3 pods over a restricted type alphabet x plan configurations
// thorough: the same with more configurations, every multiset of <= 2 pods over the full alphabet and
//
//	seeded samples of 3- and 4-pod multisets over the full alphabet.
package main

import (
	"context"
	"fmt"
	"math/rand"
	"sort"
	"strconv"
	"strings"

	"github.com/openkruise/rollouts/api/v1beta1"
	batchcontext "github.com/openkruise/rollouts/pkg/controller/batchrelease/context"
	"github.com/openkruise/rollouts/pkg/controller/batchrelease/control"
	"github.com/openkruise/rollouts/pkg/controller/batchrelease/labelpatch"
	"github.com/openkruise/rollouts/pkg/util"
	appsv1 "k8s.io/api/apps/v1"
	corev1 "k8s.io/api/core/v1"
	metav1 "k8s.io/apimachinery/pkg/apis/meta/v1"
	"k8s.io/apimachinery/pkg/types"
	"k8s.io/apimachinery/pkg/util/intstr"
	"k8s.io/klog/v2"
	utilpointer "k8s.io/utils/pointer"
	"sigs.k8s.io/controller-runtime/pkg/client"

	"verif/harness/fnlib"
	"verif/harness/sim"
)

const (
	ns         = "default"
	curID      = "rollout-cur"
	foreignID  = "rollout-old"
	unrelatedN = "7d4b9c6f5" // pod-template-hash the Deployment controller would have put (new ReplicaSet)
	unrelatedO = "5c8d7b9f4"
)

// abstract pod
type pod struct {
	Rev  string `json:"rev"`  // new | old | unknown
	Own  string `json:"own"`  // cs | rs
	Hash string `json:"hash"` // crh | pth | none
	Term bool   `json:"term"`
	Rid  string `json:"rid"` // none | cur | foreign
	Bid  string `json:"bid"` // raw label value, "" = absent
	Bk   string `json:"bk"`  // none | in | zero | neg | high | nonnum
	Nnu  bool   `json:"nnu"`
}

func (p pod) key() string {
	return fmt.Sprintf("%s/%s/%s/%v/%s/%s/%v", p.Rev, p.Own, p.Hash, p.Term, p.Rid, p.Bid, p.Nnu)
}

func eligible(p pod) bool { return !p.Term && p.Rev == "new" }

type step struct {
	Rep int `json:"rep"`
	Pct int `json:"pct"`
}

func (s step) intstr() intstr.IntOrString {
	if s.Pct >= 0 {
		return intstr.FromString(fmt.Sprintf("%d%%", s.Pct))
	}
	return intstr.FromInt(s.Rep)
}

type config struct {
	plan []step
	R    int
}

func I(n int) step { return step{Rep: n, Pct: -1} }
func P(n int) step { return step{Rep: -1, Pct: n} }

var (
	hashNew, hashOld string
	rsNew, rsOld     *appsv1.ReplicaSet
)

func replicaSet(name, image string) *appsv1.ReplicaSet {
	return &appsv1.ReplicaSet{
		ObjectMeta: metav1.ObjectMeta{Namespace: ns, Name: name, Labels: map[string]string{"app": "demo"}},
		Spec: appsv1.ReplicaSetSpec{
			Replicas: utilpointer.Int32(1),
			Selector: &metav1.LabelSelector{MatchLabels: map[string]string{"app": "demo"}},
			Template: corev1.PodTemplateSpec{
				ObjectMeta: metav1.ObjectMeta{Labels: map[string]string{"app": "demo", appsv1.DefaultDeploymentUniqueLabelKey: name}},
				Spec:       corev1.PodSpec{Containers: []corev1.Container{{Name: "main", Image: image}}},
			},
		},
	}
}

// the revision hashes exactly as the patcher derives them from a stored ReplicaSet
func initHashes() {
	s := sim.NewStore(sim.GlobalScheme())
	rsNew, rsOld = replicaSet("rs-new", "demo:v2"), replicaSet("rs-old", "demo:v1")
	for _, rs := range []*appsv1.ReplicaSet{rsNew, rsOld} {
		if err := s.Put(rs); err != nil {
			panic(err)
		}
	}
	h := func(name string) string {
		rs := &appsv1.ReplicaSet{}
		if err := s.Get(context.TODO(), types.NamespacedName{Namespace: ns, Name: name}, rs); err != nil {
			panic(err)
		}
		delete(rs.Spec.Template.ObjectMeta.Labels, appsv1.DefaultDeploymentUniqueLabelKey)
		return util.ComputeHash(&rs.Spec.Template, nil)
	}
	hashNew, hashOld = h("rs-new"), h("rs-old")
	if hashNew == hashOld || strings.HasSuffix(hashNew, hashOld) || strings.HasSuffix(hashOld, hashNew) {
		panic("revision hashes collide")
	}
}

func revHash(rev string) string {
	if rev == "new" {
		return hashNew
	}
	return hashOld
}

func concretePod(i int, p pod) *corev1.Pod {
	lbl := map[string]string{"app": "demo"}
	o := &corev1.Pod{ObjectMeta: metav1.ObjectMeta{Namespace: ns, Name: fmt.Sprintf("p-%d", i)},
		Spec: corev1.PodSpec{Containers: []corev1.Container{{Name: "main", Image: "demo"}}}}
	switch p.Own {
	case "rs":
		name, un := "rs-new", unrelatedN
		if p.Rev != "new" {
			name, un = "rs-old", unrelatedO
		}
		lbl[appsv1.DefaultDeploymentUniqueLabelKey] = un
		o.OwnerReferences = []metav1.OwnerReference{{APIVersion: "apps/v1", Kind: "ReplicaSet", Name: name, UID: types.UID("uid-" + name), Controller: utilpointer.Bool(true)}}
		if p.Hash == "crh" {
			lbl[appsv1.ControllerRevisionHashLabelKey] = revHash(p.Rev) // what the patcher itself writes
		}
	default:
		o.OwnerReferences = []metav1.OwnerReference{{APIVersion: "apps.kruise.io/v1alpha1", Kind: "CloneSet", Name: "demo", UID: "uid-demo", Controller: utilpointer.Bool(true)}}
		switch p.Hash {
		case "crh":
			lbl[appsv1.ControllerRevisionHashLabelKey] = "demo-" + revHash(p.Rev)
		case "pth":
			lbl[appsv1.DefaultDeploymentUniqueLabelKey] = revHash(p.Rev)
		}
	}
	switch p.Rid {
	case "cur":
		lbl[v1beta1.RolloutIDLabel] = curID
	case "foreign":
		lbl[v1beta1.RolloutIDLabel] = foreignID
	}
	if p.Bid != "" {
		lbl[v1beta1.RolloutBatchIDLabel] = p.Bid
	}
	if p.Nnu {
		lbl[util.NoNeedUpdatePodLabel] = curID
	}
	o.Labels = lbl
	if p.Term {
		o.Finalizers = []string{"verif.io/hold"}
	}
	return o
}

func buildStore(pods []pod) (*sim.Store, error) {
	s := sim.NewStore(sim.GlobalScheme())
	needRS := false
	for i, p := range pods {
		if p.Own == "rs" {
			needRS = true
		}
		o := concretePod(i, p)
		if err := s.Put(o); err != nil {
			return nil, err
		}
		if p.Term {
			if err := s.Delete(context.TODO(), o); err != nil {
				return nil, err
			}
		}
	}
	if needRS {
		for _, rs := range []*appsv1.ReplicaSet{rsNew, rsOld} {
			if err := s.Put(rs.DeepCopy()); err != nil {
				return nil, err
			}
		}
	}
	return s, nil
}

func listPods(s *sim.Store) ([]*corev1.Pod, error) {
	pl := &corev1.PodList{}
	if err := s.List(context.TODO(), pl, client.InNamespace(ns)); err != nil {
		return nil, err
	}
	out := make([]*corev1.Pod, 0, len(pl.Items))
	for i := range pl.Items {
		out = append(out, &pl.Items[i])
	}
	return out, nil
}

type caseIn struct {
	plan    []step
	R, cur  int
	filter  string
	planned int
	desired int
	nnu     int
	pods    []pod
}

func batches(plan []step) []v1beta1.ReleaseBatch {
	var b []v1beta1.ReleaseBatch
	for _, st := range plan {
		b = append(b, v1beta1.ReleaseBatch{CanaryReplicas: st.intstr()})
	}
	return b
}

// one labelling pass on a context built from the store, as the CloneSet control builds it
func pass(s *sim.Store, ci *caseIn) error {
	pods, err := listPods(s)
	if err != nil {
		return err
	}
	bc := &batchcontext.BatchContext{
		RolloutID:              curID,
		CurrentBatch:           int32(ci.cur),
		UpdateRevision:         "demo-" + hashNew,
		Replicas:               int32(ci.R),
		PlannedUpdatedReplicas: int32(ci.planned),
		DesiredUpdatedReplicas: int32(ci.desired),
		Pods:                   pods,
	}
	if ci.filter == "unordered" {
		bc.NoNeedUpdatedReplicas = utilpointer.Int32(int32(ci.nnu))
		bc.FilterFunc = labelpatch.FilterPodsForUnorderedUpdate
	}
	return labelpatch.NewLabelPatcher(s, klog.ObjectRef{Namespace: ns, Name: "br"}, batches(ci.plan)).PatchPodBatchLabel(bc)
}

func safePass(s *sim.Store, ci *caseIn) (errS, panicS string) {
	defer func() {
		if r := recover(); r != nil {
			panicS = fmt.Sprintf("%v", r)
		}
	}()
	if err := pass(s, ci); err != nil {
		errS = err.Error()
	}
	return
}

type podOut struct {
	Rid string `json:"rid"`
	Bid string `json:"bid"`
	Crh string `json:"crh"`
	Nl  int    `json:"nl"`
}

func project(s *sim.Store, n int) ([]podOut, error) {
	pods, err := listPods(s)
	if err != nil {
		return nil, err
	}
	if len(pods) != n {
		return nil, fmt.Errorf("pod count changed: %d != %d", len(pods), n)
	}
	out := make([]podOut, 0, n)
	for i, p := range pods {
		if p.Name != fmt.Sprintf("p-%d", i) {
			return nil, fmt.Errorf("unexpected list order: %s at %d", p.Name, i)
		}
		o := podOut{Rid: "other", Bid: p.Labels[v1beta1.RolloutBatchIDLabel], Crh: "other", Nl: len(p.Labels)}
		switch p.Labels[v1beta1.RolloutIDLabel] {
		case "":
			o.Rid = "none"
		case curID:
			o.Rid = "cur"
		case foreignID:
			o.Rid = "foreign"
		}
		switch p.Labels[appsv1.ControllerRevisionHashLabelKey] {
		case "":
			o.Crh = "none"
		case hashNew, "demo-" + hashNew:
			o.Crh = "new"
		case hashOld, "demo-" + hashOld:
			o.Crh = "old"
		}
		out = append(out, o)
	}
	return out, nil
}

func cleaned(pods []pod) []pod {
	out := make([]pod, len(pods))
	for i, p := range pods {
		if !(eligible(p) && p.Rid == "cur") {
			p.Rid, p.Bid, p.Bk = "none", "", "none"
		}
		out[i] = p
	}
	return out
}

func samePods(a, b []pod) bool {
	for i := range a {
		if a[i] != b[i] {
			return false
		}
	}
	return true
}

func bk(bid string, n int) string {
	if bid == "" {
		return "none"
	}
	v, err := strconv.Atoi(bid)
	switch {
	case err != nil:
		return "nonnum"
	case v == 0:
		return "zero"
	case v < 0:
		return "neg"
	case v > n:
		return "high"
	}
	return "in"
}

// --------------------------------------------------------------------------------------------------
// alphabets

func lab(rid, bid string) [2]string { return [2]string{rid, bid} }

func mk(rev, own, hash string, term bool, l [2]string, nnu bool, n int) pod {
	return pod{Rev: rev, Own: own, Hash: hash, Term: term, Rid: l[0], Bid: l[1], Bk: bk(l[1], n), Nnu: nnu}
}

// restricted alphabet (quick): the shapes the property text names
func alphabetQuick(n int) []pod {
	var a []pod
	core := [][2]string{lab("none", "")}
	for i := 1; i <= n; i++ {
		core = append(core, lab("cur", strconv.Itoa(i)))
	}
	core = append(core, lab("cur", "0"), lab("cur", strconv.Itoa(n+1)), lab("cur", "-1"), lab("cur", "abc"), lab("cur", ""),
		lab("foreign", "1"), lab("foreign", "abc"), lab("none", "1"))
	for _, l := range core {
		a = append(a, mk("new", "cs", "crh", false, l, false, n))
	}
	for _, l := range [][2]string{lab("none", ""), lab("cur", "1"), lab("cur", "0")} {
		a = append(a, mk("new", "cs", "crh", true, l, false, n))
	}
	for _, l := range [][2]string{lab("none", ""), lab("cur", "1"), lab("cur", "0"), lab("foreign", "1")} {
		a = append(a, mk("old", "cs", "crh", false, l, false, n))
	}
	for _, l := range [][2]string{lab("none", ""), lab("cur", "1"), lab("cur", "0")} {
		a = append(a, mk("new", "rs", "none", false, l, false, n))
	}
	a = append(a, mk("old", "rs", "none", false, lab("none", ""), false, n))
	a = append(a, mk("new", "cs", "pth", false, lab("none", ""), false, n))
	a = append(a, mk("unknown", "cs", "none", false, lab("none", ""), false, n))
	a = append(a, mk("unknown", "cs", "none", false, lab("cur", "1"), false, n))
	return a
}

// alphabet of the filtered (rollback, no-need-update) cases: CloneSet pods only — the filter is never
// installed for the ReplicaSet-owned pods of a Deployment
func alphabetFilter(n int) []pod {
	var a []pod
	for _, l := range [][2]string{lab("none", ""), lab("cur", "1"), lab("cur", strconv.Itoa(n)), lab("cur", "0"), lab("cur", "abc"), lab("foreign", "1")} {
		a = append(a, mk("new", "cs", "crh", false, l, false, n))
	}
	a = append(a, mk("new", "cs", "crh", true, lab("none", ""), false, n))
	a = append(a, mk("old", "cs", "crh", false, lab("none", ""), false, n))
	a = append(a, mk("old", "cs", "crh", false, lab("cur", "1"), false, n))
	// no-need-update pods
	a = append(a, mk("new", "cs", "crh", false, lab("none", ""), true, n))
	a = append(a, mk("new", "cs", "crh", false, lab("foreign", "1"), true, n))
	a = append(a, mk("new", "cs", "crh", false, lab("cur", "1"), true, n))
	a = append(a, mk("old", "cs", "crh", false, lab("none", ""), true, n))
	return dedup(a)
}

// full alphabet (thorough): revision/owner/hash kinds x terminating x label values x (no-need-update)
func alphabetFull(n int, filter bool) []pod {
	kinds := [][3]string{{"new", "cs", "crh"}, {"old", "cs", "crh"}, {"new", "cs", "pth"}, {"old", "cs", "pth"}, {"unknown", "cs", "none"}}
	if !filter {
		kinds = append(kinds, [3]string{"new", "rs", "none"}, [3]string{"old", "rs", "none"}, [3]string{"new", "rs", "crh"}, [3]string{"old", "rs", "crh"})
	}
	labels := [][2]string{lab("none", ""), lab("none", "1"), lab("none", "0"), lab("cur", ""), lab("cur", "0"), lab("cur", strconv.Itoa(n+1)), lab("cur", "-1"), lab("cur", "abc"),
		lab("cur", "99999999999999999999"), lab("cur", "1.0"),
		lab("foreign", ""), lab("foreign", "1"), lab("foreign", "0"), lab("foreign", "abc"), lab("foreign", strconv.Itoa(n+1))}
	for i := 1; i <= n; i++ {
		labels = append(labels, lab("cur", strconv.Itoa(i)))
	}
	nn := []bool{false}
	if filter {
		nn = []bool{false, true}
	}
	var a []pod
	for _, k := range kinds {
		for _, t := range []bool{false, true} {
			for _, l := range labels {
				for _, u := range nn {
					a = append(a, mk(k[0], k[1], k[2], t, l, u, n))
				}
			}
		}
	}
	return dedup(a)
}

func dedup(a []pod) []pod {
	seen := map[string]bool{}
	var out []pod
	for _, p := range a {
		if !seen[p.key()] {
			seen[p.key()] = true
			out = append(out, p)
		}
	}
	return out
}

// every multiset of exactly k elements of 0..m-1 (non-decreasing index sequences)
func multisets(m, k int, f func(idx []int)) {
	idx := make([]int, k)
	var rec func(pos, from int)
	rec = func(pos, from int) {
		if pos == k {
			f(idx)
			return
		}
		for i := from; i < m; i++ {
			idx[pos] = i
			rec(pos+1, i)
		}
	}
	rec(0, 0)
}

// --------------------------------------------------------------------------------------------------

func configsQuick() []config {
	return []config{
		{[]step{I(2)}, 5}, {[]step{P(50)}, 5}, {[]step{P(100)}, 2},
		{[]step{I(1), I(3)}, 5}, {[]step{I(1), I(3)}, 2}, {[]step{P(20), P(100)}, 5}, {[]step{I(2), I(1)}, 5}, {[]step{P(50), P(50)}, 3},
		{[]step{I(1), I(2), I(4)}, 5}, {[]step{P(10), P(50), P(100)}, 5}, {[]step{I(1), P(50), P(100)}, 4}, {[]step{I(1), I(2), I(4)}, 3},
	}
}

func configsThoroughExtra() []config {
	return []config{
		{[]step{I(0)}, 3}, {[]step{P(1)}, 1}, {[]step{I(7)}, 3},
		{[]step{P(50), P(100)}, 0}, {[]step{P(34), P(67)}, 3}, {[]step{I(3), I(3)}, 4}, {[]step{P(100), P(0)}, 2},
		{[]step{I(1), I(1), I(2)}, 2}, {[]step{P(33), P(66), P(100)}, 3}, {[]step{I(3), I(1), I(2)}, 6}, {[]step{P(1), P(2), P(3)}, 10},
	}
}

type runner struct {
	w  *fnlib.Writer
}

func (r *runner) run(cfg config, cur int, filter string, pods []pod) {
	n := len(cfg.plan)
	nnu := 0
	for _, p := range pods {
		if p.Nnu {
			nnu++
		}
	}
	if filter == "unordered" && nnu > cfg.R {
		return
	}
	br := &v1beta1.BatchRelease{ObjectMeta: metav1.ObjectMeta{Namespace: ns, Name: "br"},
		Spec: v1beta1.BatchReleaseSpec{ReleasePlan: v1beta1.ReleasePlan{Batches: batches(cfg.plan)}}}
	planned := control.CalculateBatchReplicas(br, cfg.R, cur)
	desired := planned
	if filter == "unordered" && nnu > 0 { // cloneset control.go CalculateBatchContext, rollback scene
		desired = nnu + control.CalculateBatchReplicas(br, cfg.R-nnu, cur)
	}
	ci := &caseIn{plan: cfg.plan, R: cfg.R, cur: cur, filter: filter, planned: planned, desired: desired, nnu: nnu, pods: append([]pod(nil), pods...)}
	kinds := map[string]bool{}
	for _, p := range pods {
		if eligible(p) && p.Rid == "cur" && (p.Bk == "zero" || p.Bk == "neg" || p.Bk == "high") {
			kinds[p.Bk] = true
		}
	}
	var ks []string
	for k := range kinds {
		ks = append(ks, k)
	}
	sort.Strings(ks)
	in := map[string]interface{}{"n": n, "plan": ci.plan, "R": ci.R, "cur": cur, "filter": filter, "planned": planned, "desired": desired,
		"nnu": nnu, "npods": len(pods), "pods": ci.pods, "oorAny": len(ks) > 0, "oor": strings.Join(ks, "+")}
	r.w.Run(in, func() (interface{}, error) {
		s, err := buildStore(ci.pods)
		if err != nil {
			panic("harness: " + err.Error())
		}
		err1 := pass(s, ci) // a panic of the real code propagates to w.Run
		pods1, perr := project(s, len(ci.pods))
		if perr != nil {
			panic("harness: " + perr.Error())
		}
		err2, panic2 := safePass(s, ci)
		pods2, perr := project(s, len(ci.pods))
		if perr != nil {
			panic("harness: " + perr.Error())
		}
		// the same pass on the pod set whose stale label values are wiped
		clean1, errC, panicC := pods1, "", ""
		if cp := cleaned(ci.pods); !samePods(cp, ci.pods) {
			cc := *ci
			cc.pods = cp
			sc, err := buildStore(cp)
			if err != nil {
				panic("harness: " + err.Error())
			}
			errC, panicC = safePass(sc, &cc)
			if clean1, perr = project(sc, len(cp)); perr != nil {
				panic("harness: " + perr.Error())
			}
		}
		return map[string]interface{}{"pods1": pods1, "pods2": pods2, "err2": err2, "panic2": panic2,
			"clean1": clean1, "errC": errC, "panicC": panicC}, err1
	})
}

func pick(a []pod, idx []int) []pod {
	out := make([]pod, len(idx))
	for i, j := range idx {
		out[i] = a[j]
	}
	return out
}

func hasNnu(pods []pod) bool {
	for _, p := range pods {
		if p.Nnu {
			return true
		}
	}
	return false
}

func main() {
	fl := fnlib.ParseFlags()
	w, err := fnlib.NewWriter(fl)
	if err != nil {
		panic(err)
	}
	sim.InitProcess()
	initHashes()
	r := &runner{w: w}
	thorough := fl.Tier == "thorough"
	cfgs := configsQuick()
	if thorough {
		cfgs = append(cfgs, configsThoroughExtra()...)
	}
	sort.SliceStable(cfgs, func(i, j int) bool { return len(cfgs[i].plan) < len(cfgs[j].plan) })
	maxPods := 3
	counts := map[string]int{}
	// part A: exhaustive multisets over the restricted alphabet, smallest pod sets first
	for k := 0; k <= maxPods; k++ {
		for _, cfg := range cfgs {
			n := len(cfg.plan)
			aq, af := alphabetQuick(n), alphabetFilter(n)
			for cur := 0; cur < n; cur++ {
				multisets(len(aq), k, func(idx []int) {
					r.run(cfg, cur, "none", pick(aq, idx))
					counts["A.none"]++
				})
				multisets(len(af), k, func(idx []int) {
					ps := pick(af, idx)
					if hasNnu(ps) || k == 0 {
						r.run(cfg, cur, "unordered", ps)
						counts["A.filter"]++
					}
				})
			}
		}
	}
	exhaustive := true
	if thorough {
		// part B: every multiset of <= 2 pods over the full alphabet
		for k := 1; k <= 2; k++ {
			for _, cfg := range cfgs {
				n := len(cfg.plan)
				for cur := 0; cur < n; cur++ {
					for _, filter := range []string{"none", "unordered"} {
						a := alphabetFull(n, filter == "unordered")
						multisets(len(a), k, func(idx []int) {
							r.run(cfg, cur, filter, pick(a, idx))
							counts["B."+filter]++
						})
					}
				}
			}
		}
		// part C: seeded samples of 3- and 4-pod multisets over the full alphabet
		exhaustive = false
		rng := rand.New(rand.NewSource(fl.Seed))
		for i := 0; i < 260000; i++ {
			cfg := cfgs[rng.Intn(len(cfgs))]
			n := len(cfg.plan)
			cur := rng.Intn(n)
			filter := "none"
			if rng.Intn(4) == 0 {
				filter = "unordered"
			}
			a := alphabetFullCached(n, filter == "unordered")
			k := 3 + rng.Intn(2)
			idx := make([]int, k)
			for j := range idx {
				// half of the pods are drawn from the live new-revision CloneSet pods so that budgets are contended
				if rng.Intn(2) == 0 {
					idx[j] = rng.Intn(len(a))
				} else {
					idx[j] = eligibleIdx(a, n, filter == "unordered")[rng.Intn(len(eligibleIdx(a, n, filter == "unordered")))]
				}
			}
			sort.Ints(idx)
			r.run(cfg, cur, filter, pick(a, idx))
			counts["C.sampled"]++
		}
	}
	extra := map[string]interface{}{"parts": counts, "configs": len(cfgs), "max_pods_exhaustive": maxPods, "hash_new": hashNew, "hash_old": hashOld}
	w.Close(exhaustive, extra)
}

var (
	fullCache = map[string][]pod{}
	eligCache = map[string][]int{}
)

func alphabetFullCached(n int, filter bool) []pod {
	k := fmt.Sprintf("%d/%v", n, filter)
	if a, ok := fullCache[k]; ok {
		return a
	}
	a := alphabetFull(n, filter)
	fullCache[k] = a
	return a
}

func eligibleIdx(a []pod, n int, filter bool) []int {
	k := fmt.Sprintf("%d/%v", n, filter)
	if e, ok := eligCache[k]; ok {
		return e
	}
	var e []int
	for i, p := range a {
		if eligible(p) && p.Own == "cs" && p.Hash == "crh" {
			e = append(e, i)
		}
	}
	eligCache[k] = e
	return e
}
