// fn-labelpatch: the real labelpatch.PatchPodBatchLabel (and FilterPodsForUnorderedUpdate) of the
// BatchRelease controller over a bounded domain of pod sets (property C12). Every case builds the pods
// of the abstract input in a simulated API server, runs one labelling pass on a context listed from the
// store, reads the labels back, runs a second pass on a fresh context (idempotence) and runs one pass on
// the "cleaned" pod set (stale label values wiped) in a second store.
//
// quick:    every multiset of <= 3 pods over a restricted type alphabet x plan configurations
// thorough: the same with more configurations, every multiset of <= 2 pods over the full alphabet and
//
//	seeded samples of 3- and 4-pod multisets over the full alphabet.
package main

import (
	"context"
	"fmt"
	"math/rand"
	"runtime/debug"
	"sort"
	"strconv"
	"strings"

	"github.com/go-logr/logr"
	"github.com/openkruise/rollouts/api/v1beta1"
	batchcontext "github.com/openkruise/rollouts/pkg/controller/batchrelease/context"
	"github.com/openkruise/rollouts/pkg/controller/batchrelease/control"
	"github.com/openkruise/rollouts/pkg/controller/batchrelease/labelpatch"
	"github.com/openkruise/rollouts/pkg/util"
	appsv1 "k8s.io/api/apps/v1"
	corev1 "k8s.io/api/core/v1"
	metav1 "k8s.io/apimachinery/pkg/apis/meta/v1"
	"k8s.io/apimachinery/pkg/types"
	"k8s.io/apimachinery/pkg/util/intstr"
	"k8s.io/klog/v2"
	utilpointer "k8s.io/utils/pointer"
	"sigs.k8s.io/controller-runtime/pkg/client"

	"verif/harness/fnlib"
	"verif/harness/sim"
)

const (
	ns         = "default"
	curID      = "rollout-cur"
	foreignID  = "rollout-old"
	unrelatedN = "7d4b9c6f5" // pod-template-hash the Deployment controller would have put (new ReplicaSet)
	unrelatedO = "5c8d7b9f4"
)

// abstract pod
type pod struct {
	Rev  string `json:"rev"`  // new | old | unknown
	Own  string `json:"own"`  // cs | rs
	Hash string `json:"hash"` // crh | pth | none
	Term bool   `json:"term"`
	Rid  string `json:"rid"` // none | cur | foreign
	Bid  string `json:"bid"` // raw label value, "" = absent
	Bk   string `json:"bk"`  // none | in | zero | neg | high | nonnum
	Nnu  bool   `json:"nnu"`
}

func (p pod) key() string {
	return fmt.Sprintf("%s/%s/%s/%v/%s/%s/%v", p.Rev, p.Own, p.Hash, p.Term, p.Rid, p.Bid, p.Nnu)
}

func eligible(p pod) bool { return !p.Term && p.Rev == "new" }

type step struct {
	Rep int `json:"rep"`
	Pct int `json:"pct"`
}

func (s step) intstr() intstr.IntOrString {
	if s.Pct >= 0 {
		return intstr.FromString(fmt.Sprintf("%d%%", s.Pct))
	}
	return intstr.FromInt(s.Rep)
}

type config struct {
	plan []step
	R    int
}

func I(n int) step { return step{Rep: n, Pct: -1} }
func P(n int) step { return step{Rep: -1, Pct: n} }

var (
	hashNew, hashOld string
	rsNew, rsOld     *appsv1.ReplicaSet
)

func replicaSet(name, image string) *appsv1.ReplicaSet {
	return &appsv1.ReplicaSet{
		ObjectMeta: metav1.ObjectMeta{Namespace: ns, Name: name, Labels: map[string]string{"app": "demo"}},
		Spec: appsv1.ReplicaSetSpec{
			Replicas: utilpointer.Int32(1),
			Selector: &metav1.LabelSelector{MatchLabels: map[string]string{"app": "demo"}},
			Template: corev1.PodTemplateSpec{
				ObjectMeta: metav1.ObjectMeta{Labels: map[string]string{"app": "demo", appsv1.DefaultDeploymentUniqueLabelKey: name}},
				Spec:       corev1.PodSpec{Containers: []corev1.Container{{Name: "main", Image: image}}},
			},
		},
	}
}

// the revision hashes exactly as the patcher derives them from a stored ReplicaSet
func initHashes() {
	s := sim.NewStore(sim.GlobalScheme())
	rsNew, rsOld = replicaSet("rs-new", "demo:v2"), replicaSet("rs-old", "demo:v1")
	for _, rs := range []*appsv1.ReplicaSet{rsNew, rsOld} {
		if err := s.Put(rs); err != nil {
			panic(err)
		}
	}
	h := func(name string) string {
		rs := &appsv1.ReplicaSet{}
		if err := s.Get(context.TODO(), types.NamespacedName{Namespace: ns, Name: name}, rs); err != nil {
			panic(err)
		}
		delete(rs.Spec.Template.ObjectMeta.Labels, appsv1.DefaultDeploymentUniqueLabelKey)
		return util.ComputeHash(&rs.Spec.Template, nil)
	}
	hashNew, hashOld = h("rs-new"), h("rs-old")
	if hashNew == hashOld || strings.HasSuffix(hashNew, hashOld) || strings.HasSuffix(hashOld, hashNew) {
		panic("revision hashes collide")
	}
}

func revHash(rev string) string {
	if rev == "new" {
		return hashNew
	}
	return hashOld
}

func concretePod(i int, p pod) *corev1.Pod {
	lbl := map[string]string{"app": "demo"}
	o := &corev1.Pod{ObjectMeta: metav1.ObjectMeta{Namespace: ns, Name: fmt.Sprintf("p-%d", i)}}
	switch p.Own {
	case "rs":
		name, un := "rs-new", unrelatedN
		if p.Rev != "new" {
			name, un = "rs-old", unrelatedO
		}
		lbl[appsv1.DefaultDeploymentUniqueLabelKey] = un
		o.OwnerReferences = []metav1.OwnerReference{{APIVersion: "apps/v1", Kind: "ReplicaSet", Name: name, UID: types.UID("uid-" + name), Controller: utilpointer.Bool(true)}}
		if p.Hash == "crh" {
			lbl[appsv1.ControllerRevisionHashLabelKey] = revHash(p.Rev) // what the patcher itself writes
		}
	default:
		o.OwnerReferences = []metav1.OwnerReference{{APIVersion: "apps.kruise.io/v1alpha1", Kind: "CloneSet", Name: "demo", UID: "uid-demo", Controller: utilpointer.Bool(true)}}
		switch p.Hash {
		case "crh":
			lbl[appsv1.ControllerRevisionHashLabelKey] = "demo-" + revHash(p.Rev)
		case "pth":
			lbl[appsv1.DefaultDeploymentUniqueLabelKey] = revHash(p.Rev)
		}
	}
	switch p.Rid {
	case "cur":
		lbl[v1beta1.RolloutIDLabel] = curID
	case "foreign":
		lbl[v1beta1.RolloutIDLabel] = foreignID
	}
	if p.Bid != "" {
		lbl[v1beta1.RolloutBatchIDLabel] = p.Bid
	}
	if p.Nnu {
		lbl[util.NoNeedUpdatePodLabel] = curID
	}
	o.Labels = lbl
	if p.Term {
		o.Finalizers = []string{"verif.io/hold"}
	}
	return o
}

// storeCache builds the simulated API server content of a pod set. Consecutive cases share long pod
// prefixes (multisets are enumerated in lexicographic order), so the store state after every prefix is
// kept as an immutable snapshot and only the differing suffix is created again. The resulting state is
// exactly the one a build from scratch produces (same creation order: ReplicaSets, then p-0, p-1, ...).
type storeCache struct {
	s     *sim.Store
	pods  []pod
	snaps []*sim.Snapshot // snaps[j]: ReplicaSets and pods[0..j-1] created
}

func (c *storeCache) build(pods []pod) (*sim.Store, error) {
	if c.s == nil {
		c.s = sim.NewStore(sim.GlobalScheme())
		for _, rs := range []*appsv1.ReplicaSet{rsNew, rsOld} {
			if err := c.s.Put(rs.DeepCopy()); err != nil {
				return nil, err
			}
		}
		c.snaps = []*sim.Snapshot{c.s.Snapshot()}
	}
	j := 0
	for j < len(pods) && j < len(c.pods) && pods[j] == c.pods[j] {
		j++
	}
	c.s.Restore(c.snaps[j])
	c.snaps, c.pods = c.snaps[:j+1], c.pods[:j]
	for ; j < len(pods); j++ {
		o := concretePod(j, pods[j])
		if err := c.s.Put(o); err != nil {
			return nil, err
		}
		if pods[j].Term {
			if err := c.s.Delete(context.TODO(), o); err != nil {
				return nil, err
			}
		}
		c.pods = append(c.pods, pods[j])
		c.snaps = append(c.snaps, c.s.Snapshot())
	}
	c.s.BeginAction("batchrelease")
	return c.s, nil
}

var mainStore, cleanStore storeCache

func listPods(s *sim.Store) ([]*corev1.Pod, error) {
	pl := &corev1.PodList{}
	if err := s.List(context.TODO(), pl, client.InNamespace(ns)); err != nil {
		return nil, err
	}
	out := make([]*corev1.Pod, 0, len(pl.Items))
	for i := range pl.Items {
		out = append(out, &pl.Items[i])
	}
	return out, nil
}

type caseIn struct {
	plan    []step
	R, cur  int
	filter  string
	planned int
	desired int
	nnu     int
	pods    []pod
}

func batches(plan []step) []v1beta1.ReleaseBatch {
	var b []v1beta1.ReleaseBatch
	for _, st := range plan {
		b = append(b, v1beta1.ReleaseBatch{CanaryReplicas: st.intstr()})
	}
	return b
}

// one labelling pass on a context built from the store, as the CloneSet control builds it
func pass(s *sim.Store, ci *caseIn) error {
	pods, err := listPods(s)
	if err != nil {
		return err
	}
	bc := &batchcontext.BatchContext{
		RolloutID:              curID,
		CurrentBatch:           int32(ci.cur),
		UpdateRevision:         "demo-" + hashNew,
		Replicas:               int32(ci.R),
		PlannedUpdatedReplicas: int32(ci.planned),
		DesiredUpdatedReplicas: int32(ci.desired),
		Pods:                   pods,
	}
	if ci.filter == "unordered" {
		bc.NoNeedUpdatedReplicas = utilpointer.Int32(int32(ci.nnu))
		bc.FilterFunc = labelpatch.FilterPodsForUnorderedUpdate
	}
	return labelpatch.NewLabelPatcher(s, klog.ObjectRef{Namespace: ns, Name: "br"}, batches(ci.plan)).PatchPodBatchLabel(bc)
}

func safePass(s *sim.Store, ci *caseIn) (errS, panicS string) {
	defer func() {
		if r := recover(); r != nil {
			panicS = fmt.Sprintf("%v", r)
		}
	}()
	if err := pass(s, ci); err != nil {
		errS = err.Error()
	}
	return
}

type podOut struct {
	Rid string `json:"rid"`
	Bid string `json:"bid"`
	Crh string `json:"crh"`
	Nl  int    `json:"nl"`
}

func project(s *sim.Store, n int) ([]podOut, error) {
	pods, err := listPods(s)
	if err != nil {
		return nil, err
	}
	if len(pods) != n {
		return nil, fmt.Errorf("pod count changed: %d != %d", len(pods), n)
	}
	out := make([]podOut, 0, n)
	for i, p := range pods {
		if p.Name != fmt.Sprintf("p-%d", i) {
			return nil, fmt.Errorf("unexpected list order: %s at %d", p.Name, i)
		}
		o := podOut{Rid: "other", Bid: p.Labels[v1beta1.RolloutBatchIDLabel], Crh: "other", Nl: len(p.Labels)}
		switch p.Labels[v1beta1.RolloutIDLabel] {
		case "":
			o.Rid = "none"
		case curID:
			o.Rid = "cur"
		case foreignID:
			o.Rid = "foreign"
		}
		switch p.Labels[appsv1.ControllerRevisionHashLabelKey] {
		case "":
			o.Crh = "none"
		case hashNew, "demo-" + hashNew:
			o.Crh = "new"
		case hashOld, "demo-" + hashOld:
			o.Crh = "old"
		}
		out = append(out, o)
	}
	return out, nil
}

func cleaned(pods []pod) []pod {
	out := make([]pod, len(pods))
	for i, p := range pods {
		if !(eligible(p) && p.Rid == "cur") {
			p.Rid, p.Bid, p.Bk = "none", "", "none"
		}
		out[i] = p
	}
	return out
}

func samePods(a, b []pod) bool {
	for i := range a {
		if a[i] != b[i] {
			return false
		}
	}
	return true
}

func bk(bid string, n int) string {
	if bid == "" {
		return "none"
	}
	v, err := strconv.Atoi(bid)
	switch {
	case err != nil:
		return "nonnum"
	case v == 0:
		return "zero"
	case v < 0:
		return "neg"
	case v > n:
		return "high"
	}
	return "in"
}

// --------------------------------------------------------------------------------------------------
// alphabets

func lab(rid, bid string) [2]string { return [2]string{rid, bid} }

func mk(rev, own, hash string, term bool, l [2]string, nnu bool, n int) pod {
	return pod{Rev: rev, Own: own, Hash: hash, Term: term, Rid: l[0], Bid: l[1], Bk: bk(l[1], n), Nnu: nnu}
}

// restricted alphabet (quick): the shapes the property text names
func alphabetQuick(n int) []pod {
	var a []pod
	core := [][2]string{lab("none", "")}
	for i := 1; i <= n; i++ {
		core = append(core, lab("cur", strconv.Itoa(i)))
	}
	core = append(core, lab("cur", "0"), lab("cur", strconv.Itoa(n+1)), lab("cur", "-1"), lab("cur", "abc"), lab("cur", ""),
		lab("foreign", "1"), lab("foreign", "abc"), lab("none", "1"))
	for _, l := range core {
		a = append(a, mk("new", "cs", "crh", false, l, false, n))
	}
	for _, l := range [][2]string{lab("none", ""), lab("cur", "1"), lab("cur", "0")} {
		a = append(a, mk("new", "cs", "crh", true, l, false, n))
	}
	for _, l := range [][2]string{lab("none", ""), lab("cur", "1"), lab("cur", "0"), lab("foreign", "1")} {
		a = append(a, mk("old", "cs", "crh", false, l, false, n))
	}
	for _, l := range [][2]string{lab("none", ""), lab("cur", "1"), lab("cur", "0")} {
		a = append(a, mk("new", "rs", "none", false, l, false, n))
	}
	a = append(a, mk("old", "rs", "none", false, lab("none", ""), false, n))
	a = append(a, mk("new", "cs", "pth", false, lab("none", ""), false, n))
	a = append(a, mk("unknown", "cs", "none", false, lab("none", ""), false, n))
	a = append(a, mk("unknown", "cs", "none", false, lab("cur", "1"), false, n))
	return a
}

// alphabet of the filtered (rollback, no-need-update) cases: CloneSet pods only — the filter is never
// installed for the ReplicaSet-owned pods of a Deployment
func alphabetFilter(n int) []pod {
	var a []pod
	for _, l := range [][2]string{lab("none", ""), lab("cur", "1"), lab("cur", strconv.Itoa(n)), lab("cur", "0"), lab("cur", "abc"), lab("foreign", "1")} {
		a = append(a, mk("new", "cs", "crh", false, l, false, n))
	}
	a = append(a, mk("new", "cs", "crh", true, lab("none", ""), false, n))
	a = append(a, mk("old", "cs", "crh", false, lab("none", ""), false, n))
	a = append(a, mk("old", "cs", "crh", false, lab("cur", "1"), false, n))
	// no-need-update pods
	a = append(a, mk("new", "cs", "crh", false, lab("none", ""), true, n))
	a = append(a, mk("new", "cs", "crh", false, lab("foreign", "1"), true, n))
	a = append(a, mk("new", "cs", "crh", false, lab("cur", "1"), true, n))
	a = append(a, mk("old", "cs", "crh", false, lab("none", ""), true, n))
	return dedup(a)
}

// full alphabet (thorough): revision/owner/hash kinds x terminating x label values x (no-need-update)
func alphabetFull(n int, filter bool) []pod {
	kinds := [][3]string{{"new", "cs", "crh"}, {"old", "cs", "crh"}, {"new", "cs", "pth"}, {"unknown", "cs", "none"}}
	if !filter {
		kinds = append(kinds, [3]string{"new", "rs", "none"}, [3]string{"old", "rs", "none"}, [3]string{"new", "rs", "crh"})
	}
	labels := [][2]string{lab("none", ""), lab("none", "1"), lab("cur", ""), lab("cur", "0"), lab("cur", strconv.Itoa(n+1)), lab("cur", "-1"), lab("cur", "abc"),
		lab("cur", "99999999999999999999"), lab("cur", "1.0"),
		lab("foreign", ""), lab("foreign", "1"), lab("foreign", "0"), lab("foreign", "abc"), lab("foreign", strconv.Itoa(n+1))}
	for i := 1; i <= n; i++ {
		labels = append(labels, lab("cur", strconv.Itoa(i)))
	}
	nn := []bool{false}
	if filter {
		nn = []bool{false, true}
	}
	var a []pod
	for _, k := range kinds {
		for _, t := range []bool{false, true} {
			for _, l := range labels {
				for _, u := range nn {
					a = append(a, mk(k[0], k[1], k[2], t, l, u, n))
				}
			}
		}
	}
	return dedup(a)
}

func dedup(a []pod) []pod {
	seen := map[string]bool{}
	var out []pod
	for _, p := range a {
		if !seen[p.key()] {
			seen[p.key()] = true
			out = append(out, p)
		}
	}
	return out
}

// every multiset of exactly k elements of 0..m-1 (non-decreasing index sequences)
func multisets(m, k int, f func(idx []int)) {
	idx := make([]int, k)
	var rec func(pos, from int)
	rec = func(pos, from int) {
		if pos == k {
			f(idx)
			return
		}
		for i := from; i < m; i++ {
			idx[pos] = i
			rec(pos+1, i)
		}
	}
	rec(0, 0)
}

// --------------------------------------------------------------------------------------------------

func configsQuick() []config {
	return []config{
		{[]step{I(2)}, 5}, {[]step{P(50)}, 5}, {[]step{P(100)}, 2},
		{[]step{I(1), I(3)}, 5}, {[]step{I(1), I(3)}, 2}, {[]step{P(20), P(100)}, 5}, {[]step{I(2), I(1)}, 5}, {[]step{P(50), P(50)}, 3},
		{[]step{I(1), I(2), I(4)}, 5}, {[]step{P(10), P(50), P(100)}, 5}, {[]step{I(1), P(50), P(100)}, 4},
	}
}

func configsThoroughExtra() []config {
	return []config{
		{[]step{I(0)}, 3}, {[]step{P(1)}, 1}, {[]step{I(7)}, 3},
		{[]step{P(50), P(100)}, 0}, {[]step{P(34), P(67)}, 3}, {[]step{I(3), I(3)}, 4}, {[]step{P(100), P(0)}, 2},
		{[]step{I(1), I(2), I(4)}, 3}, {[]step{I(1), I(1), I(2)}, 2}, {[]step{P(33), P(66), P(100)}, 3}, {[]step{I(3), I(1), I(2)}, 6}, {[]step{P(1), P(2), P(3)}, 10},
	}
}

type runner struct {
	w *fnlib.Writer
}

func (r *runner) run(cfg config, cur int, filter string, pods []pod) bool {
	n := len(cfg.plan)
	nnu := 0
	for _, p := range pods {
		if p.Nnu {
			nnu++
		}
	}
	if filter == "unordered" && nnu > cfg.R {
		return false // more no-need-update pods than replicas: not a context the controller builds
	}
	br := &v1beta1.BatchRelease{ObjectMeta: metav1.ObjectMeta{Namespace: ns, Name: "br"},
		Spec: v1beta1.BatchReleaseSpec{ReleasePlan: v1beta1.ReleasePlan{Batches: batches(cfg.plan)}}}
	planned := control.CalculateBatchReplicas(br, cfg.R, cur)
	desired := planned
	if filter == "unordered" && nnu > 0 { // cloneset control.go CalculateBatchContext, rollback scene
		desired = nnu + control.CalculateBatchReplicas(br, cfg.R-nnu, cur)
	}
	ci := &caseIn{plan: cfg.plan, R: cfg.R, cur: cur, filter: filter, planned: planned, desired: desired, nnu: nnu, pods: append([]pod{}, pods...)}
	kinds := map[string]bool{}
	for _, p := range pods {
		if eligible(p) && p.Rid == "cur" && (p.Bk == "zero" || p.Bk == "neg" || p.Bk == "high") {
			kinds[p.Bk] = true
		}
	}
	var ks []string
	for k := range kinds {
		ks = append(ks, k)
	}
	sort.Strings(ks)
	in := map[string]interface{}{"n": n, "plan": ci.plan, "R": ci.R, "cur": cur, "filter": filter, "planned": planned, "desired": desired,
		"nnu": nnu, "npods": len(pods), "pods": ci.pods, "oorAny": len(ks) > 0, "oor": strings.Join(ks, "+")}
	r.w.Run(in, func() (interface{}, error) {
		s, err := mainStore.build(ci.pods)
		if err != nil {
			panic("harness: " + err.Error())
		}
		err1 := pass(s, ci) // a panic of the real code propagates to w.Run
		pods1, perr := project(s, len(ci.pods))
		if perr != nil {
			panic("harness: " + perr.Error())
		}
		err2, panic2 := safePass(s, ci)
		pods2, perr := project(s, len(ci.pods))
		if perr != nil {
			panic("harness: " + perr.Error())
		}
		// the same pass on the pod set whose stale label values are wiped
		clean1, errC, panicC := pods1, "", ""
		if cp := cleaned(ci.pods); !samePods(cp, ci.pods) {
			cc := *ci
			cc.pods = cp
			sc, err := cleanStore.build(cp)
			if err != nil {
				panic("harness: " + err.Error())
			}
			errC, panicC = safePass(sc, &cc)
			if clean1, perr = project(sc, len(cp)); perr != nil {
				panic("harness: " + perr.Error())
			}
		}
		return map[string]interface{}{"pods1": pods1, "pods2": pods2, "err2": err2, "panic2": panic2,
			"clean1": clean1, "errC": errC, "panicC": panicC}, err1
	})
	return true
}

func pick(a []pod, idx []int) []pod {
	out := make([]pod, len(idx))
	for i, j := range idx {
		out[i] = a[j]
	}
	return out
}

func hasNnu(pods []pod) bool {
	for _, p := range pods {
		if p.Nnu {
			return true
		}
	}
	return false
}

// isOor: the shape on which the unchanged patcher indexes its per-batch slice out of range — a live
// new-revision pod of the current release whose batch-id label is numeric but outside 1..n.
func isOor(p pod) bool {
	return eligible(p) && p.Rid == "cur" && (p.Bk == "zero" || p.Bk == "neg" || p.Bk == "high")
}

func split(a []pod) (plain, oor []pod) {
	for _, p := range a {
		if isOor(p) {
			oor = append(oor, p)
		} else {
			plain = append(plain, p)
		}
	}
	return
}

func anyOor(pods []pod) bool {
	for _, p := range pods {
		if isOor(p) {
			return true
		}
	}
	return false
}

// configurations on which the out-of-range shape is combined with other pods (one per plan length)
func oorConfig(cfg config) bool {
	switch len(cfg.plan) {
	case 1:
		return cfg.R == 5 && cfg.plan[0] == I(2)
	case 2:
		return cfg.R == 5 && cfg.plan[0] == I(1) && cfg.plan[1] == I(3)
	}
	return cfg.R == 5 && cfg.plan[0] == P(10) && cfg.plan[1] == P(50) && cfg.plan[2] == P(100)
}

func main() {
	fl := fnlib.ParseFlags()
	w, err := fnlib.NewWriter(fl)
	if err != nil {
		panic(err)
	}
	sim.InitProcess()
	klog.SetLogger(logr.Discard()) // the patcher logs every pod; formatting dominates otherwise
	debug.SetGCPercent(400)
	initHashes()
	r := &runner{w: w}
	thorough := fl.Tier == "thorough"
	cfgs := configsQuick()
	if thorough {
		cfgs = append(cfgs, configsThoroughExtra()...)
	}
	sort.SliceStable(cfgs, func(i, j int) bool { return len(cfgs[i].plan) < len(cfgs[j].plan) })
	maxPods := 3
	counts := map[string]int{}
	rng := rand.New(rand.NewSource(fl.Seed))

	// part O (first, smallest first): pod sets that contain the out-of-range shape. While the patcher
	// crashes on it every such case is a violation, so the shape is combined with other pods on a bounded
	// sub-domain only: alone on every configuration; with one / two more pods of the restricted alphabet
	// on one configuration per plan length (two more: n = 2 only); thorough: with one more pod of the full
	// alphabet (n = 2) and in seeded 3-4 pod samples. Parts A-C never contain the shape.
	for k := 1; k <= maxPods; k++ {
		for _, cfg := range cfgs {
			n := len(cfg.plan)
			for cur := 0; cur < n; cur++ {
				if !(k == 1 || (oorConfig(cfg) && cur == n-1 && (k == 2 || n == 2))) {
					continue
				}
				aq := alphabetQuick(n)
				multisets(len(aq), k, func(idx []int) {
					if ps := pick(aq, idx); anyOor(ps) && r.run(cfg, cur, "none", ps) {
						counts["O.none"]++
					}
				})
				if k > 2 {
					continue
				}
				af := alphabetFilter(n)
				multisets(len(af), k, func(idx []int) {
					if ps := pick(af, idx); anyOor(ps) && (hasNnu(ps) || k == 1) && r.run(cfg, cur, "unordered", ps) {
						counts["O.filter"]++
					}
				})
			}
		}
	}
	if thorough {
		cfg, cur := config{[]step{I(1), I(3)}, 5}, 1
		for _, filter := range []string{"none", "unordered"} {
			a := alphabetFull(2, filter == "unordered")
			multisets(len(a), 2, func(idx []int) {
				if ps := pick(a, idx); anyOor(ps) && r.run(cfg, cur, filter, ps) {
					counts["O.full2"]++
				}
			})
		}
		for i := 0; i < 1500; i++ {
			cfg := cfgs[rng.Intn(len(cfgs))]
			n := len(cfg.plan)
			a := alphabetFullCached(n, false)
			_, oor := split(a)
			ps := []pod{oor[rng.Intn(len(oor))]}
			for k := 2 + rng.Intn(2); k > 0; k-- {
				ps = append(ps, a[rng.Intn(len(a))])
			}
			sort.Slice(ps, func(i, j int) bool { return ps[i].key() < ps[j].key() })
			if r.run(cfg, rng.Intn(n), "none", ps) {
				counts["O.sampled"]++
			}
		}
	}

	// part A: every multiset of <= 3 pods over the restricted alphabet, smallest pod sets first
	for k := 0; k <= maxPods; k++ {
		for _, cfg := range cfgs {
			n := len(cfg.plan)
			aq, _ := split(alphabetQuick(n))
			af, _ := split(alphabetFilter(n))
			for cur := 0; cur < n; cur++ {
				multisets(len(aq), k, func(idx []int) {
					if r.run(cfg, cur, "none", pick(aq, idx)) {
						counts["A.none"]++
					}
				})
				multisets(len(af), k, func(idx []int) {
					ps := pick(af, idx)
					if (hasNnu(ps) || k == 0) && r.run(cfg, cur, "unordered", ps) {
						counts["A.filter"]++
					}
				})
			}
		}
	}
	exhaustive := true
	if thorough {
		// part B: every multiset of <= 2 pods over the full alphabet, on one configuration per plan length
		partB := []struct {
			cfg  config
			curs []int
		}{
			{config{[]step{I(2)}, 5}, []int{0}},
			{config{[]step{I(1), I(3)}, 5}, []int{1}},
			{config{[]step{P(10), P(50), P(100)}, 5}, []int{1, 2}},
		}
		for k := 1; k <= 2; k++ {
			for _, pb := range partB {
				n := len(pb.cfg.plan)
				for ci, cur := range pb.curs {
					for _, filter := range []string{"none", "unordered"} {
						if filter == "unordered" && ci > 0 {
							continue
						}
						a, _ := split(alphabetFullCached(n, filter == "unordered"))
						multisets(len(a), k, func(idx []int) {
							if r.run(pb.cfg, cur, filter, pick(a, idx)) {
								counts["B."+filter]++
							}
						})
					}
				}
			}
		}
		// part C: seeded samples of 3- and 4-pod multisets over the full alphabet
		exhaustive = false
		for i := 0; i < 120000; i++ {
			cfg := cfgs[rng.Intn(len(cfgs))]
			n := len(cfg.plan)
			cur := rng.Intn(n)
			filter := "none"
			if rng.Intn(4) == 0 {
				filter = "unordered"
			}
			a, _ := split(alphabetFullCached(n, filter == "unordered"))
			var el []int
			for j, p := range a {
				if eligible(p) && p.Own == "cs" && p.Hash == "crh" {
					el = append(el, j)
				}
			}
			k := 3 + rng.Intn(2)
			idx := make([]int, k)
			for j := range idx {
				// half of the pods are live new-revision CloneSet pods so that the batch budgets are contended
				if rng.Intn(2) == 0 {
					idx[j] = rng.Intn(len(a))
				} else {
					idx[j] = el[rng.Intn(len(el))]
				}
			}
			sort.Ints(idx)
			if r.run(cfg, cur, filter, pick(a, idx)) {
				counts["C.sampled"]++
			}
		}
	}
	extra := map[string]interface{}{"parts": counts, "configs": len(cfgs), "max_pods_exhaustive": maxPods, "hash_new": hashNew, "hash_old": hashOld}
	w.Close(exhaustive, extra)
}

var fullCache = map[string][]pod{}

func alphabetFullCached(n int, filter bool) []pod {
	k := fmt.Sprintf("%d/%v", n, filter)
	if a, ok := fullCache[k]; ok {
		return a
	}
	a := alphabetFull(n, filter)
	fullCache[k] = a
	return a
}
