package sim

import (
	"context"
	"encoding/json"
	"fmt"

	jsonpatch "github.com/evanphx/json-patch"
	"github.com/openkruise/rollouts/pkg/util"
	wlmutating "github.com/openkruise/rollouts/pkg/webhook/workload/mutating"
	admissionv1 "k8s.io/api/admission/v1"
	metav1 "k8s.io/apimachinery/pkg/apis/meta/v1"
	"k8s.io/apimachinery/pkg/runtime"
	"k8s.io/apimachinery/pkg/runtime/schema"
	"sigs.k8s.io/controller-runtime/pkg/client"
	"sigs.k8s.io/controller-runtime/pkg/webhook/admission"
)

// Admit passes a user update of a workload through the real mutating handlers and returns the
// admitted object's JSON (patches applied). unified selects the StatefulSet-like handler.
func Admit(c client.Client, scheme *runtime.Scheme, gvk schema.GroupVersionKind, resource string, oldObj, newObj client.Object, unified bool) ([]byte, error) {
	dec, err := admission.NewDecoder(scheme)
	if err != nil {
		return nil, err
	}
	oldObj.GetObjectKind().SetGroupVersionKind(gvk)
	newObj.GetObjectKind().SetGroupVersionKind(gvk)
	oldRaw, _ := json.Marshal(oldObj)
	newRaw, _ := json.Marshal(newObj)
	dry := false
	req := admission.Request{AdmissionRequest: admissionv1.AdmissionRequest{
		UID:       "verif",
		Kind:      metav1.GroupVersionKind{Group: gvk.Group, Version: gvk.Version, Kind: gvk.Kind},
		Resource:  metav1.GroupVersionResource{Group: gvk.Group, Version: gvk.Version, Resource: resource},
		Name:      newObj.GetName(),
		Namespace: newObj.GetNamespace(),
		Operation: admissionv1.Update,
		Object:    runtime.RawExtension{Raw: newRaw},
		OldObject: runtime.RawExtension{Raw: oldRaw},
		DryRun:    &dry,
	}}
	var resp admission.Response
	if unified {
		h := &wlmutating.UnifiedWorkloadHandler{Client: c, Decoder: dec, Finder: util.NewControllerFinder(c)}
		resp = h.Handle(context.TODO(), req)
	} else {
		h := &wlmutating.WorkloadHandler{Client: c, Decoder: dec, Finder: util.NewControllerFinder(c)}
		resp = h.Handle(context.TODO(), req)
	}
	if !resp.Allowed {
		msg := ""
		if resp.Result != nil {
			msg = resp.Result.Message
		}
		return nil, fmt.Errorf("admission denied: %s", msg)
	}
	out := newRaw
	if len(resp.Patches) > 0 {
		pb, _ := json.Marshal(resp.Patches)
		p, err := jsonpatch.DecodePatch(pb)
		if err != nil {
			return nil, err
		}
		out, err = p.Apply(newRaw)
		if err != nil {
			return nil, err
		}
	}
	return out, nil
}
