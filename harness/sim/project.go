package sim

import (
	"encoding/json"
	"hash/crc32"
	"fmt"
	"reflect"
	"sort"
	"strings"
	"time"

	"github.com/openkruise/rollouts/api/v1alpha1"
	"github.com/openkruise/rollouts/api/v1beta1"
	"github.com/openkruise/rollouts/pkg/util"
	"github.com/openkruise/rollouts/pkg/util/grace"
	corev1 "k8s.io/api/core/v1"
	netv1 "k8s.io/api/networking/v1"
	"k8s.io/apimachinery/pkg/util/intstr"
	"k8s.io/apimachinery/pkg/util/rand"
	"sigs.k8s.io/controller-runtime/pkg/controller/controllerutil"
	gatewayv1beta1 "sigs.k8s.io/gateway-api/apis/v1beta1"
)

func jsonUnmarshal(b []byte, v interface{}) error { return json.Unmarshal(b, v) }

func fresh(t time.Time) bool { return time.Since(t) < time.Duration(BigGrace)*time.Second }

func pctOf(s string) int {
	v := 0
	fmt.Sscanf(s, "%d%%", &v)
	return v
}

// projectPlan turns API steps into abstract steps: rep (int replicas or -1), pct (percent or -1),
// traffic (weight or -1), match ("" | kind), pause (-1 manual, 0 none, 1 timed).
func projectPlan(steps []v1beta1.CanaryStep) []map[string]interface{} {
	out := []map[string]interface{}{}
	for _, st := range steps {
		rep, pct := -1, -1
		is100 := false
		if st.Replicas != nil {
			if st.Replicas.Type == intstr.Int {
				rep = int(st.Replicas.IntVal)
			} else {
				pct = pctOf(st.Replicas.StrVal)
				is100 = st.Replicas.StrVal == "100%"
			}
		}
		tr := -1
		if st.Traffic != nil {
			tr = pctOf(*st.Traffic)
		}
		match := ""
		if len(st.Matches) > 0 {
			m := st.Matches[0]
			switch {
			case m.Path != nil:
				match = "path"
			case len(m.Headers) > 0:
				match = "header"
				if len(st.Matches) > 1 {
					match = "header2"
				}
				if m.Headers[0].Name == "canary-by-cookie" {
					match = "cookie"
				}
			case len(m.QueryParams) > 0:
				match = "query"
			}
		}
		pause := -1
		if st.Pause.Duration != nil {
			pause = 1
			if *st.Pause.Duration == 0 {
				pause = 0
			}
		}
		out = append(out, map[string]interface{}{"rep": rep, "pct": pct, "traffic": tr, "match": match, "pause": pause, "is100": is100})
	}
	return out
}

func condReason(conds []v1beta1.RolloutCondition, t v1beta1.RolloutConditionType) (string, string, bool) {
	for _, c := range conds {
		if c.Type == t {
			return c.Reason, string(c.Status), fresh(c.LastUpdateTime.Time)
		}
	}
	return "", "", false
}

// Project computes the abstract state the TLA+ specification talks about. It is the only place
// where Kubernetes objects become abstract state; every field cites the object field it is taken from.
func (w *World) Project() map[string]interface{} {
	if w.Peer == nil {
		return w.projectOne()
	}
	out := map[string]interface{}{"pair": true}
	for i, x := range []*World{w, w.Peer} {
		m := x.projectOne()
		used := map[string]interface{}{}
		for k, v := range x.Ghost.Used {
			used[k] = v
		}
		m["used"] = used
		out[string("ab"[i])] = m
	}
	return out
}

func (w *World) projectOne() map[string]interface{} {
	out := map[string]interface{}{}
	ro := w.getRollout()
	steps := []v1beta1.CanaryStep{}
	user := map[string]interface{}{"rev": w.Ghost.Rev, "rolledBack": w.Ghost.RolledBack}
	rom := map[string]interface{}{"exists": ro != nil}
	if ro != nil {
		steps = ro.Spec.Strategy.GetSteps()
		user["paused"] = ro.Spec.Strategy.Paused                  // Rollout.spec.strategy.paused
		user["disabled"] = ro.Spec.Disabled                       // Rollout.spec.disabled
		user["deleted"] = !ro.DeletionTimestamp.IsZero()          // Rollout.metadata.deletionTimestamp
		rom["deleting"] = !ro.DeletionTimestamp.IsZero()
		rom["finalizer"] = controllerutil.ContainsFinalizer(ro, util.KruiseRolloutFinalizer)
		rom["phase"] = string(ro.Status.Phase)                    // Rollout.status.phase
		rom["bg"] = ro.Spec.Strategy.BlueGreen != nil             // the strategy in the spec is blueGreen
		reason, _, cfresh := condReason(ro.Status.Conditions, v1beta1.RolloutConditionProgressing)
		rom["reason"] = reason                                    // Progressing condition reason
		rom["condFresh"] = cfresh
		treason, _, _ := condReason(ro.Status.Conditions, v1beta1.RolloutConditionTerminating)
		rom["treason"] = treason
		rom["thrKind"], rom["thrVal"] = "none", 0
		var thr *intstr.IntOrString
		if ro.Spec.Strategy.Canary != nil {
			thr = ro.Spec.Strategy.Canary.FailureThreshold
		} else if ro.Spec.Strategy.BlueGreen != nil {
			thr = ro.Spec.Strategy.BlueGreen.FailureThreshold
		}
		if thr != nil {
			if thr.Type == intstr.Int {
				rom["thrKind"], rom["thrVal"] = "int", int(thr.IntVal)
			} else {
				rom["thrKind"], rom["thrVal"] = "pct", pctOf(thr.StrVal)
			}
		}
		_, succ, _ := condReason(ro.Status.Conditions, v1beta1.RolloutConditionSucceeded)
		rom["succeeded"] = succ
		sub := ro.Status.GetSubStatus()
		rom["hasSub"] = sub != nil
		// aux: digest of the status fields nothing else projects (messages, mirrored counters); they decide
		// whether a reconcile writes the status at all and thereby whether it re-enqueues itself
		aux := ro.Status.Message
		if ro.Status.CanaryStatus != nil {
			aux += fmt.Sprintf("|%s|%d|%d", ro.Status.CanaryStatus.Message, ro.Status.CanaryStatus.CanaryReplicas, ro.Status.CanaryStatus.CanaryReadyReplicas)
		}
		if ro.Status.BlueGreenStatus != nil {
			aux += fmt.Sprintf("|%s|%d|%d", ro.Status.BlueGreenStatus.Message, ro.Status.BlueGreenStatus.UpdatedReplicas, ro.Status.BlueGreenStatus.UpdatedReadyReplicas)
		}
		for _, c := range ro.Status.Conditions {
			aux += "|" + string(c.Type) + "=" + c.Message
		}
		rom["aux"] = ""
		if w.Cfg.Queue {
			rom["aux"] = fmt.Sprintf("%08x", crc32.ChecksumIEEE([]byte(aux)))
		}
		if sub != nil {
			rom["step"] = int(sub.CurrentStepIndex)
			rom["state"] = string(sub.CurrentStepState)
			rom["next"] = int(sub.NextStepIndex)
			rom["fstep"] = string(sub.FinalisingStep)
			// status.rolloutHash equals the hash of the plan currently in the spec (the annotation may lag behind the spec)
			rom["hashOk"] = sub.RolloutHash != "" && sub.RolloutHash == planHash(ro)
			rom["hashSet"] = sub.RolloutHash != ""
			rom["canaryRev"] = RevOf(canaryRevisionOf(ro))
			rom["stableRev"] = RevOf(sub.StableRevision)
			rom["podHash"] = RevOf(sub.PodTemplateHash)
			rom["fresh"] = sub.LastUpdateTime != nil && fresh(sub.LastUpdateTime.Time)
			rom["rid"] = sub.ObservedRolloutID
		} else {
			rom["step"], rom["state"], rom["next"], rom["fstep"] = 0, "", 0, ""
			rom["hashOk"], rom["hashSet"], rom["canaryRev"], rom["stableRev"], rom["podHash"], rom["fresh"], rom["rid"] = false, false, 0, 0, 0, false, ""
		}
	} else {
		user["paused"], user["disabled"], user["deleted"] = false, false, true
		for _, f := range []string{"deleting", "finalizer", "condFresh", "hasSub", "hashOk", "hashSet", "fresh", "bg"} {
			rom[f] = false
		}
		for _, f := range []string{"phase", "reason", "treason", "succeeded", "state", "fstep", "rid", "aux"} {
			rom[f] = ""
		}
		for _, f := range []string{"step", "next", "canaryRev", "stableRev", "podHash", "thrVal"} {
			rom[f] = 0
		}
		rom["thrKind"] = "none"
	}
	out["user"] = user
	out["ro"] = rom
	out["plan"] = projectPlan(steps)
	wlm := w.WL.Project(w)
	brm := w.projectBR(ro)
	// labelled: live pods carrying the rollout-id the BatchRelease labels with (its spec.releasePlan.rolloutID)
	if brm["exists"] == true && wlm["exists"] == true {
		if lf, ok := w.WL.(interface{ LabelledFor(*World, string) int }); ok {
			wlm["labelled"] = lf.LabelledFor(w, brm["rid"].(string))
		}
	}
	if w.Cfg.Kind == "Deployment" {
		// a Deployment's derived rollout-id is the pod-template-hash of its template: name it like the other kinds ("v2")
		norm := func(m map[string]interface{}, f string) {
			if x, ok := m[f].(string); ok && x != "" {
				if r := RevOf(x); r > 0 && !strings.HasPrefix(x, "v") {
					m[f] = fmt.Sprintf("v%d", r)
				}
			}
		}
		norm(rom, "rid")
		norm(brm, "rid")
		norm(brm, "obsRid")
	}
	out["wl"] = wlm
	out["br"] = brm
	out["net"] = w.projectNet()
	out["tr"] = w.projectTR()
	out["mem"] = w.projectMem()
	origOk, _ := w.UserOwnedEqual()
	rs := append([]int{}, w.Ghost.ReadySteps...)
	out["ghost"] = map[string]interface{}{"readySteps": rs, "created": w.Ghost.Created, "origOk": origOk, "brEver": w.Ghost.BrEver, "jumpBack": w.Ghost.JumpBack, "lateChange": w.Ghost.LateChange, "disSup": w.Ghost.DisSup, "supBack": w.Ghost.SupBack, "midSwitch": w.Ghost.MidSwitch, "readyRepl": w.Ghost.ReadyRepl}
	out["quiet"] = w.WL.Quiescent(w) && !w.gcPending()
	// wake-up state of the two work queues; stuck: nothing will ever run again without a user action
	stuck := !w.Q.RoPending && !w.Q.BrPending && !w.Q.RoTimer && !w.Q.BrTimer && w.WL.Quiescent(w) && !w.gcPending() && !w.tickUseful()
	if w.Cfg.Queue {
		out["q"] = map[string]interface{}{"on": true, "roP": w.Q.RoPending, "brP": w.Q.BrPending, "roT": w.Q.RoTimer, "brT": w.Q.BrTimer, "stuck": stuck}
	} else {
		out["q"] = map[string]interface{}{"on": false, "roP": false, "brP": false, "roT": false, "brT": false, "stuck": false}
	}
	return out
}

func (w *World) projectBR(ro *v1beta1.Rollout) map[string]interface{} {
	br := &v1beta1.BatchRelease{}
	m := map[string]interface{}{}
	if !w.S.Load(w.NS, RolloutName, br) {
		m["exists"] = false
		for _, f := range []string{"deleting", "finalizer", "planOk", "hashOk", "obsGenOk", "rollbackAnno"} {
			m[f] = false
		}
		for _, f := range []string{"phase", "bstate", "policy", "rid", "obsRid"} {
			m[f] = ""
		}
		m["plan"] = []map[string]interface{}{}
		m["thrKind"], m["thrVal"] = "none", 0
		for _, f := range []string{"batch", "obsR", "updRev", "stableRev", "nbatches", "stUpd", "stUpdRdy"} {
			m[f] = 0
		}
		m["partition"], m["noNeed"] = -1, -1
		return m
	}
	m["exists"] = true
	m["deleting"] = !br.DeletionTimestamp.IsZero()
	m["finalizer"] = controllerutil.ContainsFinalizer(br, "rollouts.kruise.io/batch-release-finalizer")
	part := -1
	if br.Spec.ReleasePlan.BatchPartition != nil {
		part = int(*br.Spec.ReleasePlan.BatchPartition) // BatchRelease.spec.releasePlan.batchPartition
	}
	m["partition"] = part
	planOk := false
	if ro != nil {
		steps := ro.Spec.Strategy.GetSteps()
		planOk = len(steps) == len(br.Spec.ReleasePlan.Batches)
		for i := range steps {
			if planOk && (steps[i].Replicas == nil || !reflect.DeepEqual(*steps[i].Replicas, br.Spec.ReleasePlan.Batches[i].CanaryReplicas)) {
				planOk = false
			}
		}
	}
	m["planOk"] = planOk // spec.releasePlan.batches == Rollout steps' replicas
	bsteps := []v1beta1.CanaryStep{}
	for i := range br.Spec.ReleasePlan.Batches {
		r := br.Spec.ReleasePlan.Batches[i].CanaryReplicas
		bsteps = append(bsteps, v1beta1.CanaryStep{Replicas: &r})
	}
	m["plan"] = projectPlan(bsteps) // spec.releasePlan.batches[*].canaryReplicas
	m["thrKind"], m["thrVal"] = "none", 0
	if t := br.Spec.ReleasePlan.FailureThreshold; t != nil {
		if t.Type == intstr.Int {
			m["thrKind"], m["thrVal"] = "int", int(t.IntVal)
		} else {
			m["thrKind"], m["thrVal"] = "pct", pctOf(t.StrVal)
		}
	}
	m["nbatches"] = len(br.Spec.ReleasePlan.Batches)
	m["rid"] = br.Spec.ReleasePlan.RolloutID
	m["obsRid"] = br.Status.ObservedRolloutID
	m["policy"] = string(br.Spec.ReleasePlan.FinalizingPolicy)
	m["obsGenOk"] = br.Status.ObservedGeneration == br.Generation
	m["hashOk"] = br.Status.ObservedReleasePlanHash == util.HashReleasePlanBatches(&br.Spec.ReleasePlan)
	m["phase"] = string(br.Status.Phase)
	m["batch"] = int(br.Status.CanaryStatus.CurrentBatch)
	m["bstate"] = string(br.Status.CanaryStatus.CurrentBatchState)
	m["obsR"] = int(br.Status.ObservedWorkloadReplicas)
	m["stUpd"] = int(br.Status.CanaryStatus.UpdatedReplicas)         // status.canaryStatus.updatedReplicas (refreshStatus)
	m["stUpdRdy"] = int(br.Status.CanaryStatus.UpdatedReadyReplicas) // status.canaryStatus.updatedReadyReplicas
	m["updRev"] = RevOf(br.Status.UpdateRevision)
	m["stableRev"] = RevOf(br.Status.StableRevision)
	nn := -1
	if br.Status.CanaryStatus.NoNeedUpdateReplicas != nil {
		nn = int(*br.Status.CanaryStatus.NoNeedUpdateReplicas)
	}
	m["noNeed"] = nn
	m["rollbackAnno"] = br.Annotations[v1alpha1.RollbackInBatchAnnotation] != ""
	return m
}

// projectNet describes the traffic objects: stable Service pin, canary Service, and what the gateway
// objects configure ("share"): ingress = canary-Ingress annotations, gateway = HTTPRoute backendRefs.
func (w *World) projectNet() map[string]interface{} {
	m := map[string]interface{}{
		"hasSvc": false, "stableSel": 0, "canarySvc": false, "canarySel": 0, "canaryOwned": false,
		"ing": false, "ingWeight": -1, "ingMatch": "", "ingBackendOk": true, "ingPaths": 0,
		"route": false, "rtStableW": -1, "rtCanaryW": -1, "rtGenRules": 0, "rtRules": 0, "rtOtherOk": true, "rtMatch": "",
	}
	m["provIngress"] = w.ingressClass() != ""
	m["provGateway"] = w.hasProvider("gateway")
	m["noCanarySvc"] = w.Cfg.NoCanarySvc
	m["grace0"] = w.Cfg.Grace0 // trafficRoutings[].gracePeriodSeconds = 0
	svc := &corev1.Service{}
	if w.S.Load(w.NS, SvcName, svc) {
		m["hasSvc"] = true
		m["stableSel"] = RevOf(svc.Spec.Selector["pod-template-hash"] + svc.Spec.Selector["controller-revision-hash"]) // Service.spec.selector[revision key]
		m["svcSelKeys"] = len(svc.Spec.Selector)
	} else {
		m["svcSelKeys"] = 0
	}
	csvc := &corev1.Service{}
	if w.S.Load(w.NS, SvcName+"-canary", csvc) {
		m["canarySvc"] = true
		m["canarySel"] = RevOf(csvc.Spec.Selector["pod-template-hash"] + csvc.Spec.Selector["controller-revision-hash"])
		m["canaryOwned"] = len(csvc.OwnerReferences) > 0
	}
	ing := &netv1.Ingress{}
	if w.S.Load(w.NS, SvcName+"-canary", ing) && ing.DeletionTimestamp.IsZero() {
		m["ing"] = true
		wt, match := ingressShare(ing.Annotations)
		m["ingWeight"], m["ingMatch"] = wt, match
		paths := 0
		ok := true
		for _, r := range ing.Spec.Rules {
			if r.HTTP == nil {
				continue
			}
			for _, p := range r.HTTP.Paths {
				paths++
				want := SvcName + "-canary"
				if w.Cfg.TRRef || w.Cfg.NoCanarySvc { // no canary Service is generated: the canary backend is the stable Service
					want = SvcName
				}
				if p.Backend.Service == nil || p.Backend.Service.Name != want {
					ok = false
				}
			}
		}
		m["ingPaths"], m["ingBackendOk"] = paths, ok
	}
	route := &gatewayv1beta1.HTTPRoute{}
	if w.S.Load(w.NS, SvcName, route) {
		m["route"] = true
		m["rtRules"] = len(route.Spec.Rules)
		gen := 0
		for _, r := range route.Spec.Rules {
			var stable, canary *gatewayv1beta1.HTTPBackendRef
			for i := range r.BackendRefs {
				switch string(r.BackendRefs[i].Name) {
				case SvcName:
					stable = &r.BackendRefs[i]
				case SvcName + "-canary":
					canary = &r.BackendRefs[i]
				}
			}
			switch {
			case stable != nil && canary != nil:
				m["rtStableW"], m["rtCanaryW"] = int(*stable.Weight), int(*canary.Weight)
			case stable != nil:
				if m["rtStableW"] == -1 {
					m["rtStableW"] = int(*stable.Weight)
				}
			case canary != nil:
				gen++
				// what the generated canary rule matches on (the step's match kind)
				if len(r.Matches) > 0 {
					f := r.Matches[0]
					switch {
					case len(f.QueryParams) > 0:
						m["rtMatch"] = "query"
					case len(f.Headers) > 0 && string(f.Headers[0].Name) == "canary-by-cookie":
						m["rtMatch"] = "cookie"
					case len(f.Headers) > 0 && len(r.Matches) >= 2:
						m["rtMatch"] = "header2"
					case len(f.Headers) > 0:
						m["rtMatch"] = "header"
					case f.Path != nil && f.Path.Value != nil && *f.Path.Value == "/canary":
						m["rtMatch"] = "path"
					}
				}
			}
		}
		m["rtGenRules"] = gen
	}
	return m
}

// ingressShare reads the canary share a canary Ingress configures, for every built-in class.
func ingressShare(a map[string]string) (int, string) {
	weight := -1
	for _, k := range []string{"nginx.ingress.kubernetes.io/canary-weight", "alb.ingress.kubernetes.io/canary-weight", "higress.ingress.kubernetes.io/canary-weight", "mse.ingress.kubernetes.io/canary-weight"} {
		if v, ok := a[k]; ok {
			fmt.Sscanf(v, "%d", &weight)
		}
	}
	match := ""
	keys := make([]string, 0, len(a))
	for k := range a {
		keys = append(keys, k)
	}
	sort.Strings(keys)
	for _, k := range keys {
		switch {
		case strings.HasSuffix(k, "/canary-by-cookie"):
			match = "cookie"
		case strings.HasSuffix(k, "/canary-by-header"):
			if match == "" {
				match = "header"
			}
		case strings.HasSuffix(k, "/canary-by-query"):
			match = "query"
		}
	}
	return weight, match
}

// projectTR: the stand-alone TrafficRouting object (scenarios with trRef)
func (w *World) projectTR() map[string]interface{} {
	out := map[string]interface{}{"used": w.Cfg.TRRef, "exists": false, "phase": "", "finalizer": false, "prog": 0, "deleting": false, "obsOk": false}
	tr := &v1alpha1.TrafficRouting{}
	if !w.Cfg.TRRef || !w.S.Load(w.NS, TRName, tr) {
		return out
	}
	out["exists"] = true
	out["phase"] = string(tr.Status.Phase)                                           // TrafficRouting.status.phase
	out["finalizer"] = controllerutil.ContainsFinalizer(tr, util.TrafficRoutingFinalizer) // the controller's own finalizer
	n := 0
	for _, f := range tr.Finalizers {
		if strings.Contains(f, v1alpha1.ProgressingRolloutFinalizerPrefix) {
			n++
		}
	}
	out["prog"] = n // finalizers of Rollouts that are progressing with this TrafficRouting
	out["deleting"] = !tr.DeletionTimestamp.IsZero()
	out["obsOk"] = tr.Status.ObservedGeneration == tr.Generation
	return out
}

func (w *World) projectMem() map[string]interface{} {
	g := grace.DumpForVerif()
	gf, gold := []string{}, []string{}
	for k, m := range g {
		// with a second scenario in the cluster, entries under the OTHER scenario's keys are not this one's;
		// entries under keys neither scenario owns are shown to both (a keying defect then shows as a difference)
		if w.foreignKey(k) {
			continue
		}
		for a, t := range m {
			if fresh(t) {
				gf = append(gf, a)
			} else {
				gold = append(gold, a)
			}
		}
	}
	sort.Strings(gf)
	sort.Strings(gold)
	// gf: grace expectations still inside their grace period, gold: expired ones not yet observed
	return map[string]interface{}{"gf": gf, "gold": gold}
}

// userOwned is the configuration the user owns and a finished rollout must hand back (C05).
func (w *World) userOwned() map[string]interface{} {
	m := map[string]interface{}{}
	svc := &corev1.Service{}
	if w.S.Load(w.NS, SvcName, svc) {
		m["svcSelector"] = svc.Spec.Selector
	}
	ing := &netv1.Ingress{}
	if w.S.Load(w.NS, SvcName, ing) {
		m["ingress"] = map[string]interface{}{"spec": ing.Spec, "annotations": ing.Annotations}
	}
	route := &gatewayv1beta1.HTTPRoute{}
	if w.S.Load(w.NS, SvcName, route) {
		m["route"] = route.Spec
	}
	return m
}

// UserOwnedEqual compares the user-owned configuration with the one captured before the release.
func (w *World) UserOwnedEqual() (bool, string) {
	cur, _ := json.Marshal(w.userOwned())
	orig, _ := json.Marshal(w.Ghost.Orig)
	if string(cur) == string(orig) {
		return true, ""
	}
	return false, fmt.Sprintf("now %s, originally %s", cur, orig)
}

// planHash replicates RolloutReconciler.calculateRolloutHash (unexported): the hash of the strategy
// with failureThreshold and the steps' pauses cleared.
func planHash(ro *v1beta1.Rollout) string {
	var data string
	if ro.Spec.Strategy.BlueGreen != nil {
		bg := ro.Spec.Strategy.BlueGreen.DeepCopy()
		bg.FailureThreshold = nil
		bg.Steps = nil
		for i := range ro.Spec.Strategy.BlueGreen.Steps {
			st := ro.Spec.Strategy.BlueGreen.Steps[i].DeepCopy()
			st.Pause = v1beta1.RolloutPause{}
			bg.Steps = append(bg.Steps, *st)
		}
		data = util.DumpJSON(bg)
	} else if ro.Spec.Strategy.Canary != nil {
		c := ro.Spec.Strategy.Canary.DeepCopy()
		c.FailureThreshold = nil
		c.Steps = nil
		for i := range ro.Spec.Strategy.Canary.Steps {
			st := ro.Spec.Strategy.Canary.Steps[i].DeepCopy()
			st.Pause = v1beta1.RolloutPause{}
			c.Steps = append(c.Steps, *st)
		}
		data = util.DumpJSON(c)
	}
	return rand.SafeEncodeString(util.EncodeHash(data))
}
