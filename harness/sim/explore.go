package sim

import (
	"bufio"
	"crypto/sha256"
	"encoding/hex"
	"encoding/json"
	"fmt"
	"os"
	"sort"
	"strings"
	"time"
)

// Explorer performs explicit-state exploration of the REAL system: every enabled action is taken
// from every distinct abstract state (breadth first), optionally with one injected fault, and every
// real transition is logged for the TLA+ trace specification.
//
// Output (ndjson):
//   <out>.states : {"id":n, "s":<abstract state>}              one line per distinct abstract state
//   <out>.trans  : {"pre":id, "act":a, "post":id, "mids":[ids], "base":b, "fault":f, ...}
// Mid-states (the abstract state after each effective API write of the action) are interned in the
// same state table, so the C04/C06 invariants are evaluated at every crash point.
type Explorer struct {
	Cfg       Config
	MaxStates int
	FaultMode string // "" | "crash" | "all"
	Depth     int    // 0 = unbounded

	w        *World
	ids      map[string]int
	states   []string // canonical JSON per id (1-based: states[id-1])
	snaps    map[int]*WorldSnapshot
	parent   map[int][2]interface{} // id -> (parent id, action)
	depth    map[int]int
	queue    []int
	st       *bufio.Writer
	tr       *bufio.Writer
	node     map[int]bool // ids that are (or were) exploration nodes, as opposed to mid-states only
	succ     map[int]map[string]int // id -> action -> post id (first expansion)
	pendingAudit map[int]*WorldSnapshot
	AuditRate int // audit every n-th duplicate hit (0 = never)
	dupHits   int
	NAudits   int
	NAlias    int
	AliasSamples []string
	NTrans   int
	NPanics  int
	ActCount map[string]int
	Truncated bool
}

func canon(v interface{}) string {
	b, _ := json.Marshal(v) // maps are emitted with sorted keys
	return string(b)
}

func (e *Explorer) intern(abs map[string]interface{}) (int, bool) {
	c := canon(abs)
	h := sha256.Sum256([]byte(c))
	k := hex.EncodeToString(h[:16])
	if id, ok := e.ids[k]; ok {
		return id, false
	}
	id := len(e.states) + 1
	e.ids[k] = id
	e.states = append(e.states, c)
	fmt.Fprintf(e.st, "{\"id\":%d,\"s\":%s}\n", id, c)
	return id, true
}

// stateKey: the abstract projection plus the budgets (they gate which disturbances remain).
func (e *Explorer) keyState(w *World) map[string]interface{} {
	abs := w.Project()
	used := map[string]interface{}{}
	for k, v := range w.Ghost.Used {
		used[k] = v
	}
	abs["used"] = used
	return abs
}

type transRec struct {
	Pre     int      `json:"pre"`
	Act     string   `json:"act"`
	Base    string   `json:"base"`
	Fault   string   `json:"fault"`
	Comp    string   `json:"comp,omitempty"`  // pair scenarios: "a" | "b" (the scenario the action belongs to), "" cluster-wide
	CBase   string   `json:"cbase,omitempty"` // pair scenarios: base without the scenario prefix
	Post    int      `json:"post"`
	Mids    []int    `json:"mids"`
	Panic   string   `json:"panic"`
	Err     bool     `json:"err"`
	Crashed bool     `json:"crashed"`
	Requeue bool     `json:"requeue"`
	Writes  []string `json:"writes"`
}

func compactWrites(ws []Write) []string {
	out := []string{}
	for _, w := range ws {
		if !w.Effective {
			continue
		}
		s := w.Verb + " " + w.Kind
		if w.Sub != "" {
			s += "/" + w.Sub
		}
		out = append(out, s)
	}
	return out
}

// Run explores and returns the process exit code (0 ok, 2 infrastructure failure).
func (e *Explorer) Run(outPrefix string) error {
	stf, err := os.Create(outPrefix + ".states")
	if err != nil {
		return err
	}
	defer stf.Close()
	trf, err := os.Create(outPrefix + ".trans")
	if err != nil {
		return err
	}
	defer trf.Close()
	e.st = bufio.NewWriterSize(stf, 1<<20)
	e.tr = bufio.NewWriterSize(trf, 1<<20)
	defer e.st.Flush()
	defer e.tr.Flush()
	e.ids = map[string]int{}
	e.snaps = map[int]*WorldSnapshot{}
	e.parent = map[int][2]interface{}{}
	e.depth = map[int]int{}
	e.ActCount = map[string]int{}
	e.succ = map[int]map[string]int{}
	e.node = map[int]bool{}
	e.pendingAudit = map[int]*WorldSnapshot{}

	w, err := NewWorld(e.Cfg)
	if err != nil {
		return err
	}
	e.w = w
	id0, _ := e.intern(e.keyState(w))
	e.snaps[id0] = w.Snapshot()
	e.node[id0] = true
	e.queue = []int{id0}
	// VERIF_ORDER: bfs (default) | dfs (deep, narrow: reaches the late phases within a small state budget) |
	// mixed (alternating). The order only matters for truncated explorations.
	order := os.Getenv("VERIF_ORDER")
	for n := 0; len(e.queue) > 0; n++ {
		var id int
		if order == "dfs" || (order == "mixed" && n%2 == 1) {
			id = e.queue[len(e.queue)-1]
			e.queue = e.queue[:len(e.queue)-1]
		} else {
			id = e.queue[0]
			e.queue = e.queue[1:]
		}
		snap := e.snaps[id]
		delete(e.snaps, id) // expanded once
		if e.Depth > 0 && e.depth[id] >= e.Depth {
			continue
		}
		w.Restore(snap)
		enabled := w.Enabled()
		for _, a := range enabled {
			res := e.step(id, snap, a)
			if a == "ro" || a == "br" || a == "tr" {
				e.faults(id, snap, a, res)
			}
		}
		if au, ok := e.pendingAudit[id]; ok {
			delete(e.pendingAudit, id)
			e.audit(id, au)
		}
		if len(e.states) >= e.MaxStates {
			e.Truncated = true
			break
		}
	}
	return nil
}

func (e *Explorer) faultBudgetLeft(snap *WorldSnapshot) bool {
	lim := e.Cfg.Budget["fault"]
	return snap.Ghost.Used["fault"] < lim
}

func (e *Explorer) faults(id int, snap *WorldSnapshot, a string, full Result) {
	if e.FaultMode == "" || !e.faultBudgetLeft(snap) {
		return
	}
	for k := 1; k <= full.EffWrites; k++ {
		e.step(id, snap, fmt.Sprintf("%s!crash:%d", a, k))
	}
	if e.FaultMode == "all" {
		for j := 1; j <= full.Calls; j++ {
			e.step(id, snap, fmt.Sprintf("%s!err:%d", a, j))
		}
		for j := 1; j <= full.WriteCalls; j++ {
			e.step(id, snap, fmt.Sprintf("%s!errafter:%d", a, j))
			e.step(id, snap, fmt.Sprintf("%s!conflict:%d", a, j))
		}
	}
}

func (e *Explorer) step(id int, snap *WorldSnapshot, a string) Result {
	w := e.w
	w.Restore(snap)
	if strings.Contains(a, "!") {
		w.Ghost.Used["fault"]++
	}
	res := w.Do(a, true)
	if strings.Contains(a, "!") && !res.FaultFired {
		return res // the fault point was not reached (e.g. the call index does not exist on this path)
	}
	post := e.keyState(w)
	pid, _ := e.intern(post)
	isNew := !e.node[pid]
	mids := []int{}
	for _, m := range res.Mids {
		m["used"] = post["used"]
		mid, _ := e.intern(m)
		mids = append(mids, mid)
	}
	base, fault := a, ""
	if i := strings.Index(a, "!"); i >= 0 {
		base, fault = a[:i], a[i+1:]
	}
	rec := transRec{Pre: id, Act: a, Base: base, Fault: fault, Comp: compOf(base), CBase: cbaseOf(base), Post: pid, Mids: mids, Panic: res.Panic, Err: res.Err != "", Crashed: res.Crashed, Requeue: res.Requeue, Writes: compactWrites(res.Writes)}
	b, _ := json.Marshal(rec)
	e.tr.Write(b)
	e.tr.WriteByte('\n')
	e.NTrans++
	e.ActCount[base]++
	if res.Panic != "" {
		e.NPanics++
	}
	if fault == "" {
		if e.succ[id] == nil {
			e.succ[id] = map[string]int{}
		}
		if _, seen := e.succ[id][a]; !seen {
			e.succ[id][a] = pid
		}
	}
	if !isNew && e.AuditRate > 0 && fault == "" {
		e.dupHits++
		if e.dupHits%e.AuditRate == 0 {
			if _, queued := e.snaps[pid]; queued {
				if _, have := e.pendingAudit[pid]; !have {
					e.pendingAudit[pid] = w.Snapshot()
				}
			} else if e.succ[pid] != nil {
				e.audit(pid, w.Snapshot())
				w.Restore(snap)
			}
		}
	}
	if isNew {
		e.node[pid] = true
		e.snaps[pid] = w.Snapshot()
		e.parent[pid] = [2]interface{}{id, a}
		e.depth[pid] = e.depth[id] + 1
		e.queue = append(e.queue, pid)
	}
	return res
}

// audit re-expands a concrete state that was de-duplicated onto abstract state id and checks that
// every action leads to the same abstract successor as the first expansion did. A difference means
// the projection hides behaviour-relevant state (aliasing): it is counted, reported, and the
// differing successor is explored as well so no behaviour is lost.
func (e *Explorer) audit(id int, snap *WorldSnapshot) {
	e.NAudits++
	w := e.w
	w.Restore(snap)
	for _, a := range w.Enabled() {
		want, ok := e.succ[id][a]
		if !ok {
			continue
		}
		w.Restore(snap)
		w.Do(a, false)
		post := e.keyState(w)
		pid, _ := e.intern(post)
		isNew := !e.node[pid]
		if pid != want {
			e.NAlias++
			if len(e.AliasSamples) < 5 {
				e.AliasSamples = append(e.AliasSamples, fmt.Sprintf("state %d action %s: first expansion -> %d, other concrete state -> %d", id, a, want, pid))
			}
			if isNew {
				e.node[pid] = true
				e.snaps[pid] = w.Snapshot()
				e.parent[pid] = [2]interface{}{id, a}
				e.depth[pid] = e.depth[id] + 1
				e.queue = append(e.queue, pid)
			}
		}
	}
}

// PathTo returns the action path from the initial state to state id.
func (e *Explorer) PathTo(id int) []string {
	var path []string
	for {
		p, ok := e.parent[id]
		if !ok {
			break
		}
		path = append([]string{p[1].(string)}, path...)
		id = p[0].(int)
	}
	return path
}

// RunExplore is the CLI entry: explore cfg and write <out>.states/.trans/.meta.
func RunExplore(cfg Config, out string, maxStates int, depth int) int {
	t0 := time.Now()
	e := &Explorer{Cfg: cfg, MaxStates: maxStates, FaultMode: os.Getenv("VERIF_FAULTS"), AuditRate: 7, Depth: depth}
	if v := os.Getenv("VERIF_AUDIT_RATE"); v != "" {
		fmt.Sscanf(v, "%d", &e.AuditRate)
	}
	if err := e.Run(out); err != nil {
		fmt.Println("EXPLORE-ERROR", err)
		return 2
	}
	e.st.Flush()
	e.tr.Flush()
	// parents table for replay paths
	pf, _ := os.Create(out + ".parents")
	pw := bufio.NewWriter(pf)
	ids := make([]int, 0, len(e.parent))
	for id := range e.parent {
		ids = append(ids, id)
	}
	sort.Ints(ids)
	for _, id := range ids {
		p := e.parent[id]
		fmt.Fprintf(pw, "{\"id\":%d,\"parent\":%d,\"act\":%q}\n", id, p[0].(int), p[1].(string))
	}
	pw.Flush()
	pf.Close()
	meta := map[string]interface{}{
		"cfg": cfg.Name, "states": len(e.states), "transitions": e.NTrans, "panics": e.NPanics,
		"truncated": e.Truncated, "audits": e.NAudits, "aliasing": e.NAlias, "aliasSamples": e.AliasSamples, "actions": e.ActCount, "wall_s": time.Since(t0).Seconds(),
	}
	mb, _ := json.Marshal(meta)
	os.WriteFile(out+".meta", mb, 0644)
	fmt.Println("EXPLORE-DONE", string(mb))
	return 0
}

// RunReplayJSON re-executes an action path on a fresh world and prints {"post": <abstract state>,
// "panic":…}; with out != "" the last transition is also written as <out>.states/.trans so that
// TLC can re-validate it.
func RunReplayJSON(cfg Config, path string, out string, w0 interface{ Write([]byte) (int, error) }) int {
	w, err := NewWorld(cfg)
	if err != nil {
		fmt.Fprintln(w0, "ERR", err)
		return 2
	}
	e := &Explorer{Cfg: cfg}
	e.w = w
	acts := splitPath(path)
	var pre map[string]interface{}
	var last Result
	for i, a := range acts {
		if strings.Contains(a, "!") {
			w.Ghost.Used["fault"]++
		}
		if i == len(acts)-1 {
			pre = e.keyState(w)
		}
		last = w.Do(a, i == len(acts)-1)
	}
	post := e.keyState(w)
	res := map[string]interface{}{"post": post, "panic": last.Panic, "err": last.Err, "crashed": last.Crashed}
	if out != "" && pre != nil {
		stf, _ := os.Create(out + ".states")
		trf, _ := os.Create(out + ".trans")
		id := 1
		emit := func(s map[string]interface{}) int {
			fmt.Fprintf(stf, "{\"id\":%d,\"s\":%s}\n", id, canon(s))
			id++
			return id - 1
		}
		pid := emit(pre)
		mids := []int{}
		for _, m := range last.Mids {
			m["used"] = post["used"]
			mids = append(mids, emit(m))
		}
		qid := emit(post)
		a := acts[len(acts)-1]
		base, fault := a, ""
		if i := strings.Index(a, "!"); i >= 0 {
			base, fault = a[:i], a[i+1:]
		}
		rec := transRec{Pre: pid, Act: a, Base: base, Fault: fault, Comp: compOf(base), CBase: cbaseOf(base), Post: qid, Mids: mids, Panic: last.Panic, Err: last.Err != "", Crashed: last.Crashed, Requeue: last.Requeue, Writes: compactWrites(last.Writes)}
		b, _ := json.Marshal(rec)
		trf.Write(b)
		trf.Write([]byte("\n"))
		stf.Close()
		trf.Close()
	}
	b, _ := json.Marshal(res)
	w0.Write(b)
	w0.Write([]byte("\n"))
	return 0
}

// RunInit prints the abstract initial state and the model parameters of cfg as one JSON line; the
// exhaustive TLC run of the closed-loop model (MC_Rollouts.tla) starts from exactly this state.
func RunInit(cfg Config, out interface{ Write([]byte) (int, error) }) int {
	w, err := NewWorld(cfg)
	if err != nil {
		fmt.Fprintln(out, "ERR", err)
		return 2
	}
	e := &Explorer{Cfg: cfg}
	e.w = w
	st := e.keyState(w)
	delete(st, "used")
	acts := cfg.Actions
	if acts == nil {
		acts = []string{}
	}
	bud := map[string]int{}
	for _, a := range []string{"user.release2", "user.release3", "user.rollback", "user.scale", "user.approve", "user.pause", "user.resume",
		"user.disable", "user.enable", "user.delete", "user.editplan", "user.jump", "user.editidle", "user.deleteidle", "user.release3late", "user.trdelete", "user.switchstyle", "env.unready", "total"} {
		if v, ok := cfg.Budget[a]; ok {
			bud[a] = v
		} else if a == "total" {
			bud[a] = 99
		} else {
			bud[a] = 1
		}
	}
	plan2 := projectPlan(BuildSteps(cfg.Steps2))
	b, _ := json.Marshal(map[string]interface{}{"s": st, "actions": acts, "budget": bud, "scaleTo": cfg.ScaleTo, "plan2": plan2})
	out.Write(b)
	out.Write([]byte("\n"))
	return 0
}

func compOf(base string) string {
	if strings.HasPrefix(base, "a:") || strings.HasPrefix(base, "b:") {
		return base[:1]
	}
	return ""
}

func cbaseOf(base string) string {
	if compOf(base) != "" {
		return base[2:]
	}
	return ""
}
