package sim

import (
	"context"
	"fmt"
	"sort"

	"github.com/openkruise/rollouts/pkg/util"
	apps "k8s.io/api/apps/v1"
	autoscalingv2 "k8s.io/api/autoscaling/v2"
	corev1 "k8s.io/api/core/v1"
	metav1 "k8s.io/apimachinery/pkg/apis/meta/v1"
	"k8s.io/apimachinery/pkg/util/intstr"
	utilpointer "k8s.io/utils/pointer"
)

// depEnv simulates the native Kubernetes Deployment + ReplicaSet controllers for every Deployment of
// the scenario: the user's ("stable") Deployment `demo` and, in canary style, the canary Deployments
// the BatchRelease controller creates from it. Trusted, mirrored in RolloutsModel.tla (Dep*).
//
//   - env.observe : one Deployment whose status lags its spec is observed (observedGeneration, and
//     when it is not paused the ReplicaSet for its current template is created with 0 replicas)
//   - env.update  : ONE scaling step of one Deployment (see stepDeployment): scale the new ReplicaSet
//     up by one pod within maxSurge, or an old one down by one pod within maxUnavailable (rolling
//     update), or adjust the active ReplicaSet towards spec.replicas while paused
//   - env.ready   : one unready pod becomes ready
//
// availability follows minReadySeconds: a ready pod counts as available only if the minReadySeconds of
// its Deployment (and ReplicaSet) is 0 — blue-green sets it to "never".
type depEnv struct{ style string }

const depHashPrefix = "hv"

func depHash(rev int) string { return fmt.Sprintf("%s%d", depHashPrefix, rev) }

func depTemplate(rev int) corev1.PodTemplateSpec { return podTemplate(rev) }

func init() {
	// the controllers identify revisions of Deployments by util.ComputeHash of the pod template
	for r := 1; r <= 3; r++ {
		t := depTemplate(r)
		hashRev[util.ComputeHash(&t, nil)] = r
	}
}

func (e *depEnv) deployments(w *World) []*apps.Deployment {
	var out []*apps.Deployment
	for _, k := range w.S.Keys() {
		if k.Kind == "Deployment" && k.Group == "apps" && k.Namespace == w.NS {
			d := &apps.Deployment{}
			if w.S.Load(k.Namespace, k.Name, d) {
				out = append(out, d)
			}
		}
	}
	sort.Slice(out, func(i, j int) bool { return out[i].Name < out[j].Name })
	return out
}

func (e *depEnv) stable(w *World) *apps.Deployment {
	d := &apps.Deployment{}
	if !w.S.Load(w.NS, WorkloadNm, d) {
		return nil
	}
	return d
}

func (e *depEnv) rsOf(w *World, d *apps.Deployment) []*apps.ReplicaSet {
	var out []*apps.ReplicaSet
	for _, k := range w.S.Keys() {
		if k.Kind == "ReplicaSet" && k.Namespace == w.NS {
			rs := &apps.ReplicaSet{}
			if w.S.Load(k.Namespace, k.Name, rs) && metav1.IsControlledBy(rs, d) {
				out = append(out, rs)
			}
		}
	}
	sort.Slice(out, func(i, j int) bool { return out[i].CreationTimestamp.Before(&out[j].CreationTimestamp) || (out[i].CreationTimestamp.Equal(&out[j].CreationTimestamp) && out[i].Name < out[j].Name) })
	return out
}

func (e *depEnv) podsOf(w *World, rs *apps.ReplicaSet) []*corev1.Pod {
	var out []*corev1.Pod
	for _, k := range w.S.Keys() {
		if k.Kind == "Pod" && k.Group == "" && k.Namespace == w.NS {
			p := &corev1.Pod{}
			if w.S.Load(k.Namespace, k.Name, p) && metav1.IsControlledBy(p, rs) {
				out = append(out, p)
			}
		}
	}
	sort.Slice(out, func(i, j int) bool { return out[i].Name < out[j].Name })
	return out
}

func rsRev(rs *apps.ReplicaSet) int { return imageRev(rs.Spec.Template.Spec.Containers[0].Image) }

func (e *depEnv) createRS(w *World, d *apps.Deployment, rev int, replicas int32) error {
	t := true
	tpl := *d.Spec.Template.DeepCopy()
	if tpl.Labels == nil {
		tpl.Labels = map[string]string{}
	}
	tpl.Labels["pod-template-hash"] = depHash(rev)
	sel := d.Spec.Selector.DeepCopy()
	sel.MatchLabels["pod-template-hash"] = depHash(rev)
	lbls := map[string]string{"pod-template-hash": depHash(rev)}
	for k, v := range d.Spec.Template.Labels {
		lbls[k] = v
	}
	rs := &apps.ReplicaSet{
		ObjectMeta: metav1.ObjectMeta{Namespace: w.NS, Name: fmt.Sprintf("%s-%s", d.Name, depHash(rev)), Labels: lbls,
			Annotations:     map[string]string{"deployment.kubernetes.io/revision": fmt.Sprint(len(e.rsOf(w, d)) + 1)},
			OwnerReferences: []metav1.OwnerReference{{APIVersion: "apps/v1", Kind: "Deployment", Name: d.Name, UID: d.UID, Controller: &t}}},
		Spec: apps.ReplicaSetSpec{Replicas: &replicas, Selector: sel, Template: tpl, MinReadySeconds: d.Spec.MinReadySeconds},
	}
	return w.S.Put(rs)
}

func (e *depEnv) createPod(w *World, rs *apps.ReplicaSet, ready bool) error {
	t := true
	name := fmt.Sprintf("%s-p%04d", rs.Name, w.S.uid+1)
	lbls := map[string]string{}
	for k, v := range rs.Spec.Template.Labels {
		lbls[k] = v
	}
	p := &corev1.Pod{ObjectMeta: metav1.ObjectMeta{Namespace: w.NS, Name: name, Labels: lbls,
		OwnerReferences: []metav1.OwnerReference{{APIVersion: "apps/v1", Kind: "ReplicaSet", Name: rs.Name, UID: rs.UID, Controller: &t}}},
		Spec: rs.Spec.Template.Spec}
	setPodReady(p, ready)
	return w.S.Put(p)
}

func (e *depEnv) Fixture(w *World) error {
	ms, mu := intstr.FromString("25%"), intstr.FromString("25%")
	d := &apps.Deployment{ObjectMeta: metav1.ObjectMeta{Namespace: w.NS, Name: WorkloadNm},
		Spec: apps.DeploymentSpec{Replicas: utilpointer.Int32(int32(w.Cfg.Replicas)), Selector: selectorFor(), Template: depTemplate(1),
			ProgressDeadlineSeconds: utilpointer.Int32(600),
			Strategy: apps.DeploymentStrategy{Type: apps.RollingUpdateDeploymentStrategyType, RollingUpdate: &apps.RollingUpdateDeployment{MaxSurge: &ms, MaxUnavailable: &mu}}}}
	if err := w.S.Put(d); err != nil {
		return err
	}
	d = e.stable(w)
	if err := e.createRS(w, d, 1, int32(w.Cfg.Replicas)); err != nil {
		return err
	}
	rs := e.rsOf(w, d)[0]
	for i := 0; i < w.Cfg.Replicas; i++ {
		if err := e.createPod(w, rs, true); err != nil {
			return err
		}
	}
	if w.Cfg.HPA {
		h := &autoscalingv2.HorizontalPodAutoscaler{ObjectMeta: metav1.ObjectMeta{Namespace: w.NS, Name: WorkloadNm},
			Spec: autoscalingv2.HorizontalPodAutoscalerSpec{ScaleTargetRef: autoscalingv2.CrossVersionObjectReference{APIVersion: "apps/v1", Kind: "Deployment", Name: WorkloadNm},
				MinReplicas: utilpointer.Int32(1), MaxReplicas: 10}}
		if err := w.S.Put(h); err != nil {
			return err
		}
	}
	return e.refresh(w, d, true)
}

// refresh recomputes ReplicaSet and Deployment status from the pods.
func (e *depEnv) refresh(w *World, d *apps.Deployment, observe bool) error {
	var total, updated, ready, available int32
	if observe {
		// getNewReplicaSet: the deployment controller keeps the NEW ReplicaSet's minReadySeconds equal to the
		// Deployment's (old ReplicaSets keep their own)
		for _, rs := range e.rsOf(w, d) {
			if rsRev(rs) == imageRev(d.Spec.Template.Spec.Containers[0].Image) && rs.Spec.MinReadySeconds != d.Spec.MinReadySeconds {
				rs.Spec.MinReadySeconds = d.Spec.MinReadySeconds
				if err := w.S.Put(rs); err != nil {
					return err
				}
			}
		}
	}
	for _, rs := range e.rsOf(w, d) {
		pods := e.podsOf(w, rs)
		var r, a int32
		for _, p := range pods {
			if podReady(p) {
				r++
				if rs.Spec.MinReadySeconds == 0 {
					a++
				}
			}
		}
		rs.Status.Replicas, rs.Status.ReadyReplicas, rs.Status.AvailableReplicas, rs.Status.ObservedGeneration = int32(len(pods)), r, a, rs.Generation
		rs.Status.FullyLabeledReplicas = int32(len(pods))
		if err := w.S.PutStatus(rs); err != nil {
			return err
		}
		total += int32(len(pods))
		ready += r
		available += a
		if rsRev(rs) == imageRev(d.Spec.Template.Spec.Containers[0].Image) {
			updated += int32(len(pods))
		}
	}
	d.Status.Replicas, d.Status.UpdatedReplicas, d.Status.ReadyReplicas, d.Status.AvailableReplicas = total, updated, ready, available
	d.Status.UnavailableReplicas = 0
	if total > available {
		d.Status.UnavailableReplicas = total - available
	}
	if observe {
		d.Status.ObservedGeneration = d.Generation
	}
	return w.S.PutStatus(d)
}

func resolveFence(d *apps.Deployment) (int, int) {
	R := int(*d.Spec.Replicas)
	surge, unav := 0, 0
	if ru := d.Spec.Strategy.RollingUpdate; ru != nil {
		if ru.MaxSurge != nil {
			surge, _ = intstr.GetScaledValueFromIntOrPercent(ru.MaxSurge, R, true)
		}
		if ru.MaxUnavailable != nil {
			unav, _ = intstr.GetScaledValueFromIntOrPercent(ru.MaxUnavailable, R, false)
		}
	}
	if surge == 0 && unav == 0 {
		unav = 1
	}
	if unav > R {
		unav = R
	}
	return surge, unav
}

type depPlan struct {
	kind string // "" nothing to do | "createRS" | "up" | "down"
	rs   *apps.ReplicaSet
	rev  int
}

// stepDeployment decides the single next scaling step the native controllers would take for d.
func (e *depEnv) stepDeployment(w *World, d *apps.Deployment) depPlan {
	if !d.DeletionTimestamp.IsZero() {
		return depPlan{}
	}
	rss := e.rsOf(w, d)
	R := int(*d.Spec.Replicas)
	cur := imageRev(d.Spec.Template.Spec.Containers[0].Image)
	var newRS *apps.ReplicaSet
	total := 0
	for _, rs := range rss {
		if rsRev(rs) == cur {
			newRS = rs
		}
		total += int(*rs.Spec.Replicas)
	}
	if d.Spec.Paused || d.Spec.Strategy.Type == apps.RecreateDeploymentStrategyType {
		// scaling only: the active (largest, newest) ReplicaSet follows spec.replicas
		var active *apps.ReplicaSet
		for _, rs := range rss {
			if *rs.Spec.Replicas > 0 && (active == nil || *rs.Spec.Replicas >= *active.Spec.Replicas) {
				active = rs
			}
		}
		if active == nil && len(rss) > 0 {
			active = rss[len(rss)-1]
		}
		if active == nil {
			return depPlan{}
		}
		if total < R {
			return depPlan{kind: "up", rs: active}
		}
		if total > R {
			return depPlan{kind: "down", rs: active}
		}
		return depPlan{}
	}
	if newRS == nil {
		return depPlan{kind: "createRS", rev: cur}
	}
	surge, unav := resolveFence(d)
	if int(*newRS.Spec.Replicas) < R && total < R+surge {
		return depPlan{kind: "up", rs: newRS}
	}
	if int(*newRS.Spec.Replicas) > R {
		return depPlan{kind: "down", rs: newRS}
	}
	// old ReplicaSets: first unready pods (cleanupUnhealthyReplicas), then within the availability budget
	minAvail := R - unav
	avail, newUnavail := 0, int(*newRS.Spec.Replicas)
	for _, rs := range rss {
		for _, p := range e.podsOf(w, rs) {
			if podReady(p) && rs.Spec.MinReadySeconds == 0 {
				avail++
				if rs.Name == newRS.Name {
					newUnavail--
				}
			}
		}
	}
	maxScaledDown := total - minAvail - newUnavail
	for _, rs := range rss {
		if rs.Name == newRS.Name || *rs.Spec.Replicas == 0 {
			continue
		}
		unhealthy := 0
		for _, p := range e.podsOf(w, rs) {
			if !(podReady(p) && rs.Spec.MinReadySeconds == 0) {
				unhealthy++
			}
		}
		if maxScaledDown > 0 && unhealthy > 0 {
			return depPlan{kind: "down", rs: rs}
		}
	}
	if avail-minAvail > 0 {
		for _, rs := range rss {
			if rs.Name != newRS.Name && *rs.Spec.Replicas > 0 {
				return depPlan{kind: "down", rs: rs}
			}
		}
	}
	return depPlan{}
}

func (e *depEnv) observedDep(d *apps.Deployment) bool { return d.Status.ObservedGeneration == d.Generation }

func (e *depEnv) EnvActions(w *World) []string {
	var out []string
	ds := e.deployments(w)
	for _, d := range ds {
		if !e.observedDep(d) {
			return []string{"env.observe"}
		}
	}
	upd, rdy := false, false
	for _, d := range ds {
		if e.stepDeployment(w, d).kind != "" {
			upd = true
		}
		for _, rs := range e.rsOf(w, d) {
			for _, p := range e.podsOf(w, rs) {
				if !podReady(p) {
					rdy = true
				}
			}
		}
	}
	if upd {
		out = append(out, "env.update")
	}
	if rdy {
		out = append(out, "env.ready")
	}
	return out
}

func (e *depEnv) EnvDo(w *World, a string) error {
	ds := e.deployments(w)
	switch a {
	case "env.observe":
		for _, d := range ds {
			if !e.observedDep(d) {
				return e.refresh(w, d, true)
			}
		}
	case "env.update":
		for _, d := range ds {
			pl := e.stepDeployment(w, d)
			switch pl.kind {
			case "":
				continue
			case "createRS":
				if err := e.createRS(w, d, pl.rev, 0); err != nil {
					return err
				}
			case "up":
				n := *pl.rs.Spec.Replicas + 1
				pl.rs.Spec.Replicas = &n
				if err := w.S.Put(pl.rs); err != nil {
					return err
				}
				rs := &apps.ReplicaSet{}
				w.S.Load(w.NS, pl.rs.Name, rs)
				if err := e.createPod(w, rs, false); err != nil {
					return err
				}
			case "down":
				n := *pl.rs.Spec.Replicas - 1
				pl.rs.Spec.Replicas = &n
				if err := w.S.Put(pl.rs); err != nil {
					return err
				}
				pods := e.podsOf(w, pl.rs)
				var victim *corev1.Pod
				for _, p := range pods { // the ReplicaSet controller deletes not-ready pods first
					if !podReady(p) {
						victim = p
						break
					}
				}
				if victim == nil && len(pods) > 0 {
					victim = pods[len(pods)-1]
				}
				if victim != nil {
					if err := w.S.Delete(context.TODO(), victim); err != nil {
						return err
					}
				}
			}
			return e.refresh(w, d, false)
		}
	case "env.ready":
		for _, d := range ds {
			for _, rs := range e.rsOf(w, d) {
				for _, p := range e.podsOf(w, rs) {
					if !podReady(p) {
						setPodReady(p, true)
						if err := w.S.PutStatus(p); err != nil {
							return err
						}
						return e.refresh(w, d, false)
					}
				}
			}
		}
	default:
		return fmt.Errorf("deployment env: unknown action %s", a)
	}
	return nil
}

func (e *depEnv) admitAndPut(w *World, old, nw *apps.Deployment) error {
	out, err := Admit(w.S, w.Scheme, apps.SchemeGroupVersion.WithKind("Deployment"), "deployments", old, nw, false)
	if err != nil {
		return err
	}
	admitted := &apps.Deployment{}
	if err := jsonUnmarshal(out, admitted); err != nil {
		return err
	}
	return w.S.Put(admitted)
}

func (e *depEnv) Release(w *World, rev int) error {
	old := e.stable(w)
	if old == nil {
		return nil
	}
	nw := old.DeepCopy()
	nw.Spec.Template = depTemplate(rev)
	return e.admitAndPut(w, old, nw)
}

func (e *depEnv) Scale(w *World, n int) error {
	old := e.stable(w)
	if old == nil {
		return nil
	}
	nw := old.DeepCopy()
	nw.Spec.Replicas = utilpointer.Int32(int32(n))
	return e.admitAndPut(w, old, nw)
}

func (e *depEnv) Quiescent(w *World) bool { return len(e.EnvActions(w)) == 0 }

func (e *depEnv) allPods(w *World) []*corev1.Pod {
	var out []*corev1.Pod
	for _, d := range e.deployments(w) {
		for _, rs := range e.rsOf(w, d) {
			out = append(out, e.podsOf(w, rs)...)
		}
	}
	return out
}

func (e *depEnv) LabelledFor(w *World, rid string) int { return labelledFor(e.allPods(w), rid) }

func podHashRev(p *corev1.Pod) int { return RevOf(p.Labels["pod-template-hash"]) }

func (e *depEnv) Project(w *World) map[string]interface{} {
	d := e.stable(w)
	if d == nil {
		return map[string]interface{}{"exists": false}
	}
	R := int(*d.Spec.Replicas)
	n, rd := [4]int{}, [4]int{}
	for _, p := range e.allPods(w) {
		r := podHashRev(p)
		if r < 1 || r > 3 {
			continue
		}
		n[r]++
		if podReady(p) {
			rd[r]++
		}
	}
	specRev := imageRev(d.Spec.Template.Spec.Containers[0].Image)
	// stable revision as the finder sees it: the oldest ReplicaSet of the stable Deployment with replicas > 0
	stableRev := 0
	for _, rs := range e.rsOf(w, d) {
		if *rs.Spec.Replicas > 0 {
			stableRev = rsRev(rs)
			break
		}
	}
	// canary Deployments (canary style)
	cdN, cdRepl, cdPods, cdReady, cdFin, cdDel, cdRev, cdObs := 0, 0, 0, 0, false, false, 0, true
	cdRS, cdRSSpec := 0, 0
	rsSpec := []int{0, 0, 0} // spec.replicas of the stable Deployment's ReplicaSets per revision
	for _, rs := range e.rsOf(w, d) {
		if r := rsRev(rs); r >= 1 && r <= 3 {
			rsSpec[r-1] += int(*rs.Spec.Replicas)
		}
	}
	rsN := len(e.rsOf(w, d))
	for _, x := range e.deployments(w) {
		if x.Name == WorkloadNm {
			continue
		}
		for _, rs := range e.rsOf(w, x) {
			cdRS++
			cdRSSpec += int(*rs.Spec.Replicas)
		}
		cdN++
		cdRepl += int(*x.Spec.Replicas)
		cdRev = imageRev(x.Spec.Template.Spec.Containers[0].Image)
		cdFin = cdFin || len(x.Finalizers) > 0
		cdDel = cdDel || !x.DeletionTimestamp.IsZero()
		cdObs = cdObs && x.Status.ObservedGeneration == x.Generation
		cdPods += int(x.Status.Replicas)
		cdReady += int(x.Status.AvailableReplicas)
	}
	surgeT, surgeV := "none", 0
	unavT, unavV := "none", 0
	if ru := d.Spec.Strategy.RollingUpdate; ru != nil {
		if ru.MaxSurge != nil {
			if ru.MaxSurge.Type == intstr.Int {
				surgeT, surgeV = "int", int(ru.MaxSurge.IntVal)
			} else {
				surgeT, surgeV = "pct", pctOf(ru.MaxSurge.StrVal)
			}
		}
		if ru.MaxUnavailable != nil {
			if ru.MaxUnavailable.Type == intstr.Int {
				unavT, unavV = "int", int(ru.MaxUnavailable.IntVal)
			} else {
				unavT, unavV = "pct", pctOf(ru.MaxUnavailable.StrVal)
			}
		}
	}
	_, inprog := d.Annotations["rollouts.kruise.io/in-progressing"]
	_, ctrl := d.Annotations["batchrelease.rollouts.kruise.io/control-info"]
	_, orig := d.Annotations["rollouts.kruise.io/original-deployment-strategy"]
	pdl := -1
	if d.Spec.ProgressDeadlineSeconds != nil {
		pdl = int(*d.Spec.ProgressDeadlineSeconds)
	}
	// what the controllers allow to run at the new revision
	asked := 0
	ktype, kval := "none", 0
	switch e.style {
	case "canary":
		ktype, kval = "canary", cdRepl
		asked = cdRepl
		if !d.Spec.Paused {
			asked = R
		}
	case "bluegreen":
		ktype, kval = surgeT, surgeV
		if d.Spec.Paused {
			asked = n[specRev]
			if specRev == stableRev {
				asked = 0
			}
		} else if orig {
			s, _ := resolveFence(d)
			asked = s
			if asked > R {
				asked = R
			}
		} else {
			asked = R
		}
	}
	hpaOk := true
	if w.Cfg.HPA {
		h := &autoscalingv2.HorizontalPodAutoscaler{}
		hpaOk = w.S.Load(w.NS, WorkloadNm, h) && h.Spec.ScaleTargetRef.Name == WorkloadNm
	}
	return map[string]interface{}{
		"exists": true, "kind": "Deployment", "style": e.style, "R": R,
		"genOk":   d.Status.ObservedGeneration == d.Generation,
		"specRev": specRev, "updRev": specRev, "stableRev": stableRev,
		"n": []int{n[1], n[2], n[3]}, "rd": []int{rd[1], rd[2], rd[3]},
		"ktype": ktype, "kval": kval, "asked": asked, "paused": d.Spec.Paused, "inprog": inprog, "ctrl": ctrl,
		"wtype":     d.Labels["rollouts.kruise.io/workload-type"] != "",
		"stUpdated": int(d.Status.UpdatedReplicas), "stUpdRdy": int(d.Status.ReadyReplicas), "stRepl": int(d.Status.Replicas),
		"stAvail": int(d.Status.AvailableReplicas),
		"rid":     d.Labels["rollouts.kruise.io/rollout-id"],
		"lab":     podLabelSummary(e.allPods(w), specRev), "labelled": 0,
		"cd": map[string]interface{}{"n": cdN, "replicas": cdRepl, "pods": cdPods, "avail": cdReady, "finalizer": cdFin, "deleting": cdDel, "rev": cdRev, "obs": cdObs, "rs": cdRS, "rsSpec": cdRSSpec},
		"rsN": rsN, "rsSpec": rsSpec,
		"strategy": string(d.Spec.Strategy.Type), "surgeT": surgeT, "surgeV": surgeV, "unavT": unavT, "unavV": unavV,
		"minReady": int(d.Spec.MinReadySeconds), "pdl": pdl, "origAnno": orig,
		"stableLabel": RevOf(d.Labels["rollouts.kruise.io/stable-revision"]), "hpaOk": hpaOk, "hpa": w.Cfg.HPA,
	}
}

// ReplicasOf: spec.replicas of the stable Deployment (0 if it does not exist)
func (e *depEnv) ReplicasOf(w *World) int {
	if d := e.stable(w); d != nil && d.Spec.Replicas != nil {
		return int(*d.Spec.Replicas)
	}
	return 0
}
