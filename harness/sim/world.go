package sim

import (
	"bytes"
	"context"
	"encoding/json"
	"fmt"
	"os"
	"regexp"
	"runtime/debug"
	"sort"
	"strconv"
	"strings"
	"time"

	kruisev1alpha1 "github.com/openkruise/kruise-api/apps/v1alpha1"
	kruisev1beta1 "github.com/openkruise/kruise-api/apps/v1beta1"
	rolloutapi "github.com/openkruise/rollouts/api"
	"github.com/openkruise/rollouts/api/v1alpha1"
	"github.com/openkruise/rollouts/api/v1beta1"
	brctrl "github.com/openkruise/rollouts/pkg/controller/batchrelease"
	roctrl "github.com/openkruise/rollouts/pkg/controller/rollout"
	trctrl "github.com/openkruise/rollouts/pkg/controller/trafficrouting"
	"github.com/openkruise/rollouts/pkg/trafficrouting"
	"github.com/openkruise/rollouts/pkg/util/grace"
	admissionregistrationv1 "k8s.io/api/admissionregistration/v1"
	corev1 "k8s.io/api/core/v1"
	netv1 "k8s.io/api/networking/v1"
	metav1 "k8s.io/apimachinery/pkg/apis/meta/v1"
	"k8s.io/apimachinery/pkg/runtime"
	"k8s.io/apimachinery/pkg/types"
	"k8s.io/apimachinery/pkg/util/intstr"
	clientgoscheme "k8s.io/client-go/kubernetes/scheme"
	"k8s.io/client-go/tools/record"
	"k8s.io/klog/v2"
	utilpointer "k8s.io/utils/pointer"
	ctrl "sigs.k8s.io/controller-runtime"
	gatewayv1beta1 "sigs.k8s.io/gateway-api/apis/v1beta1"
)

const (
	DefaultNS   = "default"
	RolloutName = "rollouts-demo"
	WorkloadNm  = "demo"
	SvcName     = "echo"
	TRName      = "tr-demo"
	// BigGrace: every grace / pause period is this long, so nothing expires by wall clock;
	// the explicit tick action ages all timestamps by TickAge (> BigGrace).
	BigGrace = 100000
	TickAge  = 200000 * time.Second
)

// StepCfg is one step of a release plan.
type StepCfg struct {
	Replicas string `json:"replicas"`          // "2" or "40%"
	Traffic  string `json:"traffic,omitempty"` // "" (none) or "20%"
	Match    string `json:"match,omitempty"`   // "" | "header" | "header2" (two headers) | "path" | "query" | "cookie"
	Pause    int    `json:"pause"`             // -1 manual approval, otherwise seconds (only 0 or BigGrace are meaningful)
}

// Config selects one scenario family and its action alphabet.
type Config struct {
	Name      string    `json:"name"`
	Kind      string    `json:"kind"`     // CloneSet | Deployment | StatefulSet | AdvStatefulSet | DaemonSet
	Style     string    `json:"style"`    // partition | canary | bluegreen
	Provider  string    `json:"provider"` // none | nginx | alb | higress | mse | gateway | istio | nginx+gateway
	Replicas  int       `json:"replicas"`
	Steps     []StepCfg `json:"steps"`
	Steps2    []StepCfg `json:"steps2,omitempty"`  // alternative plan for "user.editplan"
	ScaleTo   int       `json:"scaleTo,omitempty"` // target of "user.scale"
	RolloutID bool      `json:"rolloutID,omitempty"`
	// RolloutIDFixed: the user keeps ONE rollout-id across all releases (the label is not bumped with the revision)
	RolloutIDFixed bool           `json:"rolloutIDFixed,omitempty"`
	Threshold      string         `json:"threshold,omitempty"` // failureThreshold
	NoCanarySvc    bool           `json:"noCanarySvc,omitempty"`
	Grace0         bool           `json:"grace0,omitempty"` // trafficRoutings[].gracePeriodSeconds = 0
	TRRef          bool           `json:"trRef,omitempty"`  // use a TrafficRouting CR instead of inline trafficRoutings
	HPA            bool           `json:"hpa,omitempty"`    // a HorizontalPodAutoscaler targets the workload (blue-green disables / restores it)
	Queue          bool           `json:"queue,omitempty"`  // reconciles are enabled only when the controller's key is pending (real wake-ups)
	Actions        []string       `json:"actions"`          // user / disturbance actions enabled (env + controllers are always on)
	Budget         map[string]int `json:"budget,omitempty"` // per action-class budgets
	// Peer: a second, independent scenario (its own workload, Services and Rollout, SAME object names) in
	// namespace PeerNS of the same cluster, reconciled by the same controller instances (C19). Its actions are
	// prefixed "b:", the first scenario's "a:"; tick and env.gc are cluster-wide.
	Peer   *Config  `json:"peer,omitempty"`
	PeerNS string   `json:"peerNS,omitempty"`
	PairOf []string `json:"pairOf,omitempty"` // names of two ordinary configuration files (same directory): this one = first + peer = second
}

// World is one simulated cluster with the real controllers wired to it.
type World struct {
	Cfg    Config
	Scheme *runtime.Scheme
	S      *Store
	Ro     *roctrl.RolloutReconciler
	Br     *brctrl.BatchReleaseReconciler
	Tr     *trctrl.TrafficRoutingReconciler
	WL     WorkloadEnv
	Ghost  Ghost
	Q      Queues
	wake   *wakeHandlers
	NS     string
	Peer   *World          // second scenario sharing store, controllers and process-wide helpers
	parent *World          // set on the peer
	own    map[string]bool // keys this scenario's objects use in the process-wide grace map
}

func (w *World) top() *World {
	if w.parent != nil {
		return w.parent
	}
	return w
}

// Ghost is history the properties refer to but the cluster does not store.
type Ghost struct {
	Orig       map[string]interface{} `json:"orig"` // user-owned configuration before the release
	Used       map[string]int         `json:"used"` // budget consumption per action class
	Rev        int                    `json:"rev"`  // template revision the user last asked for
	RolledBack bool                   `json:"rolledBack"`
	Created    bool                   `json:"created"`
	// ReadySteps: step indices (1-based) whose batch the BatchRelease has reported Ready, with a
	// current spec, under the rollout's current canary revision and plan hash (reset when either changes).
	BrEver     bool   `json:"brEver"` // a BatchRelease has existed since the release (of the rollout's current canary revision) started
	BrEverRev  string `json:"brEverRev"`
	JumpBack   bool   `json:"jumpBack"`   // the user jumped to a lower step index during this release
	LateChange bool   `json:"lateChange"` // the user changed the template while the rollout was already finalising / cancelling
	MidSwitch  bool   `json:"midSwitch"`  // the user changed the reason to finalise (rollback, newer revision, delete, disable) while a finalising / reset sequence was under way
	SupBack    bool   `json:"supBack"`    // the user rolled back after a newer revision had superseded the one being released (v2 -> v3 -> back to v1)
	DisSup     bool   `json:"disSup"`     // the Rollout was disabled / deleted while a newer revision (or a rollback) than the one being released was pending, or vice versa
	ReadySteps []int  `json:"readySteps"`
	ReadyRev   string `json:"readyRev"`
	// ReadyRepl: the largest number of new-revision pods a batch the BatchRelease reported Ready called for, under the
	// rollout's current canary revision and the workload's current size (reset when either changes)
	ReadyRepl    int    `json:"readyRepl"`
	ReadyReplKey string `json:"readyReplKey"`
}

// WorkloadEnv is the simulated native controller of one workload kind/style.
type WorkloadEnv interface {
	Fixture(w *World) error
	EnvActions(w *World) []string
	EnvDo(w *World, a string) error
	Release(w *World, rev int) error // user changes the pod template to revision rev (through the real webhook)
	Scale(w *World, n int) error
	Project(w *World) map[string]interface{}
	Quiescent(w *World) bool
}

var globalScheme *runtime.Scheme

// GlobalScheme returns the scheme with every API group the controllers use.
func GlobalScheme() *runtime.Scheme {
	if globalScheme != nil {
		return globalScheme
	}
	s := runtime.NewScheme()
	must(clientgoscheme.AddToScheme(s))
	must(kruisev1alpha1.AddToScheme(s))
	must(kruisev1beta1.AddToScheme(s))
	must(rolloutapi.AddToScheme(s))
	must(gatewayv1beta1.AddToScheme(s))
	must(admissionregistrationv1.AddToScheme(s))
	globalScheme = s
	return s
}

func must(err error) {
	if err != nil {
		panic(err)
	}
}

var initDone bool

// InitProcess silences logging and sets the long grace periods (once per process).
func InitProcess() {
	if initDone {
		return
	}
	initDone = true
	klog.SetOutput(devNull{})
	klog.LogToStderr(false)
	ctrl.SetLogger(klog.NewKlogr())
	roctrl.SetGracePeriodForVerif(BigGrace)
	trctrl.SetGracePeriodForVerif(BigGrace)
	trafficrouting.SetGracePeriodForVerif(BigGrace)
	if _, err := os.Stat("lua_configuration"); err != nil {
		panic("the harness must run with cwd=/repo (lua_configuration is loaded relative to cwd at package init)")
	}
}

type devNull struct{}

func (devNull) Write(p []byte) (int, error) { return len(p), nil }

// NewWorld builds the cluster for cfg: workload at revision 1, Services / Ingress / HTTPRoute as the
// provider needs, webhook configuration, and the Rollout (created, not yet reconciled).
func NewWorld(cfg Config) (*World, error) {
	InitProcess()
	grace.ResetExpectations()
	scheme := GlobalScheme()
	w := &World{Cfg: cfg, Scheme: scheme, S: NewStore(scheme), NS: DefaultNS}
	rec := record.NewFakeRecorder(0) // unbuffered channel; Eventf would block, so use a discarding recorder
	_ = rec
	w.Ro = roctrl.NewReconcilerForVerif(w.S, scheme, discardRecorder{})
	w.Br = brctrl.NewReconcilerForVerif(w.S, scheme, discardRecorder{})
	w.Tr = trctrl.NewReconcilerForVerif(w.S, scheme, discardRecorder{})
	if err := w.populate(); err != nil {
		return nil, err
	}
	if cfg.Peer != nil {
		ns := cfg.PeerNS
		if ns == "" {
			ns = "other"
		}
		p := &World{Cfg: *cfg.Peer, Scheme: scheme, S: w.S, NS: ns, Ro: w.Ro, Br: w.Br, Tr: w.Tr, parent: w}
		if err := p.populate(); err != nil {
			return nil, err
		}
		w.Peer = p
	}
	return w, nil
}

func (w *World) populate() error {
	cfg := w.Cfg
	seen := false
	for _, ns := range knownNS {
		seen = seen || ns == w.NS
	}
	if !seen {
		knownNS = append(knownNS, w.NS)
	}
	w.Ghost = Ghost{Used: map[string]int{}, Rev: 1}
	switch cfg.Kind + "/" + cfg.Style {
	case "CloneSet/partition":
		w.WL = &cloneSetEnv{}
	case "StatefulSet/partition":
		w.WL = &partEnv{a: stsAdapter{}}
	case "AdvStatefulSet/partition":
		w.WL = &partEnv{a: astsAdapter{}}
	case "DaemonSet/partition":
		w.WL = &partEnv{a: dsAdapter{}}
	case "Deployment/canary", "Deployment/bluegreen":
		w.WL = &depEnv{style: cfg.Style}
	default:
		return fmt.Errorf("unsupported family %s/%s", cfg.Kind, cfg.Style)
	}
	w.S.BeginAction("fixture")
	if err := w.fixtureCommon(); err != nil {
		return err
	}
	if err := w.WL.Fixture(w); err != nil {
		return err
	}
	if err := w.fixtureRollout(); err != nil {
		return err
	}
	w.Ghost.Orig = w.userOwned()
	w.Ghost.Created = true
	w.Q = Queues{RoPending: true} // the Rollout was just created
	w.S.BeginAction("")
	w.own = map[string]bool{w.NS + "/" + SvcName + "-canary": true}
	for _, k := range w.S.Keys() {
		if k.Namespace == w.NS && (k.Kind == "Rollout" || (k.Kind == "Service" && k.Name == SvcName)) {
			if uid, ok := metaOf(toMap(w.S.Raw(k)))["uid"].(string); ok {
				w.own[uid] = true
			}
		}
	}
	return nil
}

type discardRecorder struct{}

func (discardRecorder) Event(object runtime.Object, eventtype, reason, message string) {}
func (discardRecorder) Eventf(object runtime.Object, eventtype, reason, messageFmt string, args ...interface{}) {
}
func (discardRecorder) AnnotatedEventf(object runtime.Object, annotations map[string]string, eventtype, reason, messageFmt string, args ...interface{}) {
}

func (w *World) hasProvider(p string) bool {
	for _, x := range strings.Split(w.Cfg.Provider, "+") {
		if x == p {
			return true
		}
	}
	return false
}

func (w *World) ingressClass() string {
	for _, x := range strings.Split(w.Cfg.Provider, "+") {
		switch x {
		case "nginx", "alb", "higress", "mse":
			return x
		}
	}
	return ""
}

func (w *World) fixtureCommon() error {
	// mutating webhook configuration (selector on the workload-type label, as installed by the chart)
	upd := admissionregistrationv1.Update
	mwc := &admissionregistrationv1.MutatingWebhookConfiguration{
		ObjectMeta: metav1.ObjectMeta{Name: "kruise-rollout-mutating-webhook-configuration"},
		Webhooks: []admissionregistrationv1.MutatingWebhook{{
			Name: "mworkload.kb.io",
			ObjectSelector: &metav1.LabelSelector{MatchExpressions: []metav1.LabelSelectorRequirement{{
				Key: "rollouts.kruise.io/workload-type", Operator: metav1.LabelSelectorOpExists}}},
			Rules: []admissionregistrationv1.RuleWithOperations{{
				Operations: []admissionregistrationv1.OperationType{upd},
				Rule:       admissionregistrationv1.Rule{APIGroups: []string{"*"}, APIVersions: []string{"*"}, Resources: []string{"*"}},
			}},
		}},
	}
	if err := w.S.Put(mwc); err != nil {
		return err
	}
	if w.Cfg.Provider == "none" || w.Cfg.Provider == "" {
		return nil
	}
	svc := &corev1.Service{
		ObjectMeta: metav1.ObjectMeta{Namespace: w.NS, Name: SvcName},
		Spec: corev1.ServiceSpec{
			Selector: map[string]string{"app": WorkloadNm},
			Ports:    []corev1.ServicePort{{Name: "http", Port: 80, TargetPort: intstr.FromInt(8080)}},
		},
	}
	if err := w.S.Put(svc); err != nil {
		return err
	}
	if cls := w.ingressClass(); cls != "" {
		pt := netv1.PathTypePrefix
		ing := &netv1.Ingress{
			ObjectMeta: metav1.ObjectMeta{Namespace: w.NS, Name: SvcName, Annotations: map[string]string{"kubernetes.io/ingress.class": cls}},
			Spec: netv1.IngressSpec{Rules: []netv1.IngressRule{
				{Host: "echo.example.com", IngressRuleValue: netv1.IngressRuleValue{HTTP: &netv1.HTTPIngressRuleValue{Paths: []netv1.HTTPIngressPath{
					{Path: "/", PathType: &pt, Backend: netv1.IngressBackend{Service: &netv1.IngressServiceBackend{Name: SvcName, Port: netv1.ServiceBackendPort{Number: 80}}}},
					{Path: "/other", PathType: &pt, Backend: netv1.IngressBackend{Service: &netv1.IngressServiceBackend{Name: "other", Port: netv1.ServiceBackendPort{Number: 80}}}},
				}}}},
			}},
		}
		if err := w.S.Put(ing); err != nil {
			return err
		}
	}
	if w.hasProvider("gateway") {
		kind := gatewayv1beta1.Kind("Service")
		port := gatewayv1beta1.PortNumber(80)
		pm := gatewayv1beta1.PathMatchPathPrefix
		route := &gatewayv1beta1.HTTPRoute{
			ObjectMeta: metav1.ObjectMeta{Namespace: w.NS, Name: SvcName},
			Spec: gatewayv1beta1.HTTPRouteSpec{Rules: []gatewayv1beta1.HTTPRouteRule{
				{
					Matches: []gatewayv1beta1.HTTPRouteMatch{{Path: &gatewayv1beta1.HTTPPathMatch{Type: &pm, Value: utilpointer.String("/")}}},
					BackendRefs: []gatewayv1beta1.HTTPBackendRef{{BackendRef: gatewayv1beta1.BackendRef{
						BackendObjectReference: gatewayv1beta1.BackendObjectReference{Kind: &kind, Name: SvcName, Port: &port}, Weight: utilpointer.Int32(1)}}},
				},
				{
					Matches: []gatewayv1beta1.HTTPRouteMatch{{Path: &gatewayv1beta1.HTTPPathMatch{Type: &pm, Value: utilpointer.String("/other")}}},
					BackendRefs: []gatewayv1beta1.HTTPBackendRef{{BackendRef: gatewayv1beta1.BackendRef{
						BackendObjectReference: gatewayv1beta1.BackendObjectReference{Kind: &kind, Name: "other", Port: &port}, Weight: utilpointer.Int32(1)}}},
				},
			}},
		}
		if err := w.S.Put(route); err != nil {
			return err
		}
	}
	return nil
}

func parseIntOrPercent(s string) intstr.IntOrString {
	if strings.HasSuffix(s, "%") {
		return intstr.FromString(s)
	}
	n, _ := strconv.Atoi(s)
	return intstr.FromInt(n)
}

// BuildSteps converts the configured plan to API steps.
func BuildSteps(steps []StepCfg) []v1beta1.CanaryStep {
	var out []v1beta1.CanaryStep
	for _, st := range steps {
		r := parseIntOrPercent(st.Replicas)
		cs := v1beta1.CanaryStep{Replicas: &r}
		if st.Traffic != "" {
			cs.Traffic = utilpointer.String(st.Traffic)
		}
		exact := gatewayv1beta1.HeaderMatchExact
		switch st.Match {
		case "header":
			cs.Matches = []v1beta1.HttpRouteMatch{{Headers: []gatewayv1beta1.HTTPHeaderMatch{{Type: &exact, Name: "user-agent", Value: "pc"}}}}
		case "header2":
			cs.Matches = []v1beta1.HttpRouteMatch{
				{Headers: []gatewayv1beta1.HTTPHeaderMatch{{Type: &exact, Name: "user-agent", Value: "pc"}}},
				{Headers: []gatewayv1beta1.HTTPHeaderMatch{{Type: &exact, Name: "x-canary", Value: "yes"}}},
			}
		case "cookie":
			cs.Matches = []v1beta1.HttpRouteMatch{{Headers: []gatewayv1beta1.HTTPHeaderMatch{{Type: &exact, Name: "canary-by-cookie", Value: "demo"}}}}
		case "path":
			pm := gatewayv1beta1.PathMatchPathPrefix
			cs.Matches = []v1beta1.HttpRouteMatch{{Path: &gatewayv1beta1.HTTPPathMatch{Type: &pm, Value: utilpointer.String("/canary")}}}
		case "query":
			qe := gatewayv1beta1.QueryParamMatchExact
			cs.Matches = []v1beta1.HttpRouteMatch{{QueryParams: []gatewayv1beta1.HTTPQueryParamMatch{{Type: &qe, Name: "canary", Value: "1"}}}}
		}
		if st.Pause >= 0 {
			cs.Pause.Duration = utilpointer.Int32(int32(st.Pause))
		}
		out = append(out, cs)
	}
	return out
}

// trafficRefs: the Rollout's inline traffic routing (none when a TrafficRouting object is used)
func (w *World) trafficRefs() []v1beta1.TrafficRoutingRef {
	if w.Cfg.TRRef {
		return nil
	}
	return w.trafficRefsInline()
}

func (w *World) trafficRefsInline() []v1beta1.TrafficRoutingRef {
	if w.Cfg.Provider == "none" || w.Cfg.Provider == "" {
		return nil
	}
	ref := v1beta1.TrafficRoutingRef{Service: SvcName, GracePeriodSeconds: BigGrace}
	if w.Cfg.Grace0 {
		ref.GracePeriodSeconds = 0 // "no need to wait" after a traffic change
	}
	if cls := w.ingressClass(); cls != "" {
		ct := cls
		if ct == "alb" {
			ct = "aliyun-alb"
		}
		ref.Ingress = &v1beta1.IngressTrafficRouting{Name: SvcName, ClassType: ct}
	}
	if w.hasProvider("gateway") {
		ref.Gateway = &v1beta1.GatewayTrafficRouting{HTTPRouteName: utilpointer.String(SvcName)}
	}
	return []v1beta1.TrafficRoutingRef{ref}
}

func (w *World) workloadRef() v1beta1.ObjectRef {
	switch w.Cfg.Kind {
	case "CloneSet":
		return v1beta1.ObjectRef{APIVersion: "apps.kruise.io/v1alpha1", Kind: "CloneSet", Name: WorkloadNm}
	case "Deployment":
		return v1beta1.ObjectRef{APIVersion: "apps/v1", Kind: "Deployment", Name: WorkloadNm}
	case "StatefulSet":
		return v1beta1.ObjectRef{APIVersion: "apps/v1", Kind: "StatefulSet", Name: WorkloadNm}
	case "AdvStatefulSet":
		return v1beta1.ObjectRef{APIVersion: "apps.kruise.io/v1beta1", Kind: "StatefulSet", Name: WorkloadNm}
	case "DaemonSet":
		return v1beta1.ObjectRef{APIVersion: "apps.kruise.io/v1alpha1", Kind: "DaemonSet", Name: WorkloadNm}
	}
	return v1beta1.ObjectRef{}
}

func (w *World) fixtureRollout() error {
	ro := &v1beta1.Rollout{
		ObjectMeta: metav1.ObjectMeta{Namespace: w.NS, Name: RolloutName},
		Spec:       v1beta1.RolloutSpec{WorkloadRef: w.workloadRef()},
	}
	var thr *intstr.IntOrString
	if w.Cfg.Threshold != "" {
		t := parseIntOrPercent(w.Cfg.Threshold)
		thr = &t
	}
	if w.Cfg.TRRef {
		// traffic is routed by a stand-alone TrafficRouting object the Rollout names in an annotation
		ro.Annotations = map[string]string{v1alpha1.TrafficRoutingAnnotation: TRName}
		w1 := int32(40)
		refs := []v1alpha1.TrafficRoutingRef{}
		for _, r := range w.trafficRefsInline() {
			x := v1alpha1.TrafficRoutingRef{Service: r.Service, GracePeriodSeconds: r.GracePeriodSeconds}
			if r.Ingress != nil {
				x.Ingress = &v1alpha1.IngressTrafficRouting{Name: r.Ingress.Name, ClassType: r.Ingress.ClassType}
			}
			if r.Gateway != nil {
				x.Gateway = &v1alpha1.GatewayTrafficRouting{HTTPRouteName: r.Gateway.HTTPRouteName}
			}
			refs = append(refs, x)
		}
		tr := &v1alpha1.TrafficRouting{ObjectMeta: metav1.ObjectMeta{Namespace: w.NS, Name: TRName},
			Spec: v1alpha1.TrafficRoutingSpec{ObjectRef: refs, Strategy: v1alpha1.TrafficRoutingStrategy{Weight: &w1}}}
		if err := w.S.Put(tr); err != nil {
			return err
		}
	}
	if w.Cfg.Style == "bluegreen" {
		ro.Spec.Strategy.BlueGreen = &v1beta1.BlueGreenStrategy{Steps: BuildSteps(w.Cfg.Steps), TrafficRoutings: w.trafficRefs(), FailureThreshold: thr,
			DisableGenerateCanaryService: w.Cfg.NoCanarySvc}
	} else {
		ro.Spec.Strategy.Canary = &v1beta1.CanaryStrategy{Steps: BuildSteps(w.Cfg.Steps), TrafficRoutings: w.trafficRefs(), FailureThreshold: thr,
			EnableExtraWorkloadForCanary: w.Cfg.Style == "canary", DisableGenerateCanaryService: w.Cfg.NoCanarySvc}
	}
	return w.S.Put(ro)
}

// ---------------------------------------------------------------------------------------------
// running actions

// Result describes what one action did.
type Result struct {
	Action     string                   `json:"action"`
	Panic      string                   `json:"panic,omitempty"`
	Crashed    bool                     `json:"crashed,omitempty"`
	Err        string                   `json:"err,omitempty"`
	Requeue    bool                     `json:"requeue,omitempty"`
	Writes     []Write                  `json:"writes,omitempty"`
	Mids       []map[string]interface{} `json:"-"`
	Calls      int                      `json:"calls"`
	WriteCalls int                      `json:"writeCalls"`
	EffWrites  int                      `json:"effWrites"`
	FaultFired bool                     `json:"faultFired,omitempty"`
}

func (w *World) roReq() ctrl.Request {
	return ctrl.Request{NamespacedName: types.NamespacedName{Namespace: w.NS, Name: RolloutName}}
}

// Do executes one action. Controller actions may carry a fault suffix: "ro!crash:2", "br!err:5",
// "ro!errafter:3", "ro!conflict:1".
func (w *World) Do(action string, captureMids bool) (res Result) {
	if w.Peer != nil {
		switch {
		case strings.HasPrefix(action, "b:"):
			res = w.Peer.Do(action[2:], captureMids)
			res.Action = action
			return res
		case strings.HasPrefix(action, "a:"):
			res = w.doOne(action[2:], captureMids)
			res.Action = action
			return res
		}
		// the cluster-wide action (tick): the peer's queue timers fire as well
		if action == "tick" {
			w.Peer.Q.RoPending, w.Peer.Q.BrPending = w.Peer.Q.RoPending || w.Peer.Q.RoTimer, w.Peer.Q.BrPending || w.Peer.Q.BrTimer
			w.Peer.Q.RoTimer, w.Peer.Q.BrTimer = false, false
		}
		res = w.doOne(action, captureMids)
		w.Peer.afterAction(action)
		return res
	}
	return w.doOne(action, captureMids)
}

func (w *World) doOne(action string, captureMids bool) (res Result) {
	res.Action = action
	base, fault := action, ""
	if i := strings.Index(action, "!"); i >= 0 {
		base, fault = action[:i], action[i+1:]
	}
	w.S.BeginAction(base)
	if fault != "" {
		parts := strings.SplitN(fault, ":", 2)
		n, _ := strconv.Atoi(parts[1])
		w.S.Fault = FaultPlan{Mode: parts[0], N: n}
	}
	if captureMids {
		w.S.OnWrite = func(s *Store) { res.Mids = append(res.Mids, w.top().Project()) }
	} else {
		w.S.OnWrite = nil
	}
	var err error
	var rr ctrl.Result
	reconciled := ""
	defer func() {
		w.S.OnWrite = nil
		rec := recover()
		// wake-up bookkeeping with the REAL event handlers
		evs := w.S.Events
		if _, crashed := rec.(CrashSentinel); crashed {
			// a restarted process re-lists everything: every key is reconciled again, timers are gone
			w.Q = Queues{RoPending: true, BrPending: true}
		} else if reconciled != "" {
			w.afterReconcile(reconciled, err, rr.Requeue, rr.RequeueAfter)
			if rec != nil { // a real panic: controller-runtime recovers and requeues the key
				w.afterReconcile(reconciled, fmt.Errorf("panic"), false, 0)
			}
		}
		if r := rec; r != nil {
			if _, ok := r.(CrashSentinel); ok {
				res.Crashed = true
				w.LoseMemory()
			} else {
				res.Panic = addrRe.ReplaceAllString(fmt.Sprintf("%v | %s", r, shortStack()), "0x?")
			}
		}
		res.Writes = w.S.Log
		res.Calls, res.WriteCalls, res.EffWrites = w.S.Calls(), w.S.WriteCalls(), w.S.EffWrites()
		res.FaultFired = w.S.FaultFired
		w.S.Fault = FaultPlan{} // the event handlers below read through the same store
		w.deliverEvents(evs)
		w.afterAction(base)
	}()
	switch {
	case base == "ro":
		reconciled = "ro"
		w.Q.RoPending = false
		rr, err = w.Ro.Reconcile(context.TODO(), w.roReq())
	case base == "br":
		reconciled = "br"
		w.Q.BrPending = false
		rr, err = w.Br.Reconcile(context.TODO(), w.roReq())
	case base == "tr":
		rr, err = w.Tr.Reconcile(context.TODO(), ctrl.Request{NamespacedName: types.NamespacedName{Namespace: w.NS, Name: TRName}})
	case base == "tick":
		w.S.AgeTimestamps(TickAge)
		grace.AgeForVerif(TickAge)
		w.Q.RoPending, w.Q.BrPending = w.Q.RoPending || w.Q.RoTimer, w.Q.BrPending || w.Q.BrTimer
		w.Q.RoTimer, w.Q.BrTimer = false, false
	case base == "env.gc":
		w.garbageCollect()
	case strings.HasPrefix(base, "env."):
		err = w.WL.EnvDo(w, base)
	case strings.HasPrefix(base, "user."):
		err = w.userDo(base)
	default:
		err = fmt.Errorf("unknown action %q", base)
	}
	if err != nil {
		res.Err = err.Error()
	}
	res.Requeue = rr.Requeue || rr.RequeueAfter > 0
	return res
}

var addrRe = regexp.MustCompile(`0x[0-9a-fA-F]+\??`)

func shortStack() string {
	lines := strings.Split(string(debug.Stack()), "\n")
	var keep []string
	for _, l := range lines {
		if strings.Contains(l, "openkruise/rollouts") {
			keep = append(keep, strings.TrimSpace(l))
		}
		if len(keep) >= 8 {
			break
		}
	}
	return strings.Join(keep, " | ")
}

// LoseMemory drops everything a controller process keeps in memory.
func (w *World) LoseMemory() {
	grace.ResetExpectations()
	resetResourceExpectations()
}

// afterAction maintains ghost history.
func (w *World) afterAction(base string) {
	br := &v1beta1.BatchRelease{}
	ro := &v1beta1.Rollout{}
	if strings.HasPrefix(base, "user.") && w.S.Load(w.NS, RolloutName, ro) && (ro.Spec.Disabled || !ro.DeletionTimestamp.IsZero()) && (w.Ghost.Rev >= 3 || w.Ghost.RolledBack) {
		w.Ghost.DisSup = true
	}
	if w.S.Load(w.NS, RolloutName, br) {
		w.Ghost.BrEver = true
	}
	if !w.S.Load(w.NS, RolloutName, ro) {
		return
	}
	// brEver: "a BatchRelease has existed since the release of the CURRENT canary revision started"
	if cr := canaryRevisionOf(ro); cr != w.Ghost.BrEverRev {
		w.Ghost.BrEverRev = cr
		w.Ghost.BrEver = w.S.Load(w.NS, RolloutName, br)
	}
	key := canaryRevisionOf(ro) + "|" + ro.Annotations["rollouts.kruise.io/hash"]
	if key != w.Ghost.ReadyRev {
		w.Ghost.ReadyRev = key
		w.Ghost.ReadySteps = nil
	}
	R := 0
	if rp, ok := w.WL.(interface{ ReplicasOf(*World) int }); ok {
		R = rp.ReplicasOf(w)
	} else if wl := w.WL.Project(w); wl["exists"] == true {
		R, _ = wl["R"].(int)
	}
	if rk := fmt.Sprintf("%s|%d", canaryRevisionOf(ro), R); rk != w.Ghost.ReadyReplKey {
		w.Ghost.ReadyReplKey = rk
		w.Ghost.ReadyRepl = 0
	}
	if w.S.Load(w.NS, RolloutName, br) {
		w.Ghost.BrEver = true
		if br.Status.CanaryStatus.CurrentBatchState == v1beta1.ReadyBatchState && br.Status.Phase == v1beta1.RolloutPhaseProgressing &&
			br.Status.ObservedGeneration == br.Generation && RevOf(br.Status.UpdateRevision) == RevOf(canaryRevisionOf(ro)) {
			if b := int(br.Status.CanaryStatus.CurrentBatch); b >= 0 && b < len(br.Spec.ReleasePlan.Batches) {
				cr := br.Spec.ReleasePlan.Batches[b].CanaryReplicas
				n, _ := intstr.GetScaledValueFromIntOrPercent(&cr, R, true)
				if n > R {
					n = R
				}
				if n < 0 {
					n = 0
				}
				if n > w.Ghost.ReadyRepl {
					w.Ghost.ReadyRepl = n
				}
			}
		}
		if br.Status.CanaryStatus.CurrentBatchState == v1beta1.ReadyBatchState && br.Status.Phase == v1beta1.RolloutPhaseProgressing &&
			br.Status.ObservedGeneration == br.Generation && RevOf(br.Status.UpdateRevision) == RevOf(canaryRevisionOf(ro)) &&
			w.projectBR(ro)["planOk"] == true {
			b := int(br.Status.CanaryStatus.CurrentBatch) + 1
			have := false
			for _, x := range w.Ghost.ReadySteps {
				if x == b {
					have = true
				}
			}
			if !have {
				w.Ghost.ReadySteps = append(w.Ghost.ReadySteps, b)
				sort.Ints(w.Ghost.ReadySteps)
			}
		}
	}
}

// garbageCollect removes objects whose controller owner no longer exists (what kube's GC does).
func (w *World) garbageCollect() {
	uids := map[string]bool{}
	for _, k := range w.S.Keys() {
		if uid, ok := metaOf(toMap(w.S.Raw(k)))["uid"].(string); ok {
			uids[uid] = true
		}
	}
	for _, k := range w.S.Keys() {
		if k.Namespace != w.NS { // each scenario's garbage is collected by its own env.gc action
			continue
		}
		md := metaOf(toMap(w.S.Raw(k)))
		refs, _ := md["ownerReferences"].([]interface{})
		for _, r := range refs {
			rm, _ := r.(map[string]interface{})
			if uid, _ := rm["uid"].(string); uid != "" && !uids[uid] {
				if fin, _ := md["finalizers"].([]interface{}); len(fin) > 0 {
					// finalizers block GC: mark deleting
					obj := w.S.Raw(k)
					m := toMap(obj)
					if _, ok := metaOf(m)["deletionTimestamp"]; !ok {
						metaOf(m)["deletionTimestamp"] = w.S.now()
						out, _ := json.Marshal(m)
						w.S.objs[k] = out
						w.S.Events = append(w.S.Events, Event{Type: "Update", Key: k, Old: obj, New: out})
					}
				} else {
					w.S.Remove(k)
				}
				break
			}
		}
	}
}

var uidRe = regexp.MustCompile(`"uid":"(uid-[0-9]+)"`)

func (w *World) gcPending() bool {
	uids := map[string]bool{}
	var owned []Key
	for k, raw := range w.S.objs {
		if k.Namespace == w.NS && bytes.Contains(raw, []byte(`"ownerReferences"`)) {
			owned = append(owned, k)
		}
		// the object's own uid is the last "uid" of its metadata that is not inside ownerReferences;
		// collecting every uid mentioned would hide dangling owners, so parse only when needed below
	}
	if len(owned) == 0 {
		return false
	}
	for _, raw := range w.S.objs {
		if !bytes.Contains(raw, []byte(`"ownerReferences"`)) {
			for _, m := range uidRe.FindAllSubmatch(raw, -1) {
				uids[string(m[1])] = true
			}
		} else if uid, ok := metaOf(toMap(raw))["uid"].(string); ok {
			uids[uid] = true
		}
	}
	sort.Slice(owned, func(i, j int) bool { return owned[i].String() < owned[j].String() })
	for _, k := range owned {
		md := metaOf(toMap(w.S.Raw(k)))
		refs, _ := md["ownerReferences"].([]interface{})
		for _, r := range refs {
			rm, _ := r.(map[string]interface{})
			if uid, _ := rm["uid"].(string); uid != "" && !uids[uid] {
				if _, del := md["deletionTimestamp"]; !del {
					return true
				}
			}
		}
	}
	return false
}

// ---------------------------------------------------------------------------------------------
// user actions

func (w *World) budgetLeft(class string) bool {
	lim, ok := w.Cfg.Budget[class]
	if !ok {
		lim = 1
	}
	return w.Ghost.Used[class] < lim
}

func (w *World) getRollout() *v1beta1.Rollout {
	ro := &v1beta1.Rollout{}
	if !w.S.Load(w.NS, RolloutName, ro) {
		return nil
	}
	return ro
}

func (w *World) userDo(a string) error {
	switch {
	case a == "user.rollback" && w.Ghost.Rev >= 3:
		w.Ghost.SupBack = true
		fallthrough
	case a == "user.rollback", a == "user.release3", a == "user.delete", a == "user.disable":
		if ro := w.getRollout(); ro != nil && ro.Status.GetSubStatus() != nil {
			if f := ro.Status.GetSubStatus().FinalisingStep; f != "" && f != v1beta1.FinalisingStepTypeEnd {
				w.Ghost.MidSwitch = true
			}
		}
	}
	return w.userDoInner(a)
}

func (w *World) userDoInner(a string) error {
	cls := a
	if i := strings.Index(a, ":"); i >= 0 {
		cls = a[:i]
	}
	w.Ghost.Used[cls]++
	if isDisturbance(cls) {
		w.Ghost.Used["total"]++
	}
	switch {
	case a == "user.release2":
		w.Ghost.Rev = 2
		return w.WL.Release(w, 2)
	case a == "user.release3late": // a further release after the previous one has completed
		w.Ghost.Rev = 3
		w.Ghost.BrEver = false // "since the release started"
		return w.WL.Release(w, 3)
	case a == "user.release3":
		w.Ghost.Rev = 3
		if ro := w.getRollout(); ro != nil {
			if reason, _, _ := condReason(ro.Status.Conditions, v1beta1.RolloutConditionProgressing); reason == "Finalising" || reason == "Cancelling" || reason == "Completed" {
				w.Ghost.LateChange = true
			}
		}
		return w.WL.Release(w, 3)
	case a == "user.rollback":
		w.Ghost.Rev = 1
		w.Ghost.RolledBack = true
		return w.WL.Release(w, 1)
	case a == "user.scale":
		return w.WL.Scale(w, w.Cfg.ScaleTo)
	case a == "user.approve":
		ro := w.getRollout()
		if ro == nil || ro.Status.GetSubStatus() == nil {
			return nil
		}
		ro.Status.GetSubStatus().CurrentStepState = v1beta1.CanaryStepStateReady
		return w.S.PutStatus(ro)
	case a == "user.pause" || a == "user.resume":
		ro := w.getRollout()
		if ro == nil {
			return nil
		}
		ro.Spec.Strategy.Paused = a == "user.pause"
		return w.S.Put(ro)
	case a == "user.disable" || a == "user.enable":
		ro := w.getRollout()
		if ro == nil {
			return nil
		}
		ro.Spec.Disabled = a == "user.disable"
		return w.S.Put(ro)
	case a == "user.switchstyle": // the strategy is switched from canary to blueGreen while nothing is being released
		ro := w.getRollout()
		if ro == nil || ro.Spec.Strategy.Canary == nil {
			return nil
		}
		c := ro.Spec.Strategy.Canary
		ro.Spec.Strategy.BlueGreen = &v1beta1.BlueGreenStrategy{Steps: c.Steps, TrafficRoutings: c.TrafficRoutings, FailureThreshold: c.FailureThreshold}
		ro.Spec.Strategy.Canary = nil
		return w.S.Put(ro)
	case a == "user.trdelete":
		tr := &v1alpha1.TrafficRouting{}
		if !w.S.Load(w.NS, TRName, tr) {
			return nil
		}
		return w.S.Delete(context.TODO(), tr)
	case a == "user.delete" || a == "user.deleteidle":
		ro := w.getRollout()
		if ro == nil {
			return nil
		}
		return w.S.Delete(context.TODO(), ro)
	case a == "user.editplan" || a == "user.editidle":
		ro := w.getRollout()
		if ro == nil {
			return nil
		}
		if ro.Spec.Strategy.BlueGreen != nil {
			ro.Spec.Strategy.BlueGreen.Steps = BuildSteps(w.Cfg.Steps2)
		} else {
			ro.Spec.Strategy.Canary.Steps = BuildSteps(w.Cfg.Steps2)
		}
		return w.S.Put(ro)
	case strings.HasPrefix(a, "user.jump:"):
		n, _ := strconv.Atoi(a[len("user.jump:"):])
		ro := w.getRollout()
		if ro == nil || ro.Status.GetSubStatus() == nil {
			return nil
		}
		if int32(n) < ro.Status.GetSubStatus().CurrentStepIndex {
			w.Ghost.JumpBack = true
		}
		ro.Status.GetSubStatus().NextStepIndex = int32(n)
		return w.S.PutStatus(ro)
	}
	return fmt.Errorf("unknown user action %s", a)
}

// CurrentSteps returns the plan currently in the Rollout spec.
func (w *World) CurrentSteps() []v1beta1.CanaryStep {
	ro := w.getRollout()
	if ro == nil {
		return nil
	}
	return ro.Spec.Strategy.GetSteps()
}

// Enabled lists the actions that can be taken in the current state.
func (w *World) Enabled() []string {
	if w.Peer == nil {
		return w.enabledOne()
	}
	var out []string
	global := map[string]bool{}
	for i, x := range []*World{w, w.Peer} {
		for _, a := range x.enabledOne() {
			if a == "tick" {
				global[a] = true
				continue
			}
			out = append(out, string("ab"[i])+":"+a)
		}
	}
	for a := range global {
		out = append(out, a)
	}
	sort.Strings(out)
	return out
}

func (w *World) enabledOne() []string {
	var out []string
	ro := w.getRollout()
	if ro != nil && (!w.Cfg.Queue || w.Q.RoPending) {
		out = append(out, "ro")
	}
	br := &v1beta1.BatchRelease{}
	if w.S.Load(w.NS, RolloutName, br) && (!w.Cfg.Queue || w.Q.BrPending) {
		out = append(out, "br")
	}
	if w.Cfg.TRRef {
		tr := &v1alpha1.TrafficRouting{}
		if w.S.Load(w.NS, TRName, tr) {
			out = append(out, "tr")
		}
	}
	out = append(out, w.WL.EnvActions(w)...)
	if w.gcPending() {
		out = append(out, "env.gc")
	}
	if w.tickUseful() {
		out = append(out, "tick")
	}
	for _, a := range w.Cfg.Actions {
		cls := a
		if i := strings.Index(a, ":"); i >= 0 {
			cls = a[:i]
		}
		if !w.budgetLeft(cls) {
			continue
		}
		if isDisturbance(cls) {
			if lim, ok := w.Cfg.Budget["total"]; ok && w.Ghost.Used["total"] >= lim {
				continue
			}
		}
		if w.userEnabled(a, ro) {
			out = append(out, a)
		}
	}
	sort.Strings(out)
	return out
}

func (w *World) userEnabled(a string, ro *v1beta1.Rollout) bool {
	if ro == nil {
		return false
	}
	sub := ro.Status.GetSubStatus()
	inProgress := ro.Status.Phase == v1beta1.RolloutPhaseProgressing
	deleting := !ro.DeletionTimestamp.IsZero()
	switch {
	case a == "user.release2":
		return w.Ghost.Rev == 1 && ro.Status.Phase == v1beta1.RolloutPhaseHealthy && !deleting
	case a == "user.release3":
		return w.Ghost.Rev == 2 && inProgress
	case a == "user.rollback":
		// a rollback in the property's sense: some pod already runs the revision being released
		// (reverting the template before any pod was updated is just another template change)
		wl := w.WL.Project(w)
		n, _ := wl["n"].([]int)
		reason, _, _ := condReason(ro.Status.Conditions, v1beta1.RolloutConditionProgressing)
		return w.Ghost.Rev >= 2 && inProgress && len(n) >= w.Ghost.Rev && n[w.Ghost.Rev-1] > 0 && n[0] > 0 &&
			(reason == "InRolling" || reason == "Paused")
	case a == "user.scale":
		return inProgress
	case a == "user.approve":
		return inProgress && sub != nil && sub.CurrentStepState == v1beta1.CanaryStepStatePaused
	case a == "user.pause":
		return inProgress && !ro.Spec.Strategy.Paused
	case a == "user.resume":
		return ro.Spec.Strategy.Paused
	case a == "user.disable":
		return !ro.Spec.Disabled && !deleting && w.Ghost.Rev >= 2
	case a == "user.enable":
		return ro.Spec.Disabled && !deleting
	case a == "user.delete":
		return !deleting && w.Ghost.Rev >= 2
	case a == "user.editplan":
		return inProgress && len(w.Cfg.Steps2) > 0
	case a == "user.trdelete":
		tr := &v1alpha1.TrafficRouting{}
		return w.S.Load(w.NS, TRName, tr) && tr.DeletionTimestamp.IsZero()
	case a == "user.release3late":
		_, succ, _ := condReason(ro.Status.Conditions, v1beta1.RolloutConditionSucceeded)
		return w.Ghost.Rev == 2 && ro.Status.Phase == v1beta1.RolloutPhaseHealthy && succ == "True" && !deleting
	case a == "user.switchstyle":
		return ro.Status.Phase == v1beta1.RolloutPhaseHealthy && !deleting && ro.Spec.Strategy.Canary != nil
	case a == "user.editidle": // the plan is edited while nothing is being released (validation allows any change then)
		return ro.Status.Phase == v1beta1.RolloutPhaseHealthy && !deleting && len(w.Cfg.Steps2) > 0
	case a == "user.deleteidle":
		return ro.Status.Phase == v1beta1.RolloutPhaseHealthy && !deleting
	case strings.HasPrefix(a, "user.jump:"):
		if !inProgress || sub == nil {
			return false
		}
		n, _ := strconv.Atoi(a[len("user.jump:"):])
		return int32(n) != sub.NextStepIndex
	}
	return false
}

// tickUseful: time passing changes something only if some timestamp is still fresh.
// foreignKey: the grace-map key belongs to the other scenario of a pair (and not to this one)
func (w *World) foreignKey(k string) bool {
	other := w.Peer
	if w.parent != nil {
		other = w.parent
	}
	return other != nil && other.own[k] && !w.own[k]
}

func (w *World) tickUseful() bool {
	if w.Cfg.Queue && (w.Q.RoTimer || w.Q.BrTimer) {
		return true
	}
	for k, m := range grace.DumpForVerif() {
		if w.foreignKey(k) {
			continue
		}
		for _, t := range m {
			if time.Since(t) < time.Duration(BigGrace)*time.Second {
				return true
			}
		}
	}
	ro := w.getRollout()
	if ro == nil {
		return false
	}
	for _, c := range ro.Status.Conditions {
		if time.Since(c.LastUpdateTime.Time) < time.Duration(BigGrace)*time.Second && ro.Status.Phase == v1beta1.RolloutPhaseProgressing {
			return true
		}
	}
	if sub := ro.Status.GetSubStatus(); sub != nil && sub.LastUpdateTime != nil {
		if time.Since(sub.LastUpdateTime.Time) < time.Duration(BigGrace)*time.Second {
			return true
		}
	}
	return false
}

// MemSnapshot captures in-memory controller state.
type MemSnapshot struct {
	Grace map[string]map[string]time.Time
	Exp   map[string][]string
}

// WorldSnapshot is everything needed to restore a World.
type WorldSnapshot struct {
	Store *Snapshot
	Mem   MemSnapshot
	Ghost Ghost
	Q     Queues
	Peer  *WorldSnapshot
}

func (w *World) Snapshot() *WorldSnapshot {
	sn := w.snapshotOne()
	if w.Peer != nil {
		sn.Peer = &WorldSnapshot{Ghost: w.Peer.snapshotGhost(), Q: w.Peer.Q}
	}
	return sn
}

func (w *World) snapshotGhost() Ghost {
	g := w.Ghost
	g.Used = map[string]int{}
	for k, v := range w.Ghost.Used {
		g.Used[k] = v
	}
	g.ReadySteps = append([]int{}, w.Ghost.ReadySteps...)
	return g
}

func (w *World) snapshotOne() *WorldSnapshot {
	g := w.Ghost
	g.Used = map[string]int{}
	for k, v := range w.Ghost.Used {
		g.Used[k] = v
	}
	g.ReadySteps = append([]int{}, w.Ghost.ReadySteps...)
	return &WorldSnapshot{Store: w.S.Snapshot(), Mem: MemSnapshot{Grace: grace.DumpForVerif(), Exp: dumpResourceExpectations()}, Ghost: g, Q: w.Q}
}

func (w *World) Restore(sn *WorldSnapshot) {
	w.S.Restore(sn.Store)
	grace.LoadForVerif(sn.Mem.Grace)
	loadResourceExpectations(sn.Mem.Exp)
	g := sn.Ghost
	g.Used = map[string]int{}
	for k, v := range sn.Ghost.Used {
		g.Used[k] = v
	}
	g.ReadySteps = append([]int{}, sn.Ghost.ReadySteps...)
	w.Ghost = g
	w.Q = sn.Q
	if w.Peer != nil && sn.Peer != nil {
		pg := sn.Peer.Ghost
		pg.Used = map[string]int{}
		for k, v := range sn.Peer.Ghost.Used {
			pg.Used[k] = v
		}
		pg.ReadySteps = append([]int{}, sn.Peer.Ghost.ReadySteps...)
		w.Peer.Ghost = pg
		w.Peer.Q = sn.Peer.Q
	}
}

var _ = v1alpha1.RolloutPhaseHealthy

func canaryRevisionOf(ro *v1beta1.Rollout) string {
	if ro.Status.CanaryStatus != nil {
		return ro.Status.CanaryStatus.CanaryRevision
	}
	if ro.Status.BlueGreenStatus != nil {
		return ro.Status.BlueGreenStatus.UpdatedRevision
	}
	return ""
}

// isDisturbance: user actions other than starting the release and approving steps count against
// the configuration's total disturbance budget.
func isDisturbance(cls string) bool {
	return strings.HasPrefix(cls, "user.") && cls != "user.release2" && cls != "user.approve"
}
