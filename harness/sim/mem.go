package sim

import (
	expectations "github.com/openkruise/rollouts/pkg/util/expectation"
)

// The creation expectations (canary Deployment) are a process-global of interface type whose
// constructor is exported, so no hook is needed: crash = fresh instance, snapshot = the entries
// of the one controller key the scenarios use.

var knownNS = []string{DefaultNS}

func expKeys() []string {
	var out []string
	for _, ns := range knownNS {
		out = append(out, ns+"/"+RolloutName, ns+"/"+RolloutName+"-b")
	}
	return out
}

func resetResourceExpectations() {
	expectations.ResourceExpectations = expectations.NewResourceExpectations()
}

func dumpResourceExpectations() map[string][]string {
	out := map[string][]string{}
	for _, k := range expKeys() {
		m := expectations.ResourceExpectations.GetExpectations(k)
		if m == nil {
			continue
		}
		if s, ok := m[expectations.Create]; ok && s.Len() > 0 {
			out[k] = s.List()
		}
	}
	return out
}

func loadResourceExpectations(in map[string][]string) {
	resetResourceExpectations()
	for k, names := range in {
		for _, n := range names {
			expectations.ResourceExpectations.Expect(k, expectations.Create, n)
		}
	}
}
