// Package sim is a small simulated Kubernetes API server plus environment that the real
// Kruise Rollouts reconcilers run against.  The store implements controller-runtime's
// client.Client and adds what a real API server does and the controllers rely on:
// UIDs, generation (bumped iff .spec changes), resourceVersion conflicts on Update,
// status sub-resource isolation, finalizer-aware deletion, API normalisation through the
// typed structs (empty maps vanish), suppression of no-op writes, a write log, watch
// events, fault injection (error / conflict / process death at a chosen call) and cheap
// snapshot / restore.
package sim

import (
	"bytes"
	"context"
	"encoding/json"
	"fmt"
	"reflect"
	"sort"
	"strconv"
	"strings"
	"time"

	jsonpatch "github.com/evanphx/json-patch"
	apierrors "k8s.io/apimachinery/pkg/api/errors"
	"k8s.io/apimachinery/pkg/api/meta"
	metav1 "k8s.io/apimachinery/pkg/apis/meta/v1"
	"k8s.io/apimachinery/pkg/apis/meta/v1/unstructured"
	"k8s.io/apimachinery/pkg/labels"
	"k8s.io/apimachinery/pkg/runtime"
	"k8s.io/apimachinery/pkg/runtime/schema"
	"k8s.io/apimachinery/pkg/types"
	"k8s.io/apimachinery/pkg/util/strategicpatch"
	"sigs.k8s.io/controller-runtime/pkg/client"
	"sigs.k8s.io/controller-runtime/pkg/client/apiutil"
)

// Key identifies one stored object.
type Key struct {
	Group, Kind, Namespace, Name string
}

func (k Key) String() string { return k.Group + "/" + k.Kind + "/" + k.Namespace + "/" + k.Name }

// Event is one effective change of the store (what a watch would deliver).
type Event struct {
	Type string // Create | Update | Delete
	Key  Key
	Old  []byte
	New  []byte
}

// Write is one entry of the write log.
type Write struct {
	Actor     string `json:"actor"`
	Verb      string `json:"verb"`
	Kind      string `json:"kind"`
	Name      string `json:"name"`
	Sub       string `json:"sub,omitempty"`
	Body      string `json:"body,omitempty"`
	Effective bool   `json:"effective"`
}

// CrashSentinel is panicked by the store to simulate process death after a write.
type CrashSentinel struct{ AfterWrite int }

// FaultPlan describes one injected disturbance for the current action.
type FaultPlan struct {
	// Mode: "" none, "crash" (panic after the N-th effective write), "err" (call N fails before
	// taking effect), "errafter" (write call N takes effect, then reports an error),
	// "conflict" (write call N fails with a Conflict before taking effect).
	Mode string
	N    int
}

// Store is the simulated API server.
type Store struct {
	scheme *runtime.Scheme
	objs   map[Key][]byte
	rv     int64
	uid    int64
	clock  int64 // logical seconds since base for creationTimestamp ordering

	// per-action bookkeeping
	Actor      string
	Log        []Write
	Events     []Event
	calls      int // all calls of the current action (reads and writes)
	writeCalls int // write calls of the current action
	effWrites  int // effective writes of the current action
	Fault      FaultPlan
	FaultFired bool
	OnWrite    func(s *Store) // called after every effective write (mid-state capture)
}

var baseTime = time.Date(2026, 1, 1, 0, 0, 0, 0, time.UTC)

// NewStore returns an empty store.
func NewStore(scheme *runtime.Scheme) *Store {
	return &Store{scheme: scheme, objs: map[Key][]byte{}}
}

// Snapshot is an immutable copy of the store's persistent state.
type Snapshot struct {
	objs  map[Key][]byte
	rv    int64
	uid   int64
	clock int64
}

func (s *Store) Snapshot() *Snapshot {
	m := make(map[Key][]byte, len(s.objs))
	for k, v := range s.objs {
		m[k] = v
	}
	return &Snapshot{objs: m, rv: s.rv, uid: s.uid, clock: s.clock}
}

func (s *Store) Restore(sn *Snapshot) {
	m := make(map[Key][]byte, len(sn.objs))
	for k, v := range sn.objs {
		m[k] = v
	}
	s.objs, s.rv, s.uid, s.clock = m, sn.rv, sn.uid, sn.clock
	s.BeginAction("")
}

// BeginAction resets the per-action bookkeeping.
func (s *Store) BeginAction(actor string) {
	s.Actor = actor
	s.Log = nil
	s.Events = nil
	s.calls, s.writeCalls, s.effWrites = 0, 0, 0
	s.Fault = FaultPlan{}
	s.FaultFired = false
}

func (s *Store) Calls() int      { return s.calls }
func (s *Store) WriteCalls() int { return s.writeCalls }
func (s *Store) EffWrites() int  { return s.effWrites }

// Keys returns all keys sorted.
func (s *Store) Keys() []Key {
	ks := make([]Key, 0, len(s.objs))
	for k := range s.objs {
		ks = append(ks, k)
	}
	sort.Slice(ks, func(i, j int) bool { return ks[i].String() < ks[j].String() })
	return ks
}

// Raw returns the stored JSON of an object (nil if absent).
func (s *Store) Raw(k Key) []byte { return s.objs[k] }

// ---------------------------------------------------------------------------------------------
// helpers

func (s *Store) gvkFor(obj runtime.Object) (schema.GroupVersionKind, error) {
	if u, ok := obj.(*unstructured.Unstructured); ok {
		return u.GroupVersionKind(), nil
	}
	if u, ok := obj.(*unstructured.UnstructuredList); ok {
		return u.GroupVersionKind(), nil
	}
	return apiutil.GVKForObject(obj, s.scheme)
}

func keyOf(gvk schema.GroupVersionKind, ns, name string) Key {
	return Key{Group: gvk.Group, Kind: gvk.Kind, Namespace: ns, Name: name}
}

// normalise round-trips JSON through the typed struct registered for gvk (if any), which is what
// the API server's decoding does: unknown fields are dropped, empty maps/slices with omitempty vanish.
func (s *Store) normalise(gvk schema.GroupVersionKind, raw []byte) ([]byte, error) {
	if s.scheme.Recognizes(gvk) {
		o, err := s.scheme.New(gvk)
		if err != nil {
			return nil, err
		}
		if err := json.Unmarshal(raw, o); err != nil {
			return nil, err
		}
		o.GetObjectKind().SetGroupVersionKind(gvk)
		return json.Marshal(o)
	}
	var m map[string]interface{}
	if err := json.Unmarshal(raw, &m); err != nil {
		return nil, err
	}
	m["apiVersion"] = gvk.GroupVersion().String()
	m["kind"] = gvk.Kind
	return json.Marshal(m)
}

func toMap(raw []byte) map[string]interface{} {
	var m map[string]interface{}
	_ = json.Unmarshal(raw, &m)
	if m == nil {
		m = map[string]interface{}{}
	}
	return m
}

func metaOf(m map[string]interface{}) map[string]interface{} {
	md, _ := m["metadata"].(map[string]interface{})
	if md == nil {
		md = map[string]interface{}{}
		m["metadata"] = md
	}
	return md
}

func jsonEq(a, b interface{}) bool {
	x, _ := json.Marshal(a)
	y, _ := json.Marshal(b)
	return bytes.Equal(x, y)
}

// stripVolatile removes fields that change on every write and carry no meaning.
func stripVolatile(raw []byte) []byte {
	m := toMap(raw)
	md := metaOf(m)
	delete(md, "resourceVersion")
	delete(md, "managedFields")
	out, _ := json.Marshal(m)
	return out
}

func (s *Store) nextRV() string {
	s.rv++
	return strconv.FormatInt(s.rv, 10)
}

func (s *Store) now() string {
	s.clock++
	return baseTime.Add(time.Duration(s.clock) * time.Second).Format(time.RFC3339)
}

// preCall implements fault injection before a call takes effect.
func (s *Store) preCall(write bool, gvk schema.GroupVersionKind, name string) error {
	s.calls++
	if write {
		s.writeCalls++
	}
	switch s.Fault.Mode {
	case "err":
		if s.calls == s.Fault.N && !s.FaultFired {
			s.FaultFired = true
			return apierrors.NewInternalError(fmt.Errorf("injected API error at call %d", s.calls))
		}
	case "conflict":
		if write && s.writeCalls == s.Fault.N && !s.FaultFired {
			s.FaultFired = true
			return apierrors.NewConflict(schema.GroupResource{Group: gvk.Group, Resource: strings.ToLower(gvk.Kind)}, name, fmt.Errorf("injected conflict at write call %d", s.writeCalls))
		}
	}
	return nil
}

// postWrite implements fault injection after a write took effect.
func (s *Store) postWrite(effective bool) error {
	if effective {
		s.effWrites++
		if s.OnWrite != nil {
			s.OnWrite(s)
		}
		if s.Fault.Mode == "crash" && s.effWrites == s.Fault.N && !s.FaultFired {
			s.FaultFired = true
			panic(CrashSentinel{AfterWrite: s.effWrites})
		}
	}
	if s.Fault.Mode == "errafter" && s.writeCalls == s.Fault.N && !s.FaultFired {
		s.FaultFired = true
		return apierrors.NewTimeoutError(fmt.Sprintf("injected timeout after write call %d took effect", s.writeCalls), 1)
	}
	return nil
}

func (s *Store) logWrite(verb string, k Key, sub, body string, effective bool) {
	s.Log = append(s.Log, Write{Actor: s.Actor, Verb: verb, Kind: k.Kind, Name: k.Namespace + "/" + k.Name, Sub: sub, Body: body, Effective: effective})
}

// commit stores newRaw under k, enforcing API-server semantics relative to oldRaw (nil on create).
// sub is "" for the main resource and "status" for the status sub-resource.
func (s *Store) commit(verb string, k Key, gvk schema.GroupVersionKind, oldRaw, newRaw []byte, sub, body string) ([]byte, error) {
	nm := toMap(newRaw)
	nmd := metaOf(nm)
	oldRV := ""
	if oldRaw == nil {
		s.uid++
		nmd["uid"] = fmt.Sprintf("uid-%04d", s.uid)
		nmd["generation"] = int64(1)
		nmd["creationTimestamp"] = s.now()
		delete(nmd, "deletionTimestamp")
	} else {
		om := toMap(oldRaw)
		omd := metaOf(om)
		oldRV, _ = omd["resourceVersion"].(string)
		// immutable metadata
		for _, f := range []string{"uid", "creationTimestamp", "deletionTimestamp", "deletionGracePeriodSeconds", "generation", "name", "namespace"} {
			if v, ok := omd[f]; ok {
				nmd[f] = v
			} else {
				delete(nmd, f)
			}
		}
		if sub == "status" {
			// only status changes
			st, has := nm["status"]
			nm = om
			nmd = omd
			if has {
				nm["status"] = st
			} else {
				delete(nm, "status")
			}
		} else {
			if hasStatusSubresource(gvk) {
				if st, ok := om["status"]; ok {
					nm["status"] = st
				} else {
					delete(nm, "status")
				}
			}
			// generation is bumped iff the normalised spec changes; compare after normalisation below
		}
	}
	newRV := s.nextRV()
	nmd["resourceVersion"] = newRV
	out, _ := json.Marshal(nm)
	out, err := s.normalise(gvk, out)
	if err != nil {
		return nil, apierrors.NewBadRequest(err.Error())
	}
	if oldRaw != nil && sub != "status" {
		// generation: compare the normalised spec sections textually
		if !bytes.Equal(section(out, "spec"), section(oldRaw, "spec")) {
			fm := toMap(out)
			g, _ := metaOf(fm)["generation"].(float64)
			metaOf(fm)["generation"] = int64(g) + 1
			out, _ = json.Marshal(fm)
			out, _ = s.normalise(gvk, out)
		}
	}
	// finalizer-aware deletion: a deleting object whose finalizers are gone disappears
	if bytes.Contains(out, []byte(`"deletionTimestamp"`)) && !bytes.Contains(out, []byte(`"finalizers"`)) {
		delete(s.objs, k)
		s.Events = append(s.Events, Event{Type: "Delete", Key: k, Old: oldRaw})
		s.logWrite(verb, k, sub, body, true)
		return oldRaw, s.postWrite(true)
	}
	if oldRaw != nil {
		same := bytes.Replace(oldRaw, []byte(`"resourceVersion":"`+oldRV+`"`), []byte(`"resourceVersion":"`+newRV+`"`), 1)
		if bytes.Equal(same, out) {
			s.logWrite(verb, k, sub, body, false)
			return oldRaw, s.postWrite(false)
		}
	}
	s.objs[k] = out
	if oldRaw == nil {
		s.Events = append(s.Events, Event{Type: "Create", Key: k, New: out})
	} else {
		s.Events = append(s.Events, Event{Type: "Update", Key: k, Old: oldRaw, New: out})
	}
	s.logWrite(verb, k, sub, body, true)
	return out, s.postWrite(true)
}

// section returns the raw JSON of one top-level field of a normalised object ("" if absent).
func section(raw []byte, field string) []byte {
	var m map[string]json.RawMessage
	if json.Unmarshal(raw, &m) != nil {
		return nil
	}
	return m[field]
}

func hasStatusSubresource(gvk schema.GroupVersionKind) bool {
	switch gvk.Kind {
	case "ConfigMap", "Secret", "MutatingWebhookConfiguration", "VirtualService", "DestinationRule", "ControllerRevision":
		return false
	}
	return true
}

// keepStatusOnCreate: the environment creates Pods / ReplicaSets with their status in one go.
func keepStatusOnCreate(gvk schema.GroupVersionKind) bool { return true }

// typed decode cache: raw byte slices are immutable and replaced on every write, so the address of
// the first byte identifies a stored version; decoding is by far the most expensive operation.
var decodeCache = map[*byte]runtime.Object{}

func (s *Store) fill(raw []byte, gvk schema.GroupVersionKind, obj runtime.Object) error {
	if u, ok := obj.(*unstructured.Unstructured); ok {
		m := toMap(raw)
		u.Object = m
		u.SetGroupVersionKind(gvk)
		return nil
	}
	if len(raw) > 0 {
		if c, ok := decodeCache[&raw[0]]; ok && reflect.TypeOf(c) == reflect.TypeOf(obj) {
			cp := c.DeepCopyObject()
			reflect.ValueOf(obj).Elem().Set(reflect.ValueOf(cp).Elem())
			return nil
		}
	}
	// zero the target, then decode
	if err := zero(obj); err != nil {
		return err
	}
	if err := json.Unmarshal(raw, obj); err != nil {
		return err
	}
	obj.GetObjectKind().SetGroupVersionKind(gvk)
	if len(raw) > 0 {
		if len(decodeCache) > 200000 {
			decodeCache = map[*byte]runtime.Object{}
		}
		decodeCache[&raw[0]] = obj.DeepCopyObject()
	}
	return nil
}

func zero(obj runtime.Object) error {
	// json.Unmarshal merges into existing values; reset by decoding into a fresh object of the same type
	return resetObject(obj)
}

// ---------------------------------------------------------------------------------------------
// client.Client

var _ client.Client = &Store{}

func (s *Store) Scheme() *runtime.Scheme { return s.scheme }
func (s *Store) RESTMapper() meta.RESTMapper {
	return meta.NewDefaultRESTMapper(nil)
}

func (s *Store) Get(ctx context.Context, key client.ObjectKey, obj client.Object, opts ...client.GetOption) error {
	gvk, err := s.gvkFor(obj)
	if err != nil {
		return err
	}
	if err := s.preCall(false, gvk, key.Name); err != nil {
		return err
	}
	raw, ok := s.objs[keyOf(gvk, key.Namespace, key.Name)]
	if !ok {
		return apierrors.NewNotFound(schema.GroupResource{Group: gvk.Group, Resource: strings.ToLower(gvk.Kind) + "s"}, key.Name)
	}
	return s.fill(raw, gvk, obj)
}

func (s *Store) List(ctx context.Context, list client.ObjectList, opts ...client.ListOption) error {
	gvk, err := s.gvkFor(list)
	if err != nil {
		return err
	}
	gvk.Kind = strings.TrimSuffix(gvk.Kind, "List")
	if err := s.preCall(false, gvk, ""); err != nil {
		return err
	}
	lo := client.ListOptions{}
	lo.ApplyOptions(opts)
	var items []runtime.Object
	for _, k := range s.Keys() {
		if k.Group != gvk.Group || k.Kind != gvk.Kind {
			continue
		}
		if lo.Namespace != "" && k.Namespace != lo.Namespace {
			continue
		}
		raw := s.objs[k]
		if lo.LabelSelector != nil {
			md := metaOf(toMap(raw))
			lbls := map[string]string{}
			if lm, ok := md["labels"].(map[string]interface{}); ok {
				for a, b := range lm {
					lbls[a], _ = b.(string)
				}
			}
			if !lo.LabelSelector.Matches(labelSet(lbls)) {
				continue
			}
		}
		var o runtime.Object
		if _, isU := list.(*unstructured.UnstructuredList); isU || !s.scheme.Recognizes(gvk) {
			o = &unstructured.Unstructured{}
		} else {
			o, err = s.scheme.New(gvk)
			if err != nil {
				return err
			}
		}
		if err := s.fill(raw, gvk, o); err != nil {
			return err
		}
		items = append(items, o)
	}
	return meta.SetList(list, items)
}

func labelSet(m map[string]string) labels.Set { return labels.Set(m) }

func resetObject(obj runtime.Object) error {
	v := reflect.ValueOf(obj)
	if v.Kind() != reflect.Ptr || v.IsNil() {
		return fmt.Errorf("cannot reset %T", obj)
	}
	v.Elem().Set(reflect.Zero(v.Elem().Type()))
	return nil
}

func (s *Store) Create(ctx context.Context, obj client.Object, opts ...client.CreateOption) error {
	gvk, err := s.gvkFor(obj)
	if err != nil {
		return err
	}
	if err := s.preCall(true, gvk, obj.GetName()); err != nil {
		return err
	}
	k := keyOf(gvk, obj.GetNamespace(), obj.GetName())
	if _, ok := s.objs[k]; ok {
		return apierrors.NewAlreadyExists(schema.GroupResource{Group: gvk.Group, Resource: strings.ToLower(gvk.Kind) + "s"}, obj.GetName())
	}
	raw, err := json.Marshal(obj)
	if err != nil {
		return err
	}
	out, ferr := s.commit("create", k, gvk, nil, raw, "", "")
	if out != nil {
		_ = s.fill(out, gvk, obj)
	}
	return ferr
}

func (s *Store) Delete(ctx context.Context, obj client.Object, opts ...client.DeleteOption) error {
	gvk, err := s.gvkFor(obj)
	if err != nil {
		return err
	}
	if err := s.preCall(true, gvk, obj.GetName()); err != nil {
		return err
	}
	k := keyOf(gvk, obj.GetNamespace(), obj.GetName())
	old, ok := s.objs[k]
	if !ok {
		return apierrors.NewNotFound(schema.GroupResource{Group: gvk.Group, Resource: strings.ToLower(gvk.Kind) + "s"}, obj.GetName())
	}
	m := toMap(old)
	md := metaOf(m)
	fin, _ := md["finalizers"].([]interface{})
	if len(fin) > 0 {
		if _, already := md["deletionTimestamp"]; already {
			s.logWrite("delete", k, "", "", false)
			return s.postWrite(false)
		}
		md["deletionTimestamp"] = s.now()
		md["resourceVersion"] = s.nextRV()
		out, _ := json.Marshal(m)
		out, _ = s.normalise(gvk, out)
		s.objs[k] = out
		s.Events = append(s.Events, Event{Type: "Update", Key: k, Old: old, New: out})
		s.logWrite("delete", k, "", "", true)
		return s.postWrite(true)
	}
	delete(s.objs, k)
	s.Events = append(s.Events, Event{Type: "Delete", Key: k, Old: old})
	s.logWrite("delete", k, "", "", true)
	return s.postWrite(true)
}

func (s *Store) update(obj client.Object, sub string) error {
	gvk, err := s.gvkFor(obj)
	if err != nil {
		return err
	}
	if err := s.preCall(true, gvk, obj.GetName()); err != nil {
		return err
	}
	k := keyOf(gvk, obj.GetNamespace(), obj.GetName())
	old, ok := s.objs[k]
	if !ok {
		return apierrors.NewNotFound(schema.GroupResource{Group: gvk.Group, Resource: strings.ToLower(gvk.Kind) + "s"}, obj.GetName())
	}
	if rv := obj.GetResourceVersion(); rv != "" {
		if cur, _ := metaOf(toMap(old))["resourceVersion"].(string); cur != rv {
			return apierrors.NewConflict(schema.GroupResource{Group: gvk.Group, Resource: strings.ToLower(gvk.Kind) + "s"}, obj.GetName(), fmt.Errorf("object was modified (have %s, stored %s)", rv, cur))
		}
	}
	raw, err := json.Marshal(obj)
	if err != nil {
		return err
	}
	out, ferr := s.commit("update", k, gvk, old, raw, sub, "")
	if out != nil {
		if cur, still := s.objs[k]; still {
			_ = s.fill(cur, gvk, obj)
		}
	}
	return ferr
}

func (s *Store) Update(ctx context.Context, obj client.Object, opts ...client.UpdateOption) error {
	return s.update(obj, "")
}

func (s *Store) patch(obj client.Object, p client.Patch, sub string) error {
	gvk, err := s.gvkFor(obj)
	if err != nil {
		return err
	}
	if err := s.preCall(true, gvk, obj.GetName()); err != nil {
		return err
	}
	k := keyOf(gvk, obj.GetNamespace(), obj.GetName())
	old, ok := s.objs[k]
	if !ok {
		return apierrors.NewNotFound(schema.GroupResource{Group: gvk.Group, Resource: strings.ToLower(gvk.Kind) + "s"}, obj.GetName())
	}
	data, err := p.Data(obj)
	if err != nil {
		return err
	}
	var patched []byte
	switch p.Type() {
	case types.MergePatchType:
		patched, err = jsonpatch.MergePatch(old, data)
	case types.JSONPatchType:
		var jp jsonpatch.Patch
		jp, err = jsonpatch.DecodePatch(data)
		if err == nil {
			patched, err = jp.Apply(old)
		}
	case types.StrategicMergePatchType:
		if !s.scheme.Recognizes(gvk) {
			return apierrors.NewBadRequest("strategic merge patch is not supported for custom resources")
		}
		var typed runtime.Object
		typed, err = s.scheme.New(gvk)
		if err == nil {
			patched, err = strategicpatch.StrategicMergePatch(old, data, typed)
		}
	default:
		return apierrors.NewBadRequest("unsupported patch type " + string(p.Type()))
	}
	if err != nil {
		return apierrors.NewBadRequest(err.Error())
	}
	out, ferr := s.commit("patch", k, gvk, old, patched, sub, string(data))
	if out != nil {
		if cur, still := s.objs[k]; still {
			_ = s.fill(cur, gvk, obj)
		}
	}
	return ferr
}

func (s *Store) Patch(ctx context.Context, obj client.Object, p client.Patch, opts ...client.PatchOption) error {
	return s.patch(obj, p, "")
}

func (s *Store) DeleteAllOf(ctx context.Context, obj client.Object, opts ...client.DeleteAllOfOption) error {
	return fmt.Errorf("DeleteAllOf not supported by the simulated API server")
}

type subWriter struct {
	s   *Store
	sub string
}

func (s *Store) Status() client.SubResourceWriter { return &subWriter{s: s, sub: "status"} }
func (s *Store) SubResource(sub string) client.SubResourceClient {
	return &subClient{subWriter{s: s, sub: sub}}
}

func (w *subWriter) Create(ctx context.Context, obj client.Object, subResource client.Object, opts ...client.SubResourceCreateOption) error {
	return fmt.Errorf("sub-resource create not supported")
}
func (w *subWriter) Update(ctx context.Context, obj client.Object, opts ...client.SubResourceUpdateOption) error {
	return w.s.update(obj, w.sub)
}
func (w *subWriter) Patch(ctx context.Context, obj client.Object, p client.Patch, opts ...client.SubResourcePatchOption) error {
	return w.s.patch(obj, p, w.sub)
}

type subClient struct{ subWriter }

func (c *subClient) Get(ctx context.Context, obj client.Object, subResource client.Object, opts ...client.SubResourceGetOption) error {
	return fmt.Errorf("sub-resource get not supported")
}

// ---------------------------------------------------------------------------------------------
// direct (environment / user) access that bypasses fault injection but keeps API semantics

// Put creates or replaces an object from the outside (environment, user, fixtures).
func (s *Store) Put(obj client.Object) error {
	gvk, err := s.gvkFor(obj)
	if err != nil {
		return err
	}
	k := keyOf(gvk, obj.GetNamespace(), obj.GetName())
	raw, err := json.Marshal(obj)
	if err != nil {
		return err
	}
	old := s.objs[k]
	if old != nil {
		// carry the stored resourceVersion so the caller need not
		m := toMap(raw)
		metaOf(m)["resourceVersion"] = metaOf(toMap(old))["resourceVersion"]
		raw, _ = json.Marshal(m)
	}
	_, err = s.commit("put", k, gvk, old, raw, "", "")
	return err
}

// PutStatus replaces only the status of an existing object.
func (s *Store) PutStatus(obj client.Object) error {
	gvk, err := s.gvkFor(obj)
	if err != nil {
		return err
	}
	k := keyOf(gvk, obj.GetNamespace(), obj.GetName())
	old := s.objs[k]
	if old == nil {
		return fmt.Errorf("PutStatus: %v not found", k)
	}
	raw, err := json.Marshal(obj)
	if err != nil {
		return err
	}
	_, err = s.commit("put", k, gvk, old, raw, "status", "")
	return err
}

// Load fills obj from the store without counting as an API call. Returns false if absent.
func (s *Store) Load(ns, name string, obj client.Object) bool {
	gvk, err := s.gvkFor(obj)
	if err != nil {
		return false
	}
	raw, ok := s.objs[keyOf(gvk, ns, name)]
	if !ok {
		return false
	}
	return s.fill(raw, gvk, obj) == nil
}

// Remove deletes an object unconditionally (garbage collector / user force).
func (s *Store) Remove(k Key) {
	if old, ok := s.objs[k]; ok {
		delete(s.objs, k)
		s.Events = append(s.Events, Event{Type: "Delete", Key: k, Old: old})
		s.logWrite("remove", k, "", "", true)
	}
}

// AgeTimestamps moves every RFC3339 timestamp below .status (and deletionTimestamp is left alone)
// d into the past; used by the explicit "tick" action.
func (s *Store) AgeTimestamps(d time.Duration) {
	for k, raw := range s.objs {
		m := toMap(raw)
		st, ok := m["status"]
		if !ok {
			continue
		}
		if ageValue(st, d) {
			out, _ := json.Marshal(m)
			s.objs[k] = out
		}
	}
}

func ageValue(v interface{}, d time.Duration) bool {
	changed := false
	switch x := v.(type) {
	case map[string]interface{}:
		for kk, vv := range x {
			if str, ok := vv.(string); ok && strings.Contains(strings.ToLower(kk), "time") {
				if t, err := time.Parse(time.RFC3339, str); err == nil {
					x[kk] = t.Add(-d).UTC().Format(time.RFC3339)
					changed = true
					continue
				}
			}
			if ageValue(vv, d) {
				changed = true
			}
		}
	case []interface{}:
		for _, vv := range x {
			if ageValue(vv, d) {
				changed = true
			}
		}
	}
	return changed
}

var _ = metav1.Now
