package sim

import (
	"context"
	"fmt"
	"math"

	kruisev1alpha1 "github.com/openkruise/kruise-api/apps/v1alpha1"
	kruisev1beta1 "github.com/openkruise/kruise-api/apps/v1beta1"
	apps "k8s.io/api/apps/v1"
	corev1 "k8s.io/api/core/v1"
	metav1 "k8s.io/apimachinery/pkg/apis/meta/v1"
	"k8s.io/apimachinery/pkg/runtime/schema"
	"k8s.io/apimachinery/pkg/util/intstr"
	utilpointer "k8s.io/utils/pointer"
	"sigs.k8s.io/controller-runtime/pkg/client"
)

// partEnv simulates the native controller of a partition-style workload whose update knob is
// "how many pods stay at old revisions": Kruise CloneSet (int or percent, rounded up), native and
// Advanced StatefulSet (int32 ordinal partition) and Kruise DaemonSet (int32 partition).
// The kind-specific parts are behind partAdapter; the step functions are shared:
//
//   - env.observe : status.observedGeneration := generation, update revision := revision of the template
//   - env.update  : one old-revision pod is recreated at the update revision (unready), only while
//     !paused and more than `partition` pods are at old revisions
//   - env.ready   : one unready pod becomes ready
//   - env.scale   : one pod is created / deleted towards the desired size
//   - env.unready : (disturbance) one ready updated pod becomes unready
type partEnv struct{ a partAdapter }

// wlStatus is the kind-independent view of a workload status.
type wlStatus struct {
	ObservedGeneration                     int64
	Replicas, Ready, Updated, UpdatedReady int32
	UpdateRevision, CurrentRevision        string
}

type partAdapter interface {
	Kind() string
	GVK() schema.GroupVersionKind
	Resource() string
	Unified() bool // admitted through the StatefulSet-like (unified) webhook handler
	New() client.Object
	Fixture(replicas int) client.Object
	Replicas(o client.Object) int
	SetReplicas(o client.Object, n int)
	Image(o client.Object) string
	SetTemplate(o client.Object, rev int)
	Status(o client.Object) wlStatus
	SetStatus(o client.Object, st wlStatus)
	PartitionCount(o client.Object, replicas int) int
	Knob(o client.Object) (string, int)
	Paused(o client.Object) bool
	HasCurrentRevision() bool
}

func (e *partEnv) get(w *World) client.Object {
	o := e.a.New()
	if !w.S.Load(w.NS, WorkloadNm, o) {
		return nil
	}
	return o
}

func (e *partEnv) Fixture(w *World) error {
	o := e.a.Fixture(w.Cfg.Replicas)
	o.SetNamespace(w.NS)
	if err := w.S.Put(o); err != nil {
		return err
	}
	o = e.get(w)
	for i := 0; i < w.Cfg.Replicas; i++ {
		if err := e.createPod(w, o, 1, true); err != nil {
			return err
		}
	}
	st := wlStatus{ObservedGeneration: o.GetGeneration(), UpdateRevision: revName(1), CurrentRevision: revName(1)}
	e.a.SetStatus(o, e.recount(w, o, st))
	return w.S.PutStatus(o)
}

func (e *partEnv) pods(w *World) []*corev1.Pod { return (&cloneSetEnv{}).pods(w) }

func (e *partEnv) createPod(w *World, o client.Object, rev int, ready bool) error {
	name := fmt.Sprintf("%s-p%04d", WorkloadNm, w.S.uid+1)
	t := true
	gvk := e.a.GVK()
	p := &corev1.Pod{
		ObjectMeta: metav1.ObjectMeta{Namespace: w.NS, Name: name,
			Labels:          map[string]string{"app": WorkloadNm, "controller-revision-hash": revName(rev), "pod-template-hash": fmt.Sprintf("v%d", rev)},
			OwnerReferences: []metav1.OwnerReference{{APIVersion: gvk.GroupVersion().String(), Kind: gvk.Kind, Name: o.GetName(), UID: o.GetUID(), Controller: &t}},
		},
		Spec: podTemplate(rev).Spec,
	}
	setPodReady(p, ready)
	return w.S.Put(p)
}

// recount recomputes the status counters from the pods.
func (e *partEnv) recount(w *World, o client.Object, st wlStatus) wlStatus {
	upd := RevOf(st.UpdateRevision)
	var n, ready, updated, updatedReady int32
	for _, p := range e.pods(w) {
		n++
		r := podReady(p)
		if r {
			ready++
		}
		if podRev(p) == upd {
			updated++
			if r {
				updatedReady++
			}
		}
	}
	st.Replicas, st.Ready, st.Updated, st.UpdatedReady = n, ready, updated, updatedReady
	if updated == n && updatedReady >= n && int(n) == e.a.Replicas(o) {
		st.CurrentRevision = st.UpdateRevision
	}
	return st
}

func (e *partEnv) observed(o client.Object) bool {
	st := e.a.Status(o)
	return st.ObservedGeneration == o.GetGeneration() && st.UpdateRevision == revName(imageRev(e.a.Image(o)))
}

func (e *partEnv) EnvActions(w *World) []string {
	o := e.get(w)
	if o == nil {
		return nil
	}
	if !e.observed(o) {
		return []string{"env.observe"}
	}
	var out []string
	pods := e.pods(w)
	R := e.a.Replicas(o)
	upd := RevOf(e.a.Status(o).UpdateRevision)
	updated, unready, readyUpdated := 0, 0, 0
	for _, p := range pods {
		if podRev(p) == upd {
			updated++
			if podReady(p) {
				readyUpdated++
			}
		}
		if !podReady(p) {
			unready++
		}
	}
	if len(pods) != R {
		out = append(out, "env.scale")
	}
	if !e.a.Paused(o) && len(pods)-updated > e.a.PartitionCount(o, R) {
		out = append(out, "env.update")
	}
	if unready > 0 {
		out = append(out, "env.ready")
	}
	if readyUpdated > 0 && updated < len(pods) && w.actionConfigured("env.unready") && w.budgetLeft("env.unready") {
		out = append(out, "env.unready")
	}
	return out
}

func (e *partEnv) EnvDo(w *World, a string) error {
	o := e.get(w)
	if o == nil {
		return nil
	}
	pods := e.pods(w)
	st := e.a.Status(o)
	upd := imageRev(e.a.Image(o))
	R := e.a.Replicas(o)
	switch a {
	case "env.observe":
		st.ObservedGeneration = o.GetGeneration()
		st.UpdateRevision = revName(upd)
	case "env.update":
		for _, p := range pods {
			if podRev(p) != upd {
				if err := w.S.Delete(context.TODO(), p); err != nil {
					return err
				}
				if err := e.createPod(w, o, upd, false); err != nil {
					return err
				}
				break
			}
		}
	case "env.ready":
		for _, p := range pods {
			if !podReady(p) {
				setPodReady(p, true)
				if err := w.S.PutStatus(p); err != nil {
					return err
				}
				break
			}
		}
	case "env.unready":
		w.Ghost.Used["env.unready"]++
		for _, p := range pods {
			if podRev(p) == upd && podReady(p) {
				setPodReady(p, false)
				if err := w.S.PutStatus(p); err != nil {
					return err
				}
				break
			}
		}
	case "env.scale":
		updated := 0
		for _, p := range pods {
			if podRev(p) == upd {
				updated++
			}
		}
		pc := e.a.PartitionCount(o, R)
		if len(pods) < R {
			rev := RevOf(st.CurrentRevision)
			if len(pods)-updated >= pc || rev == 0 {
				rev = upd
			}
			if err := e.createPod(w, o, rev, false); err != nil {
				return err
			}
		} else if len(pods) > R {
			wantOld := len(pods)-updated > pc
			if updated == 0 {
				wantOld = true
			}
			var victim *corev1.Pod
			for pass := 0; pass < 2 && victim == nil; pass++ {
				for _, p := range pods {
					if (podRev(p) != upd) == wantOld && (pass == 1 || !podReady(p)) {
						victim = p
						break
					}
				}
			}
			if victim == nil {
				victim = pods[len(pods)-1]
			}
			if err := w.S.Delete(context.TODO(), victim); err != nil {
				return err
			}
		}
	default:
		return fmt.Errorf("partition env: unknown action %s", a)
	}
	e.a.SetStatus(o, e.recount(w, o, st))
	return w.S.PutStatus(o)
}

func (e *partEnv) admitAndPut(w *World, old, nw client.Object) error {
	out, err := Admit(w.S, w.Scheme, e.a.GVK(), e.a.Resource(), old, nw, e.a.Unified())
	if err != nil {
		return err
	}
	admitted := e.a.New()
	if err := jsonUnmarshal(out, admitted); err != nil {
		return err
	}
	return w.S.Put(admitted)
}

func (e *partEnv) Release(w *World, rev int) error {
	old := e.get(w)
	if old == nil {
		return nil
	}
	nw := old.DeepCopyObject().(client.Object)
	e.a.SetTemplate(nw, rev)
	if w.Cfg.RolloutID {
		id := fmt.Sprintf("id%d-%d", rev, w.Ghost.Used["user.release2"]+w.Ghost.Used["user.release3"]+w.Ghost.Used["user.rollback"])
		if w.Cfg.RolloutIDFixed {
			id = "idfix"
		}
		l, an := nw.GetLabels(), nw.GetAnnotations()
		if l == nil {
			l = map[string]string{}
		}
		if an == nil {
			an = map[string]string{}
		}
		l["rollouts.kruise.io/rollout-id"], an["rollouts.kruise.io/rollout-id"] = id, id
		nw.SetLabels(l)
		nw.SetAnnotations(an)
	}
	return e.admitAndPut(w, old, nw)
}

func (e *partEnv) Scale(w *World, n int) error {
	old := e.get(w)
	if old == nil {
		return nil
	}
	nw := old.DeepCopyObject().(client.Object)
	e.a.SetReplicas(nw, n)
	return e.admitAndPut(w, old, nw)
}

func (e *partEnv) Quiescent(w *World) bool { return len(e.EnvActions(w)) == 0 }

func (e *partEnv) LabelledFor(w *World, rid string) int { return labelledFor(e.pods(w), rid) }

func (e *partEnv) Project(w *World) map[string]interface{} {
	o := e.get(w)
	if o == nil {
		return map[string]interface{}{"exists": false}
	}
	st := e.recount(w, o, e.a.Status(o)) // counters as the controllers derive them (native StatefulSet has no updatedReadyReplicas)
	st.CurrentRevision = e.a.Status(o).CurrentRevision
	R := e.a.Replicas(o)
	n, rd := [4]int{}, [4]int{}
	for _, p := range e.pods(w) {
		r := podRev(p)
		if r < 1 || r > 3 {
			continue
		}
		n[r]++
		if podReady(p) {
			rd[r]++
		}
	}
	ktype, kval := e.a.Knob(o)
	_, inprog := o.GetAnnotations()["rollouts.kruise.io/in-progressing"]
	_, ctrl := o.GetAnnotations()["batchrelease.rollouts.kruise.io/control-info"]
	stable := RevOf(st.CurrentRevision)
	return map[string]interface{}{
		"exists": true, "kind": e.a.Kind(), "style": "partition", "R": R,
		"genOk":   st.ObservedGeneration == o.GetGeneration(),
		"specRev": imageRev(e.a.Image(o)), "updRev": RevOf(st.UpdateRevision), "stableRev": stable,
		"n": []int{n[1], n[2], n[3]}, "rd": []int{rd[1], rd[2], rd[3]},
		"ktype": ktype, "kval": kval, "paused": e.a.Paused(o), "inprog": inprog, "ctrl": ctrl,
		"wtype":     o.GetLabels()["rollouts.kruise.io/workload-type"] != "",
		"stUpdated": int(st.Updated), "stUpdRdy": int(st.UpdatedReady), "stRepl": int(st.Replicas),
		"rid":      o.GetLabels()["rollouts.kruise.io/rollout-id"],
		"lab":      podLabelSummary(e.pods(w), RevOf(st.UpdateRevision)),
		"labelled": labelledFor(e.pods(w), workloadRolloutID(o.GetLabels()["rollouts.kruise.io/rollout-id"], RevOf(st.UpdateRevision))),
	}
}

// ------------------------------------------------------------------------------------------------
// adapters

func selectorFor() *metav1.LabelSelector {
	return &metav1.LabelSelector{MatchLabels: map[string]string{"app": WorkloadNm}}
}

// native apps/v1 StatefulSet
type stsAdapter struct{}

func (stsAdapter) Kind() string { return "StatefulSet" }
func (stsAdapter) GVK() schema.GroupVersionKind {
	return apps.SchemeGroupVersion.WithKind("StatefulSet")
}
func (stsAdapter) Resource() string         { return "statefulsets" }
func (stsAdapter) Unified() bool            { return true }
func (stsAdapter) New() client.Object       { return &apps.StatefulSet{} }
func (stsAdapter) HasCurrentRevision() bool { return true }
func (stsAdapter) Fixture(r int) client.Object {
	return &apps.StatefulSet{ObjectMeta: metav1.ObjectMeta{Namespace: DefaultNS, Name: WorkloadNm},
		Spec: apps.StatefulSetSpec{Replicas: utilpointer.Int32(int32(r)), Selector: selectorFor(), Template: podTemplate(1), ServiceName: "demo",
			UpdateStrategy: apps.StatefulSetUpdateStrategy{Type: apps.RollingUpdateStatefulSetStrategyType}}}
}
func (stsAdapter) Replicas(o client.Object) int { return int(*o.(*apps.StatefulSet).Spec.Replicas) }
func (stsAdapter) SetReplicas(o client.Object, n int) {
	o.(*apps.StatefulSet).Spec.Replicas = utilpointer.Int32(int32(n))
}
func (stsAdapter) Image(o client.Object) string {
	return o.(*apps.StatefulSet).Spec.Template.Spec.Containers[0].Image
}
func (stsAdapter) SetTemplate(o client.Object, rev int) {
	o.(*apps.StatefulSet).Spec.Template = podTemplate(rev)
}
func (stsAdapter) Status(o client.Object) wlStatus {
	s := o.(*apps.StatefulSet).Status
	return wlStatus{ObservedGeneration: s.ObservedGeneration, Replicas: s.Replicas, Ready: s.ReadyReplicas, Updated: s.UpdatedReplicas,
		UpdateRevision: s.UpdateRevision, CurrentRevision: s.CurrentRevision}
}
func (stsAdapter) SetStatus(o client.Object, st wlStatus) {
	s := &o.(*apps.StatefulSet).Status
	s.ObservedGeneration, s.Replicas, s.ReadyReplicas, s.AvailableReplicas, s.UpdatedReplicas = st.ObservedGeneration, st.Replicas, st.Ready, st.Ready, st.Updated
	s.UpdateRevision, s.CurrentRevision = st.UpdateRevision, st.CurrentRevision
}
func (stsAdapter) PartitionCount(o client.Object, r int) int {
	ru := o.(*apps.StatefulSet).Spec.UpdateStrategy.RollingUpdate
	if ru == nil || ru.Partition == nil {
		return 0
	}
	return clampInt(int(*ru.Partition), 0, r)
}
func (stsAdapter) Knob(o client.Object) (string, int) {
	ru := o.(*apps.StatefulSet).Spec.UpdateStrategy.RollingUpdate
	if ru == nil || ru.Partition == nil {
		return "none", 0
	}
	return "int", int(*ru.Partition)
}
func (stsAdapter) Paused(o client.Object) bool { return false }

// Kruise Advanced StatefulSet (apps.kruise.io/v1beta1)
type astsAdapter struct{}

func (astsAdapter) Kind() string { return "AdvStatefulSet" }
func (astsAdapter) GVK() schema.GroupVersionKind {
	return kruisev1beta1.SchemeGroupVersion.WithKind("StatefulSet")
}
func (astsAdapter) Resource() string         { return "statefulsets" }
func (astsAdapter) Unified() bool            { return true }
func (astsAdapter) New() client.Object       { return &kruisev1beta1.StatefulSet{} }
func (astsAdapter) HasCurrentRevision() bool { return true }
func (astsAdapter) Fixture(r int) client.Object {
	return &kruisev1beta1.StatefulSet{ObjectMeta: metav1.ObjectMeta{Namespace: DefaultNS, Name: WorkloadNm},
		Spec: kruisev1beta1.StatefulSetSpec{Replicas: utilpointer.Int32(int32(r)), Selector: selectorFor(), Template: podTemplate(1), ServiceName: "demo",
			UpdateStrategy: kruisev1beta1.StatefulSetUpdateStrategy{Type: apps.RollingUpdateStatefulSetStrategyType}}}
}
func (astsAdapter) Replicas(o client.Object) int {
	return int(*o.(*kruisev1beta1.StatefulSet).Spec.Replicas)
}
func (astsAdapter) SetReplicas(o client.Object, n int) {
	o.(*kruisev1beta1.StatefulSet).Spec.Replicas = utilpointer.Int32(int32(n))
}
func (astsAdapter) Image(o client.Object) string {
	return o.(*kruisev1beta1.StatefulSet).Spec.Template.Spec.Containers[0].Image
}
func (astsAdapter) SetTemplate(o client.Object, rev int) {
	o.(*kruisev1beta1.StatefulSet).Spec.Template = podTemplate(rev)
}
func (astsAdapter) Status(o client.Object) wlStatus {
	s := o.(*kruisev1beta1.StatefulSet).Status
	return wlStatus{ObservedGeneration: s.ObservedGeneration, Replicas: s.Replicas, Ready: s.ReadyReplicas, Updated: s.UpdatedReplicas, UpdatedReady: s.UpdatedReadyReplicas,
		UpdateRevision: s.UpdateRevision, CurrentRevision: s.CurrentRevision}
}
func (astsAdapter) SetStatus(o client.Object, st wlStatus) {
	s := &o.(*kruisev1beta1.StatefulSet).Status
	s.ObservedGeneration, s.Replicas, s.ReadyReplicas, s.AvailableReplicas, s.UpdatedReplicas, s.UpdatedReadyReplicas = st.ObservedGeneration, st.Replicas, st.Ready, st.Ready, st.Updated, st.UpdatedReady
	s.UpdateRevision, s.CurrentRevision = st.UpdateRevision, st.CurrentRevision
}
func (astsAdapter) PartitionCount(o client.Object, r int) int {
	ru := o.(*kruisev1beta1.StatefulSet).Spec.UpdateStrategy.RollingUpdate
	if ru == nil || ru.Partition == nil {
		return 0
	}
	return clampInt(int(*ru.Partition), 0, r)
}
func (astsAdapter) Knob(o client.Object) (string, int) {
	ru := o.(*kruisev1beta1.StatefulSet).Spec.UpdateStrategy.RollingUpdate
	if ru == nil || ru.Partition == nil {
		return "none", 0
	}
	return "int", int(*ru.Partition)
}
func (astsAdapter) Paused(o client.Object) bool {
	ru := o.(*kruisev1beta1.StatefulSet).Spec.UpdateStrategy.RollingUpdate
	return ru != nil && ru.Paused
}

// Kruise Advanced DaemonSet (apps.kruise.io/v1alpha1); "replicas" = status.desiredNumberScheduled (number of nodes)
type dsAdapter struct{}

func (dsAdapter) Kind() string { return "DaemonSet" }
func (dsAdapter) GVK() schema.GroupVersionKind {
	return kruisev1alpha1.SchemeGroupVersion.WithKind("DaemonSet")
}
func (dsAdapter) Resource() string         { return "daemonsets" }
func (dsAdapter) Unified() bool            { return false }
func (dsAdapter) New() client.Object       { return &kruisev1alpha1.DaemonSet{} }
func (dsAdapter) HasCurrentRevision() bool { return false }
func (dsAdapter) Fixture(r int) client.Object {
	ds := &kruisev1alpha1.DaemonSet{ObjectMeta: metav1.ObjectMeta{Namespace: DefaultNS, Name: WorkloadNm, Annotations: map[string]string{"verif/nodes": fmt.Sprint(r)}},
		Spec: kruisev1alpha1.DaemonSetSpec{Selector: selectorFor(), Template: podTemplate(1),
			UpdateStrategy: kruisev1alpha1.DaemonSetUpdateStrategy{Type: kruisev1alpha1.RollingUpdateDaemonSetStrategyType,
				RollingUpdate: &kruisev1alpha1.RollingUpdateDaemonSet{Partition: utilpointer.Int32(0)}}}}
	ds.Status.DesiredNumberScheduled = int32(r)
	return ds
}
func (dsAdapter) Replicas(o client.Object) int {
	n := 0
	fmt.Sscan(o.GetAnnotations()["verif/nodes"], &n)
	return n
}
func (dsAdapter) SetReplicas(o client.Object, n int) {
	a := o.GetAnnotations()
	a["verif/nodes"] = fmt.Sprint(n)
	o.SetAnnotations(a)
}
func (dsAdapter) Image(o client.Object) string {
	return o.(*kruisev1alpha1.DaemonSet).Spec.Template.Spec.Containers[0].Image
}
func (dsAdapter) SetTemplate(o client.Object, rev int) {
	o.(*kruisev1alpha1.DaemonSet).Spec.Template = podTemplate(rev)
}
func (dsAdapter) Status(o client.Object) wlStatus {
	s := o.(*kruisev1alpha1.DaemonSet).Status
	return wlStatus{ObservedGeneration: s.ObservedGeneration, Replicas: s.DesiredNumberScheduled, Ready: s.NumberReady, Updated: s.UpdatedNumberScheduled,
		UpdateRevision: s.DaemonSetHash, CurrentRevision: o.GetAnnotations()["verif/current-revision"]}
}
func (a dsAdapter) SetStatus(o client.Object, st wlStatus) {
	s := &o.(*kruisev1alpha1.DaemonSet).Status
	s.ObservedGeneration, s.NumberReady, s.NumberAvailable, s.UpdatedNumberScheduled = st.ObservedGeneration, st.Ready, st.Ready, st.Updated
	s.CurrentNumberScheduled, s.DesiredNumberScheduled = st.Replicas, int32(a.Replicas(o))
	s.DaemonSetHash = st.UpdateRevision
}
func (dsAdapter) PartitionCount(o client.Object, r int) int {
	ru := o.(*kruisev1alpha1.DaemonSet).Spec.UpdateStrategy.RollingUpdate
	if ru == nil || ru.Partition == nil {
		return 0
	}
	return clampInt(int(*ru.Partition), 0, r)
}
func (dsAdapter) Knob(o client.Object) (string, int) {
	ru := o.(*kruisev1alpha1.DaemonSet).Spec.UpdateStrategy.RollingUpdate
	if ru == nil || ru.Partition == nil {
		return "none", 0
	}
	return "int", int(*ru.Partition)
}
func (dsAdapter) Paused(o client.Object) bool {
	ru := o.(*kruisev1alpha1.DaemonSet).Spec.UpdateStrategy.RollingUpdate
	return ru != nil && ru.Paused != nil && *ru.Paused
}

func clampInt(v, lo, hi int) int {
	if v < lo {
		return lo
	}
	if v > hi {
		return hi
	}
	return v
}

var _ = math.MaxInt16
var _ = intstr.Int

// ReplicasOf: spec.replicas (DaemonSet: desired number scheduled) of the workload (0 if it does not exist)
func (e *partEnv) ReplicasOf(w *World) int {
	if o := e.get(w); o != nil {
		return e.a.Replicas(o)
	}
	return 0
}
