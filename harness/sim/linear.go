package sim

import (
	"encoding/json"
	"fmt"
	"io"
)

// RunLinear drives one fair schedule (round-robin over enabled non-disturbance actions, approving
// manual pauses) and prints every step; used for bring-up and as the baseline history.
func RunLinear(cfg Config, out io.Writer) int {
	w, err := NewWorld(cfg)
	if err != nil {
		fmt.Fprintln(out, "ERR", err)
		return 2
	}
	released := false
	for i := 0; i < 400; i++ {
		en := w.Enabled()
		var pick string
		prio := []string{"env.observe", "env.update", "env.ready", "env.scale", "env.gc", "br", "ro", "tick"}
		abs := w.Project()
		ro := abs["ro"].(map[string]interface{})
		if !released && ro["phase"] == "Healthy" {
			pick = "user.release2"
			released = true
		} else if ro["state"] == "StepPaused" && ro["reason"] == "InRolling" && i%3 == 0 {
			pick = "user.approve"
		} else {
			pick = prio[i%len(prio)]
			ok := false
			for _, e := range en {
				if e == pick {
					ok = true
				}
			}
			if !ok {
				continue
			}
		}
		res := w.Do(pick, false)
		abs = w.Project()
		b, _ := json.Marshal(map[string]interface{}{"ro": abs["ro"], "br": abs["br"], "wl": abs["wl"], "net": abs["net"], "mem": abs["mem"]})
		nw := 0
		for _, wr := range res.Writes {
			if wr.Effective {
				nw++
			}
		}
		if nw > 0 || res.Err != "" || res.Panic != "" {
			fmt.Fprintf(out, "%3d %-14s w=%d err=%q panic=%q\n    %s\n", i, pick, nw, res.Err, res.Panic, b)
			for _, wr := range res.Writes {
				if wr.Effective {
					fmt.Fprintf(out, "      %s %s %s %s %s\n", wr.Verb, wr.Kind, wr.Name, wr.Sub, wr.Body)
				}
			}
		}
	}
	return 0
}


// RunReplay executes a given action path and prints the abstract state after every step.
func RunReplay(cfg Config, path string, out io.Writer) int {
	w, err := NewWorld(cfg)
	if err != nil {
		fmt.Fprintln(out, "ERR", err)
		return 2
	}
	for i, a := range splitPath(path) {
		res := w.Do(a, false)
		abs := w.Project()
		b, _ := json.Marshal(abs)
		fmt.Fprintf(out, "%3d %-16s err=%q panic=%q crashed=%v\n    %s\n", i, a, res.Err, res.Panic, res.Crashed, b)
		for _, wr := range res.Writes {
			fmt.Fprintf(out, "      %v %s %s %s %s %s\n", wr.Effective, wr.Verb, wr.Kind, wr.Name, wr.Sub, wr.Body)
		}
	}
	return 0
}

func splitPath(p string) []string {
	var out []string
	cur := ""
	for _, c := range p {
		if c == ',' {
			if cur != "" {
				out = append(out, cur)
			}
			cur = ""
		} else {
			cur += string(c)
		}
	}
	if cur != "" {
		out = append(out, cur)
	}
	return out
}
