package sim

import (
	"reflect"
	"time"

	"github.com/openkruise/rollouts/api/v1beta1"
	brctrl "github.com/openkruise/rollouts/pkg/controller/batchrelease"
	roctrl "github.com/openkruise/rollouts/pkg/controller/rollout"
	"k8s.io/apimachinery/pkg/runtime/schema"
	"sigs.k8s.io/controller-runtime/pkg/client"
	"sigs.k8s.io/controller-runtime/pkg/event"
	"sigs.k8s.io/controller-runtime/pkg/handler"
	"sigs.k8s.io/controller-runtime/pkg/reconcile"
)

// Queues is the wake-up state of the two controllers' work queues for the single Rollout /
// BatchRelease of a scenario: a key is either pending (will be reconciled), waiting on a long timer
// (RequeueAfter of a grace period: fires on the explicit tick) or neither.
type Queues struct {
	RoPending bool `json:"roP"`
	BrPending bool `json:"brP"`
	RoTimer   bool `json:"roT"`
	BrTimer   bool `json:"brT"`
}

// fakeQueue collects what the REAL event handlers enqueue.
type fakeQueue struct{ items []reconcile.Request }

func (q *fakeQueue) Add(item interface{}) {
	if r, ok := item.(reconcile.Request); ok {
		q.items = append(q.items, r)
	}
}
func (q *fakeQueue) Len() int                                        { return len(q.items) }
func (q *fakeQueue) Get() (interface{}, bool)                        { return nil, true }
func (q *fakeQueue) Done(item interface{})                           {}
func (q *fakeQueue) ShutDown()                                       {}
func (q *fakeQueue) ShutDownWithDrain()                              {}
func (q *fakeQueue) ShuttingDown() bool                              { return false }
func (q *fakeQueue) AddAfter(item interface{}, d time.Duration)      { q.Add(item) }
func (q *fakeQueue) AddRateLimited(item interface{})                 { q.Add(item) }
func (q *fakeQueue) Forget(item interface{})                         {}
func (q *fakeQueue) NumRequeues(item interface{}) int                { return 0 }

type wakeHandlers struct {
	roWorkload handler.EventHandler // rollout controller: workload -> Rollout
	roBR       handler.EventHandler // rollout controller: BatchRelease -> Rollout
	brWorkload handler.EventHandler // batchrelease controller: workload -> BatchRelease
	brPod      handler.EventHandler // batchrelease controller: pod -> BatchRelease
}

func (w *World) handlers() *wakeHandlers {
	if w.wake == nil {
		w.wake = &wakeHandlers{
			roWorkload: roctrl.NewWorkloadEventHandlerForVerif(w.S, w.Scheme),
			roBR:       roctrl.NewBatchReleaseEventHandlerForVerif(w.S),
			brWorkload: brctrl.NewWorkloadEventHandlerForVerif(w.S),
			brPod:      brctrl.NewPodEventHandlerForVerif(w.S),
		}
	}
	return w.wake
}

func (w *World) decode(k Key, raw []byte) client.Object {
	if raw == nil {
		return nil
	}
	var tm struct {
		APIVersion string `json:"apiVersion"`
	}
	_ = jsonUnmarshal(raw, &tm)
	gv, _ := schema.ParseGroupVersion(tm.APIVersion)
	gvk := gv.WithKind(k.Kind)
	o, err := w.Scheme.New(gvk)
	if err != nil {
		return nil
	}
	co, ok := o.(client.Object)
	if !ok {
		return nil
	}
	if w.S.fill(raw, gvk, co) != nil {
		return nil
	}
	return co
}

func isWorkloadKind(k Key) bool {
	switch k.Kind {
	case "CloneSet", "Deployment", "StatefulSet", "DaemonSet":
		return k.Group == "apps" || k.Group == "apps.kruise.io"
	}
	return false
}

// deliverEvents feeds the store's watch events of the last action to the REAL event handlers of
// both controllers (and replicates the inline BatchRelease update predicate of add()), and marks
// the keys they enqueue as pending.
func (w *World) deliverEvents(events []Event) {
	h := w.handlers()
	roQ, brQ := &fakeQueue{}, &fakeQueue{}
	for _, ev := range events {
		oldObj, newObj := w.decode(ev.Key, ev.Old), w.decode(ev.Key, ev.New)
		dispatch := func(eh handler.EventHandler, q *fakeQueue) {
			switch ev.Type {
			case "Create":
				eh.Create(event.CreateEvent{Object: newObj}, q)
			case "Update":
				eh.Update(event.UpdateEvent{ObjectOld: oldObj, ObjectNew: newObj}, q)
			case "Delete":
				eh.Delete(event.DeleteEvent{Object: oldObj}, q)
			}
		}
		switch {
		case ev.Key.Kind == "Rollout" && ev.Key.Group == "rollouts.kruise.io":
			dispatch(&handler.EnqueueRequestForObject{}, roQ)
		case ev.Key.Kind == "BatchRelease" && ev.Key.Group == "rollouts.kruise.io":
			dispatch(h.roBR, roQ)
			// batchrelease controller: EnqueueRequestForObject behind the update predicate of add()
			pass := true
			if ev.Type == "Update" {
				o, n := oldObj.(*v1beta1.BatchRelease), newObj.(*v1beta1.BatchRelease)
				pass = o.Generation != n.Generation || n.DeletionTimestamp != nil ||
					len(o.Annotations) != len(n.Annotations) || !reflect.DeepEqual(o.Annotations, n.Annotations)
			}
			if pass {
				dispatch(&handler.EnqueueRequestForObject{}, brQ)
			}
		case ev.Key.Kind == "Pod" && ev.Key.Group == "":
			dispatch(h.brPod, brQ)
		case isWorkloadKind(ev.Key):
			dispatch(h.roWorkload, roQ)
			dispatch(h.brWorkload, brQ)
		}
	}
	// a request wakes the scenario whose namespace it names (in a pair: possibly the OTHER scenario's queue)
	for _, r := range roQ.items {
		if t := w.scenarioOf(r); t != nil {
			t.Q.RoPending = true
		}
	}
	for _, r := range brQ.items {
		if t := w.scenarioOf(r); t != nil {
			t.Q.BrPending = true
		}
	}
}

func (w *World) scenarioOf(r reconcile.Request) *World {
	if r.Name != RolloutName {
		return nil
	}
	for _, t := range []*World{w, w.Peer, w.parent} {
		if t != nil && t.NS == r.Namespace {
			return t
		}
	}
	return nil
}

// afterReconcile applies the reconcile result to the queue state the way controller-runtime does:
// an error or Requeue re-adds the key (rate limited), RequeueAfter adds it after the delay. Delays of
// a grace period fire on the explicit tick; short ones (BatchRelease's 2 s polling) count as pending.
func (w *World) afterReconcile(ctrl string, err error, requeue bool, after time.Duration) {
	pending := err != nil || requeue || (after > 0 && after < 60*time.Second)
	timer := after >= 60*time.Second && err == nil
	switch ctrl {
	case "ro":
		w.Q.RoPending = w.Q.RoPending || pending
		w.Q.RoTimer = w.Q.RoTimer || timer
	case "br":
		w.Q.BrPending = w.Q.BrPending || pending
		w.Q.BrTimer = w.Q.BrTimer || timer
	}
}
