package sim

import (
	"context"
	"fmt"
	"sort"
	"strings"

	kruisev1alpha1 "github.com/openkruise/kruise-api/apps/v1alpha1"
	corev1 "k8s.io/api/core/v1"
	metav1 "k8s.io/apimachinery/pkg/apis/meta/v1"
	"k8s.io/apimachinery/pkg/util/intstr"
	utilpointer "k8s.io/utils/pointer"
)

// cloneSetEnv simulates the Kruise CloneSet controller (trusted; mirrored in Rollouts.tla, Env*).
//
//   - env.observe : status.observedGeneration := generation, updateRevision := revision of the template
//   - env.update  : one old-revision pod is recreated at the update revision (unready), only while
//     !paused and updated < replicas - ceil(partition)
//   - env.ready   : one unready pod becomes ready
//   - env.scale   : one pod is created / deleted towards spec.replicas
//   - env.unready : (disturbance) one ready updated pod becomes unready
//
// status counters are recomputed from the pods in the same step; currentRevision follows
// updateRevision once every pod is updated and ready.
type cloneSetEnv struct{}

func revName(rev int) string { return fmt.Sprintf("%s-v%d", WorkloadNm, rev) }

// RevOf maps any revision string used by the controllers ("demo-v2", "v2", a template hash
// registered by a Deployment environment) to 1..3, 0 for "" and 9 for unknown.
func RevOf(s string) int {
	if s == "" {
		return 0
	}
	if i := strings.LastIndex(s, "v"); i >= 0 && i+1 < len(s) {
		switch s[i+1:] {
		case "1":
			return 1
		case "2":
			return 2
		case "3":
			return 3
		}
	}
	if r, ok := hashRev[s]; ok {
		return r
	}
	return 9
}

var hashRev = map[string]int{}

func imageRev(img string) int { return RevOf(img) }

func podTemplate(rev int) corev1.PodTemplateSpec {
	return corev1.PodTemplateSpec{
		ObjectMeta: metav1.ObjectMeta{Labels: map[string]string{"app": WorkloadNm}},
		Spec:       corev1.PodSpec{Containers: []corev1.Container{{Name: "main", Image: fmt.Sprintf("echo:v%d", rev)}}},
	}
}

func (e *cloneSetEnv) get(w *World) *kruisev1alpha1.CloneSet {
	cs := &kruisev1alpha1.CloneSet{}
	if !w.S.Load(w.NS, WorkloadNm, cs) {
		return nil
	}
	return cs
}

func (e *cloneSetEnv) Fixture(w *World) error {
	cs := &kruisev1alpha1.CloneSet{
		ObjectMeta: metav1.ObjectMeta{Namespace: w.NS, Name: WorkloadNm},
		Spec: kruisev1alpha1.CloneSetSpec{
			Replicas: utilpointer.Int32(int32(w.Cfg.Replicas)),
			Selector: &metav1.LabelSelector{MatchLabels: map[string]string{"app": WorkloadNm}},
			Template: podTemplate(1),
		},
	}
	if err := w.S.Put(cs); err != nil {
		return err
	}
	cs = e.get(w)
	for i := 0; i < w.Cfg.Replicas; i++ {
		if err := e.createPod(w, cs, 1, true); err != nil {
			return err
		}
	}
	cs.Status.ObservedGeneration = cs.Generation
	cs.Status.UpdateRevision = revName(1)
	cs.Status.CurrentRevision = revName(1)
	e.recount(w, cs)
	return w.S.PutStatus(cs)
}

func (e *cloneSetEnv) pods(w *World) []*corev1.Pod {
	var out []*corev1.Pod
	for _, k := range w.S.Keys() {
		if k.Kind == "Pod" && k.Group == "" && k.Namespace == w.NS {
			p := &corev1.Pod{}
			if w.S.Load(k.Namespace, k.Name, p) && p.Labels["app"] == WorkloadNm {
				out = append(out, p)
			}
		}
	}
	sort.Slice(out, func(i, j int) bool { return out[i].Name < out[j].Name })
	return out
}

func podReady(p *corev1.Pod) bool {
	for _, c := range p.Status.Conditions {
		if c.Type == corev1.PodReady {
			return c.Status == corev1.ConditionTrue
		}
	}
	return false
}

func setPodReady(p *corev1.Pod, ready bool) {
	st := corev1.ConditionFalse
	if ready {
		st = corev1.ConditionTrue
	}
	p.Status.Phase = corev1.PodRunning
	p.Status.Conditions = []corev1.PodCondition{{Type: corev1.PodReady, Status: st}}
}

func podRev(p *corev1.Pod) int { return RevOf(p.Labels["controller-revision-hash"]) }

var podSeq int

func (e *cloneSetEnv) createPod(w *World, cs *kruisev1alpha1.CloneSet, rev int, ready bool) error {
	// the name must be unique over the whole history of this store; derive it from the store's uid counter
	name := fmt.Sprintf("%s-p%04d", WorkloadNm, w.S.uid+1)
	t := true
	p := &corev1.Pod{
		ObjectMeta: metav1.ObjectMeta{Namespace: w.NS, Name: name,
			Labels:          map[string]string{"app": WorkloadNm, "controller-revision-hash": revName(rev), "pod-template-hash": fmt.Sprintf("v%d", rev)},
			OwnerReferences: []metav1.OwnerReference{{APIVersion: "apps.kruise.io/v1alpha1", Kind: "CloneSet", Name: cs.Name, UID: cs.UID, Controller: &t}},
		},
		Spec: podTemplate(rev).Spec,
	}
	setPodReady(p, ready)
	return w.S.Put(p)
}

func partitionCount(p *intstr.IntOrString, replicas int) int {
	if p == nil {
		return 0
	}
	v, _ := intstr.GetScaledValueFromIntOrPercent(p, replicas, true)
	if v > replicas {
		v = replicas
	}
	if v < 0 {
		v = 0
	}
	return v
}

// recount recomputes the status counters from the pods.
func (e *cloneSetEnv) recount(w *World, cs *kruisev1alpha1.CloneSet) {
	upd := RevOf(cs.Status.UpdateRevision)
	var n, ready, updated, updatedReady int32
	for _, p := range e.pods(w) {
		n++
		r := podReady(p)
		if r {
			ready++
		}
		if podRev(p) == upd {
			updated++
			if r {
				updatedReady++
			}
		}
	}
	cs.Status.Replicas, cs.Status.ReadyReplicas, cs.Status.AvailableReplicas = n, ready, ready
	cs.Status.UpdatedReplicas, cs.Status.UpdatedReadyReplicas = updated, updatedReady
	if updated == n && updatedReady >= n && n == *cs.Spec.Replicas {
		cs.Status.CurrentRevision = cs.Status.UpdateRevision
	}
	cs.Status.ExpectedUpdatedReplicas = int32(int(*cs.Spec.Replicas) - partitionCount(cs.Spec.UpdateStrategy.Partition, int(*cs.Spec.Replicas)))
}

func (e *cloneSetEnv) observed(cs *kruisev1alpha1.CloneSet) bool {
	return cs.Status.ObservedGeneration == cs.Generation && cs.Status.UpdateRevision == revName(imageRev(cs.Spec.Template.Spec.Containers[0].Image))
}

func (e *cloneSetEnv) EnvActions(w *World) []string {
	cs := e.get(w)
	if cs == nil {
		return nil
	}
	var out []string
	if !e.observed(cs) {
		return []string{"env.observe"}
	}
	pods := e.pods(w)
	R := int(*cs.Spec.Replicas)
	upd := RevOf(cs.Status.UpdateRevision)
	updated, unready, readyUpdated := 0, 0, 0
	for _, p := range pods {
		if podRev(p) == upd {
			updated++
			if podReady(p) {
				readyUpdated++
			}
		}
		if !podReady(p) {
			unready++
		}
	}
	if len(pods) != R {
		out = append(out, "env.scale")
	}
	// the controller keeps at least ceil(partition) pods at old revisions (relative to spec.replicas)
	old := len(pods) - updated
	if !cs.Spec.UpdateStrategy.Paused && old > partitionCount(cs.Spec.UpdateStrategy.Partition, R) {
		out = append(out, "env.update")
	}
	if unready > 0 {
		out = append(out, "env.ready")
	}
	if readyUpdated > 0 && updated < len(pods) && w.actionConfigured("env.unready") && w.budgetLeft("env.unready") {
		out = append(out, "env.unready")
	}
	return out
}

func (w *World) actionConfigured(a string) bool {
	for _, x := range w.Cfg.Actions {
		if x == a {
			return true
		}
	}
	return false
}

func (e *cloneSetEnv) EnvDo(w *World, a string) error {
	cs := e.get(w)
	if cs == nil {
		return nil
	}
	pods := e.pods(w)
	upd := RevOf(revName(imageRev(cs.Spec.Template.Spec.Containers[0].Image)))
	R := int(*cs.Spec.Replicas)
	switch a {
	case "env.observe":
		cs.Status.ObservedGeneration = cs.Generation
		cs.Status.UpdateRevision = revName(upd)
	case "env.update":
		// recreate the old pod with the smallest name
		for _, p := range pods {
			if podRev(p) != upd {
				if err := w.S.Delete(context.TODO(), p); err != nil {
					return err
				}
				if err := e.createPod(w, cs, upd, false); err != nil {
					return err
				}
				break
			}
		}
	case "env.ready":
		for _, p := range pods {
			if !podReady(p) {
				setPodReady(p, true)
				if err := w.S.PutStatus(p); err != nil {
					return err
				}
				break
			}
		}
	case "env.unready":
		w.Ghost.Used["env.unready"]++
		for _, p := range pods {
			if podRev(p) == upd && podReady(p) {
				setPodReady(p, false)
				if err := w.S.PutStatus(p); err != nil {
					return err
				}
				break
			}
		}
	case "env.scale":
		if len(pods) < R {
			updated := 0
			for _, p := range pods {
				if podRev(p) == upd {
					updated++
				}
			}
			// scale-up creates pods at the current revision while fewer than ceil(partition) old pods exist
			rev := RevOf(cs.Status.CurrentRevision)
			if len(pods)-updated >= partitionCount(cs.Spec.UpdateStrategy.Partition, R) || rev == 0 {
				rev = upd
			}
			if err := e.createPod(w, cs, rev, false); err != nil {
				return err
			}
		} else if len(pods) > R {
			// scale-in keeps ceil(partition) pods at old revisions: delete an old pod only while more than that
			// exist, otherwise an updated one; within the class an unready pod goes first
			updated := 0
			for _, p := range pods {
				if podRev(p) == upd {
					updated++
				}
			}
			wantOld := len(pods)-updated > partitionCount(cs.Spec.UpdateStrategy.Partition, R)
			if updated == 0 {
				wantOld = true
			}
			var victim *corev1.Pod
			for pass := 0; pass < 2 && victim == nil; pass++ {
				for _, p := range pods {
					if (podRev(p) != upd) == wantOld && (pass == 1 || !podReady(p)) {
						victim = p
						break
					}
				}
			}
			if victim == nil {
				victim = pods[len(pods)-1]
			}
			if err := w.S.Delete(context.TODO(), victim); err != nil {
				return err
			}
		}
	default:
		return fmt.Errorf("cloneset env: unknown action %s", a)
	}
	e.recount(w, cs)
	return w.S.PutStatus(cs)
}

func (e *cloneSetEnv) Release(w *World, rev int) error {
	old := e.get(w)
	if old == nil {
		return nil
	}
	nw := old.DeepCopy()
	nw.Spec.Template = podTemplate(rev)
	if w.Cfg.RolloutID {
		if nw.Labels == nil {
			nw.Labels = map[string]string{}
		}
		if nw.Annotations == nil {
			nw.Annotations = map[string]string{}
		}
		id := fmt.Sprintf("id%d-%d", rev, w.Ghost.Used["user.release2"]+w.Ghost.Used["user.release3"]+w.Ghost.Used["user.rollback"])
		if w.Cfg.RolloutIDFixed {
			id = "idfix"
		}
		nw.Labels["rollouts.kruise.io/rollout-id"] = id
		nw.Annotations["rollouts.kruise.io/rollout-id"] = id
	}
	return e.admitAndPut(w, old, nw)
}

func (e *cloneSetEnv) admitAndPut(w *World, old, nw *kruisev1alpha1.CloneSet) error {
	gvk := kruisev1alpha1.SchemeGroupVersion.WithKind("CloneSet")
	out, err := Admit(w.S, w.Scheme, gvk, "clonesets", old, nw, false)
	if err != nil {
		return err
	}
	admitted := &kruisev1alpha1.CloneSet{}
	if err := jsonUnmarshal(out, admitted); err != nil {
		return err
	}
	return w.S.Put(admitted)
}

func (e *cloneSetEnv) Scale(w *World, n int) error {
	old := e.get(w)
	if old == nil {
		return nil
	}
	nw := old.DeepCopy()
	nw.Spec.Replicas = utilpointer.Int32(int32(n))
	return e.admitAndPut(w, old, nw)
}

func (e *cloneSetEnv) Quiescent(w *World) bool {
	return len(e.EnvActions(w)) == 0
}

func (e *cloneSetEnv) Project(w *World) map[string]interface{} {
	cs := e.get(w)
	if cs == nil {
		return map[string]interface{}{"exists": false}
	}
	R := int(*cs.Spec.Replicas)
	n := [4]int{}
	rd := [4]int{}
	for _, p := range e.pods(w) {
		r := podRev(p)
		if r < 1 || r > 3 {
			continue
		}
		n[r]++
		if podReady(p) {
			rd[r]++
		}
	}
	lab := podLabelSummary(e.pods(w), RevOf(cs.Status.UpdateRevision))
	ktype, kval := "none", 0
	if p := cs.Spec.UpdateStrategy.Partition; p != nil {
		if p.Type == intstr.Int {
			ktype, kval = "int", int(p.IntVal)
		} else {
			ktype = "pct"
			fmt.Sscanf(p.StrVal, "%d%%", &kval)
		}
	}
	_, inprog := cs.Annotations["rollouts.kruise.io/in-progressing"]
	_, ctrl := cs.Annotations["batchrelease.rollouts.kruise.io/control-info"]
	return map[string]interface{}{
		"exists":    true,
		"kind":      "CloneSet",
		"style":     "partition",
		"R":         R,
		"genOk":     cs.Status.ObservedGeneration == cs.Generation,
		"specRev":   imageRev(cs.Spec.Template.Spec.Containers[0].Image),
		"updRev":    RevOf(cs.Status.UpdateRevision),
		"stableRev": RevOf(cs.Status.CurrentRevision),
		"n":         []int{n[1], n[2], n[3]},
		"rd":        []int{rd[1], rd[2], rd[3]},
		"ktype":     ktype,
		"kval":      kval,
		"paused":    cs.Spec.UpdateStrategy.Paused,
		"inprog":    inprog,
		"ctrl":      ctrl,
		"wtype":     cs.Labels["rollouts.kruise.io/workload-type"] != "",
		"stUpdated": int(cs.Status.UpdatedReplicas),
		"stUpdRdy":  int(cs.Status.UpdatedReadyReplicas),
		"stRepl":    int(cs.Status.Replicas),
		"rid":       cs.Labels["rollouts.kruise.io/rollout-id"],
		"lab":       lab,
		"labelled":  labelledFor(e.pods(w), workloadRolloutID(cs.Labels["rollouts.kruise.io/rollout-id"], RevOf(cs.Status.UpdateRevision))),
	}
}

// podLabelSummary lists, sorted, "<rollout-id>/<batch-id>/<u|o>" for every live pod that carries a
// rollout-id label (u = pod is at the update revision, o = other revision).
func podLabelSummary(pods []*corev1.Pod, upd int) []string {
	out := []string{}
	for _, p := range pods {
		if !p.DeletionTimestamp.IsZero() {
			continue
		}
		id, ok := p.Labels["rollouts.kruise.io/rollout-id"]
		if !ok {
			continue
		}
		u := "o"
		if podRev(p) == upd {
			u = "u"
		}
		out = append(out, id+"/"+p.Labels["rollouts.kruise.io/rollout-batch-id"]+"/"+u)
	}
	sort.Strings(out)
	return out
}

// workloadRolloutID mirrors getRolloutID: the rollout-id label, else the canary revision suffix.
func workloadRolloutID(label string, updRev int) string {
	if label != "" {
		return label
	}
	return fmt.Sprintf("v%d", updRev)
}

// labelledFor counts live pods carrying rollout-id == rid.
func labelledFor(pods []*corev1.Pod, rid string) int {
	n := 0
	for _, p := range pods {
		if p.DeletionTimestamp.IsZero() && p.Labels["rollouts.kruise.io/rollout-id"] == rid {
			n++
		}
	}
	return n
}

// LabelledFor counts live pods carrying rollout-id == rid.
func (e *cloneSetEnv) LabelledFor(w *World, rid string) int { return labelledFor(e.pods(w), rid) }

// ReplicasOf: spec.replicas of the workload (0 if it does not exist)
func (e *cloneSetEnv) ReplicasOf(w *World) int {
	if cs := e.get(w); cs != nil && cs.Spec.Replicas != nil {
		return int(*cs.Spec.Replicas)
	}
	return 0
}
