// Package fnlib is the shared plumbing of the function-level drivers: every driver enumerates a
// bounded input domain, calls the REAL function of openkruise/rollouts on concrete objects built
// from each abstract input, projects the result back to an abstract output and writes one ndjson
// record per case. TLC then validates every record against the function-level TLA+ module.
package fnlib

import (
	"bufio"
	"encoding/json"
	"flag"
	"fmt"
	"os"
	"regexp"
	"runtime/debug"
	"strings"
	"time"
)

// Case is one recorded execution of the real code.
type Case struct {
	ID    int         `json:"id"`
	In    interface{} `json:"in"`
	Out   interface{} `json:"out"`
	Panic string      `json:"panic"`
	Err   string      `json:"err"`
}

// Flags common to all drivers.
type Flags struct {
	Tier string
	Seed int64
	Out  string
	Only int // re-run a single case id (replay); 0 = all
}

func ParseFlags() Flags {
	var f Flags
	flag.StringVar(&f.Tier, "tier", "quick", "quick | thorough")
	flag.Int64Var(&f.Seed, "seed", 1, "seed for sampled parts of the domain")
	flag.StringVar(&f.Out, "out", "", "output prefix (<out>.cases, <out>.meta)")
	flag.IntVar(&f.Only, "only", 0, "replay a single case id")
	flag.Parse()
	return f
}

// Writer streams cases to <out>.cases and counts.
type Writer struct {
	f        *os.File
	w        *bufio.Writer
	n        int
	distinct map[string]bool
	panics   int
	t0       time.Time
	flags    Flags
}

func NewWriter(fl Flags) (*Writer, error) {
	f, err := os.Create(fl.Out + ".cases")
	if err != nil {
		return nil, err
	}
	return &Writer{f: f, w: bufio.NewWriterSize(f, 1<<20), distinct: map[string]bool{}, t0: time.Now(), flags: fl}, nil
}

// Run executes fn under recover and records the case. in must be JSON-serialisable abstract input;
// fn returns the abstract output.
func (w *Writer) Run(in interface{}, fn func() (interface{}, error)) {
	w.n++
	if w.flags.Only != 0 && w.n != w.flags.Only {
		return
	}
	c := Case{ID: w.n, In: in}
	// The real luamanager gives every script a wall-clock budget of one second; on a loaded machine a run can exceed
	// it, which is not a function of the input: such a run is repeated.
	for try := 0; try < 6; try++ {
		c = Case{ID: w.n, In: in}
		func() {
			defer func() {
				if r := recover(); r != nil {
					c.Panic = addrRe.ReplaceAllString(fmt.Sprintf("%v | %s", r, shortStack()), "0x?")
				}
			}()
			out, err := fn()
			c.Out = out
			if err != nil {
				c.Err = err.Error()
			}
		}()
		ob, _ := json.Marshal(c.Out)
		if !strings.Contains(string(ob)+c.Err+c.Panic, "context deadline exceeded") {
			break
		}
	}
	if c.Panic != "" {
		w.panics++
	}
	if c.Out == nil {
		c.Out = map[string]interface{}{}
	}
	b, _ := json.Marshal(c)
	ib, _ := json.Marshal(c.In)
	w.distinct[string(ib)] = true
	w.w.Write(b)
	w.w.WriteByte('\n')
}

// addresses differ from run to run; the recorded panic text must be reproducible for replay
var addrRe = regexp.MustCompile(`0x[0-9a-fA-F]+\??`)

func shortStack() string {
	var keep []string
	for _, l := range strings.Split(string(debug.Stack()), "\n") {
		if strings.Contains(l, "openkruise/rollouts") {
			keep = append(keep, strings.TrimSpace(l))
		}
		if len(keep) >= 6 {
			break
		}
	}
	return strings.Join(keep, " | ")
}

// Close writes <out>.meta.
func (w *Writer) Close(exhaustive bool, extra map[string]interface{}) {
	w.w.Flush()
	w.f.Close()
	meta := map[string]interface{}{"cases": w.n, "distinct": len(w.distinct), "panics": w.panics, "exhaustive": exhaustive,
		"wall_s": time.Since(w.t0).Seconds(), "tier": w.flags.Tier, "seed": w.flags.Seed}
	for k, v := range extra {
		meta[k] = v
	}
	b, _ := json.Marshal(meta)
	os.WriteFile(w.flags.Out+".meta", b, 0644)
	fmt.Println("FN-DONE", string(b))
}
